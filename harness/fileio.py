"""Shared helpers of the file-level checks (C01, C03, C04, C05, C06, C19): building real LasData
objects with controlled raw record bytes, and turning real headers / sessions into the
Lean driver's line protocol."""
import datetime
import io
import struct

import numpy as np

from .props import c07, c08

hx = c08.hx
PAIRS = [(m, f) for m in (1, 2, 3, 4) for f in c07.SPEC_COMPAT[m]]
EXTRA_BASE = ["u1", "i1", "u2", "i2", "u4", "i4", "u8", "i8", "f4", "f8"]


def dbits(x):
    return struct.unpack("<Q", struct.pack("<d", float(x)))[0]


def header_fields(h, compressed=False):
    """model header arguments (see Driver/HdrD.lean) of a real LasHeader"""
    d = h.creation_date or datetime.date.today()
    rets = [int(x) for x in h.number_of_points_by_return]
    dbl = [dbits(h.scales[i]) for i in range(3)] + [dbits(h.offsets[i]) for i in range(3)]
    for i in range(3):
        dbl += [dbits(h.maxs[i]), dbits(h.mins[i])]
    sysid = h.system_identifier
    soft = h.generating_software
    return dict(fsid=h.file_source_id, ge=h.global_encoding.value, guid=h.uuid.bytes_le, vmaj=h.version.major, vmin=h.version.minor,
                sys=sysid.encode() if isinstance(sysid, str) else bytes(sysid), soft=soft.encode() if isinstance(soft, str) else bytes(soft),
                doy=d.timetuple().tm_yday, year=d.year, fmt=h.point_format.id | (0x80 if compressed else 0), reclen=h.point_format.size,
                count=0, ret=[0] * 15, dbl=dbl, wave=h.start_of_waveform_data_packet_record, evlr=0, nevlr=0,
                xh=bytes(h.extra_header_bytes), xv=bytes(h.extra_vlr_bytes),
                vlrs=[(u.decode(), r, d_.decode("latin-1"), p) for (u, r, d_, p) in (c08.canon(v) for v in h.vlrs)])


def hdr_line(f):
    return c07.model_args(f)


def vlr_tok(v):
    u, r, d, p = v
    return f"{hx(u.encode() if isinstance(u, str) else u)}:{r}:{hx(d.encode('latin-1') if isinstance(d, str) else d)}:{hx(p)}"


def op_points(fmt, reclen, raw):
    return f"P,{fmt},{reclen},{hx(raw)}"


def op_evlrs(evlrs):
    return "E," + ("|".join(vlr_tok(v) for v in evlrs) if evlrs else "-")


def session_line(f, ops):
    return "file session " + hdr_line(f) + " -- " + " ".join(ops)


def rand_extra_params(rng, k_max=3, scaled_ok=True):
    """0..k typed extra dimensions (30 element types), some scaled"""
    from laspy import ExtraBytesParams
    params = []
    for i in range(rng.randrange(0, k_max + 1)):
        base = rng.choice(EXTRA_BASE)
        k = rng.choice([1, 1, 2, 3])
        t = base if k == 1 else f"{k}{base}"
        kw = {}
        if scaled_ok and rng.random() < 0.3:
            kw["scales"] = np.array([rng.choice([0.5, 0.01, 2.0, 1.0]) for _ in range(k)])
            kw["offsets"] = np.array([rng.choice([0.0, 10.0, -3.5]) for _ in range(k)])
        params.append(ExtraBytesParams(name=f"ex{i}_{t}", type=t, description=c08.rand_text(rng, rng.randrange(0, 20), "abcdefgh XYZ"), **kw))
    return params


_FOREIGN_K = [0]


def foreign_extra_dims(rng):
    """(extra dimensions of a file, extra dimensions of records that are of ANOTHER point format although the point format id is the
    same, label): the two differ in one extra dimension's scale, offset, name or element type of equal width, or one list is a strict
    prefix of the other"""
    from laspy import ExtraBytesParams
    a = dict(name="height", type="i4", scales=np.array([0.01]), offsets=np.array([100.0]), description="above ground")
    b = dict(name="quality", type="2u2", description="")
    kinds = ["other_scale", "other_offset", "other_name", "same_width_other_type", "file_has_one_more", "records_have_one_more",
             "unscaled_vs_scaled", "same_width_other_element_count"]
    variant = kinds[_FOREIGN_K[0] % len(kinds)]      # every kind in turn, whatever the seed
    _FOREIGN_K[0] += 1
    a2, second = dict(a), True
    mine, theirs = [a, b], None
    if variant == "other_scale":
        a2["scales"] = np.array([0.001])
    elif variant == "other_offset":
        a2["offsets"] = np.array([0.0])
    elif variant == "other_name":
        a2["name"] = "heigth"
    elif variant == "same_width_other_type":
        a2["type"] = "u4"
    elif variant == "unscaled_vs_scaled":
        a2.pop("scales")
        a2.pop("offsets")
    elif variant == "same_width_other_element_count":
        theirs = [a, dict(b, type="u4")]          # one 32-bit element where the file has two 16-bit ones
    elif variant == "file_has_one_more":
        theirs = [a]
    else:
        theirs = [a, b, dict(name="extra", type="u1", description="")]
    if theirs is None:
        theirs = [a2, b]
    return [ExtraBytesParams(**d) for d in mine], [ExtraBytesParams(**d) for d in theirs], variant


SPECIAL_F8 = [0x7FF8000000000001, 0xFFF800000000BEEF, 0x7FF0000000000000, 0xFFF0000000000000, 0x8000000000000000, 0x7FF0000000000001]


def raw_records(rng, size, n, style="random"):
    if style == "zeros":
        return bytes(n * size)
    if style == "ones":
        return b"\xff" * (n * size)
    return bytes(rng.getrandbits(8) for _ in range(n * size))


def make_las(rng, minor, fmt, n, extra_params=(), raw=None, vlrs=(), evlrs=None, scales=None, offsets=None, style="random", date=None):
    """a real LasData whose record array has exactly the given raw bytes"""
    import laspy
    from laspy import VLR
    from laspy.vlrs.vlrlist import VLRList
    las = laspy.create(point_format=fmt, file_version=f"1.{minor}")
    if extra_params:
        las.add_extra_dims(list(extra_params))
    h = las.header
    h.creation_date = date or datetime.date(2024, 2, 29)
    h.scales = np.array(scales if scales is not None else [0.01, 0.001, 0.5])
    h.offsets = np.array(offsets if offsets is not None else [0.0, 1000.0, -12.25])
    size = h.point_format.size
    if raw is None:
        raw = raw_records(rng, size, n, style)
    arr = np.frombuffer(bytearray(raw), dtype=h.point_format.dtype()).copy()
    las.points = laspy.ScaleAwarePointRecord(arr, h.point_format, h.scales, h.offsets)
    for v in vlrs:
        las.vlrs.append(VLR(*v))
    if minor >= 4 and evlrs is not None:
        las.evlrs = VLRList(VLR(*v) for v in evlrs)
    return las


def snapshot(las):
    """deep, comparable snapshot of the caller's object"""
    h = las.header
    return (las.points.array.tobytes(), tuple(dbits(x) for x in las.points.scales), tuple(dbits(x) for x in las.points.offsets),
            repr(h.version), h.point_format.id, h.point_format.size, h.point_count,
            tuple(dbits(x) for x in h.scales), tuple(dbits(x) for x in h.offsets),
            tuple(dbits(x) for x in h.maxs), tuple(dbits(x) for x in h.mins),
            tuple(int(x) for x in h.number_of_points_by_return), h.offset_to_point_data,
            h.start_of_first_evlr, h.number_of_evlrs, h.are_points_compressed, h.creation_date,
            tuple(c08.canon(v) for v in h.vlrs), tuple(c08.canon(v) for v in (h.evlrs or [])),
            h.system_identifier, h.generating_software, h.file_source_id, h.global_encoding.value, h.uuid)


def rand_vlrs(rng, ext, k_max=2):
    out = []
    for _ in range(rng.randrange(0, k_max + 1)):
        (u, r, d, p), kind = c08.gen_record(rng, ext)
        if kind != "unknown" or len(p) > 3000:
            continue
        out.append((u, r, d, p))
    return out


def expected_evlrs(evlrs, ext=True):
    """canonical form of a record list after one write/read (known types normalised)"""
    if not evlrs:
        return []
    res = c08.impl_roundtrip(list(evlrs), ext)
    return res[2]


def read_back(data):
    import laspy
    return laspy.read(io.BytesIO(data))
