"""Synthetic COPC files for C15/C16: a random octree (any sparsity, empty nodes), its hierarchy split
over random pages, chunks in random file order with gaps, on the LAZ backend double.
Geometry is dyadic so that laspy's float arithmetic is exact and can be compared with the
exact-rational model."""
import io
import struct
from fractions import Fraction

import numpy as np

ENTRY = struct.Struct("<iiiiQii")


def child(k, d):
    l, x, y, z = k
    return (l + 1, (x << 1) | (d & 1), (y << 1) | ((d >> 1) & 1), (z << 1) | ((d >> 2) & 1))


class Tree:
    """the generated octree: nodes[key] = array of records (possibly empty)"""

    def __init__(self):
        self.nodes = {}          # key -> structured array
        self.fmt = 6
        self.scale = 0.25
        self.offsets = (0.0, 0.0, 0.0)
        self.root_grid = (0, 0, 0)   # root minimum corner on the integer grid
        self.G = 64                  # root side in grid steps
        self.spacing = 2.0
        self.pages = {}          # page id -> list of (key, kind, payload) ; id 0 = root page
        self.page_loc = {}       # page id -> (offset, size)
        self.node_loc = {}       # key -> (offset, size)
        self.data = b""
        self.entries = {}        # page id -> list of (key, offset, size, count) as written

    def cube_grid(self, k):
        l, x, y, z = k
        side = Fraction(self.G, 2 ** l)
        return [(self.root_grid[i] + c * side, self.root_grid[i] + (c + 1) * side) for i, c in enumerate((x, y, z))]


def gen_tree(rng, depth=None, fmt=None, p_child=None, style="valid"):
    import laspy
    t = Tree()
    t.fmt = fmt if fmt is not None else rng.choice([6, 7, 8])
    depth = rng.randrange(0, 5) if depth is None else depth
    t.scale = rng.choice([0.25, 0.5, 0.125, 1.0])
    t.offsets = tuple(rng.choice([0.0, 16.0, -8.5, 1024.0]) for _ in range(3))
    t.root_grid = tuple(rng.choice([0, -64, 128, 1000]) for _ in range(3))
    t.G = (2 ** max(depth, 1)) * rng.choice([2, 4, 8])
    t.spacing = t.G * t.scale / rng.choice([1, 2, 4, 8, 16])
    p_child = rng.choice([0.25, 0.5, 0.8]) if p_child is None else p_child
    dtype = laspy.PointFormat(t.fmt).dtype()
    # occupied keys: root always, children with probability p_child down to depth
    keys = [(0, 0, 0, 0)]
    frontier = [(0, 0, 0, 0)]
    while frontier:
        k = frontier.pop()
        if k[0] >= depth:
            continue
        for d in range(8):
            if rng.random() < p_child / (1 + k[0] * 0.7):
                c = child(k, d)
                keys.append(c)
                frontier.append(c)
    for k in keys:
        n = rng.choice([0, 0, 1, 2, 3, 5])
        arr = np.zeros(n, dtype=dtype)
        if n:
            raw = np.frombuffer(bytes(rng.getrandbits(8) for _ in range(n * dtype.itemsize)), dtype=dtype).copy()
            arr[:] = raw
            cg = t.cube_grid(k)
            for ax, name in enumerate(("X", "Y", "Z")):
                lo, hi = cg[ax]
                lo_i, hi_i = int(-(-lo // 1)), int(hi // 1)        # integers inside the closed cube
                arr[name] = [rng.choice([lo_i, hi_i, rng.randrange(lo_i, hi_i + 1)]) if rng.random() < 0.2 else rng.randrange(lo_i, hi_i + 1)
                             for _ in range(n)]
        t.nodes[k] = arr
    return t


def assign_pages(rng, t, p_owner=0.3):
    """split the hierarchy: some non-root keys own a page holding their subtree (minus nested pages)"""
    owners = {(0, 0, 0, 0): 0}
    for k in sorted(t.nodes):
        if k != (0, 0, 0, 0) and rng.random() < p_owner:
            owners[k] = len(owners)

    def parent(k):
        l, x, y, z = k
        return (l - 1, x >> 1, y >> 1, z >> 1)

    def page_of(k):
        while k not in owners:
            k = parent(k)
        return owners[k]
    pages = {pid: [] for pid in owners.values()}
    for k in sorted(t.nodes):
        if k in owners and k != (0, 0, 0, 0):
            pages[page_of(parent(k))].append((k, "ref", owners[k]))
        pages[page_of(k)].append((k, "data", None))
    for pid in pages:
        rng.shuffle(pages[pid])
    t.pages = pages
    return t


def build(rng, t, malform=None, gaps=True, ordered=False):
    """lay the file out; returns bytes. malform: None | ('self', key) | ('empty', key) | ('cycle', k1, k2) | ('root',)"""
    import laspy
    import lazrs
    from laspy import VLR
    las = laspy.create(point_format=t.fmt, file_version="1.4")
    h = las.header
    h.scales = np.array([t.scale] * 3)
    h.offsets = np.array(t.offsets)
    order = sorted(t.nodes)
    if ordered:
        gaps = False        # level by level, one chunk right after the other: the next level's first chunk starts where the last read ended
    else:
        rng.shuffle(order)
    allpts = np.concatenate([t.nodes[k] for k in order]) if order else np.zeros(0, dtype=h.point_format.dtype())
    las.points = laspy.ScaleAwarePointRecord(allpts, h.point_format, h.scales, h.offsets)
    lazvlr = lazrs.LazVlr.new_for_compression(t.fmt, 0, lazrs.VARIABLE).record_data()
    las.vlrs.append(VLR("copc", 1, "info", bytes(160)))
    las.vlrs.append(VLR("laszip encoded", 22204, "", bytes(lazvlr)))
    buf = io.BytesIO()
    las.write(buf)
    raw = buf.getvalue()
    off = int.from_bytes(raw[96:100], "little")
    head = bytearray(raw[:off])
    head[104] |= 0x80
    body = bytearray(struct.pack("<q", -1))
    t.node_loc = {}
    for k in order:
        if gaps and rng.random() < 0.3:
            body += bytes(rng.getrandbits(8) for _ in range(rng.randrange(1, 9)))
        chunk = t.nodes[k].tobytes()
        if len(chunk) == 0:
            t.node_loc[k] = (0, 0)
            continue
        t.node_loc[k] = (off + len(body), len(chunk))
        body += lazrs._transform(chunk)
    evlr_start = off + len(body)
    payload_start = evlr_start + 60
    # page sizes are known (32 bytes per entry); place them in random order
    pids = list(t.pages)
    rng.shuffle(pids)
    pos = payload_start
    t.page_loc = {}
    for pid in pids:
        t.page_loc[pid] = (pos, 32 * len(t.pages[pid]))
        pos += 32 * len(t.pages[pid])
    t.entries = {}
    for pid in pids:
        es = []
        for (k, kind, ref) in t.pages[pid]:
            if kind == "ref":
                o, s = t.page_loc[ref]
                es.append((k, o, s, -1))
            else:
                o, s = t.node_loc[k]
                es.append((k, o, s, len(t.nodes[k])))
        t.entries[pid] = es
    t.extra_pages = {}

    def data_entry(k):
        o, s = t.node_loc[k]
        return (k, o, s, len(t.nodes[k]))

    def replace(k, new):
        for pid in pids:
            t.entries[pid] = [(new if (kk == k and c != -1) else (kk, oo, ss, c)) for (kk, oo, ss, c) in t.entries[pid]]
    if malform:
        kind = malform[0]
        if kind == "self":           # the node's own record is a reference to the page holding that record
            k = malform[1]
            pid = next(p for p in pids if any(kk == k and c != -1 for (kk, o, s, c) in t.entries[p]))
            replace(k, (k, t.page_loc[pid][0], t.page_loc[pid][1], -1))
        elif kind == "empty":        # ... a reference to a page that does not define the key
            k = malform[1]
            loc = (pos, 32)
            t.extra_pages[loc] = [((9, 1, 1, 1), 0, 0, 0)]
            replace(k, (k, loc[0], loc[1], -1))
        elif kind == "cycle":        # two sibling nodes whose pages re-reference each other
            k1, k2 = malform[1], malform[2]
            la, lb = (pos, 64), (pos + 64, 64)
            t.extra_pages[la] = [data_entry(k1), (k2, lb[0], lb[1], -1)]
            t.extra_pages[lb] = [data_entry(k2), (k1, la[0], la[1], -1)]
            replace(k1, (k1, la[0], la[1], -1))
            replace(k2, (k2, lb[0], lb[1], -1))
    hier = bytearray()
    for pid in pids:
        for (k, o, s, c) in t.entries[pid]:
            hier += ENTRY.pack(k[0], k[1], k[2], k[3], o, s, c)
    for loc, es in t.extra_pages.items():
        for (k, o, s, c) in es:
            hier += ENTRY.pack(k[0], k[1], k[2], k[3], o, s, c)
    evlr = bytearray(2) + b"copc".ljust(16, b"\0") + struct.pack("<H", 1000) + struct.pack("<Q", len(hier)) + b"hierarchy".ljust(32, b"\0") + hier
    # patch header: EVLR pointer/count; info payload
    head[235:243] = struct.pack("<Q", evlr_start)
    head[243:247] = struct.pack("<I", 1)
    half = t.G * t.scale / 2.0
    center = [t.root_grid[i] * t.scale + t.offsets[i] + half for i in range(3)]
    ro, rs = t.page_loc[0]
    info = struct.pack("<dddddQQdd", center[0], center[1], center[2], half, t.spacing, ro, rs, 0.0, 0.0) + bytes(88)
    hsize = int.from_bytes(raw[94:96], "little")
    head[hsize + 54:hsize + 54 + 160] = info
    t.center, t.half = center, half
    t.data = bytes(head) + bytes(body) + bytes(evlr)
    return t.data


def model_pages(t):
    """(root page token, pages token) for the driver"""
    def ent(e):
        k, o, s, c = e
        return f"{k[0]}.{k[1]}.{k[2]}.{k[3]}:{o}:{s}:{c}"

    def page(es):
        return ",".join(ent(e) for e in es) or "-"
    root = page(t.entries[0])
    others = [f"{t.page_loc[pid][0]}:{t.page_loc[pid][1]}={page(t.entries[pid])}" for pid in t.entries if pid != 0]
    # the root page can be referenced too (malformed files)
    others.append(f"{t.page_loc[0][0]}:{t.page_loc[0][1]}={page(t.entries[0])}")
    for loc, es in getattr(t, "extra_pages", {}).items():
        others.append(f"{loc[0]}:{loc[1]}={page(es)}")
    return root, ";".join(others) or "-"


def frac(x):
    if x == float("inf") or x == float("-inf"):
        return "inf"
    f = Fraction(x)
    return f"{f.numerator}/{f.denominator}"
