"""point-format equality (what the writers' refusal of foreign records rests on): tokens for the Lean model and a generator of format pairs"""
import numpy as np


def _vals(arr, table):
    """numeric values -> small integers, equal numbers to equal integers (-0.0 == 0.0); NaN is outside the model"""
    if arr is None:
        return "n"
    out = []
    for x in np.asarray(arr, dtype=np.float64).tolist():
        if x != x:
            raise ValueError("NaN")
        out.append(str(table.setdefault(x, len(table))))
    return ",".join(out)


def _ident(s, table):
    return "s%d" % table.setdefault(("str", s), len(table))


def format_token(pf, table):
    dims = []
    for d in pf.extra_dimensions:
        dims.append(":".join([_ident(d.name, table), str(int(d.kind.value)), str(int(d.num_bits)), str(int(d.num_elements)), str(int(bool(d.is_standard))),
                              _ident(d.description, table), _vals(d.offsets, table), _vals(d.scales, table)]))
    return ";".join(dims) if dims else "-"


def eq_line(pa, pb):
    table = {}
    return f"fe eq {pa.id} {pb.id} {format_token(pa, table)} {format_token(pb, table)}"


def build(fmt, params):
    import laspy
    pf = laspy.PointFormat(fmt)
    for p in params:
        pf.add_extra_dimension(p)
    return pf


def pairs(rng, n_random=40):
    """pairs of point formats: identical ones, pairs differing in exactly one respect of one extra dimension (incl. the number of elements at
    equal total width), in the id, in the number of dimensions; random ones"""
    from laspy import ExtraBytesParams as P
    base = [dict(name="height", type="i4", scales=np.array([0.01]), offsets=np.array([100.0]), description="above ground"),
            dict(name="pair", type="2u4", description="two counters"),
            dict(name="q", type="u2", description="")]
    out = []

    def mk(ds):
        return [P(**d) for d in ds]
    out.append(("identical", 3, mk(base), 3, mk(base)))
    out.append(("identical_no_extra", 6, [], 6, []))
    out.append(("other_id", 1, mk(base), 3, mk(base)))
    out.append(("other_id_no_extra", 0, [], 1, []))
    edits = [("other_scale", 0, dict(scales=np.array([0.001]))), ("other_offset", 0, dict(offsets=np.array([0.0]))),
             ("negative_zero_offset", 0, dict(offsets=np.array([100.0]))), ("other_name", 0, dict(name="heigth")),
             ("other_description", 0, dict(description="above sea")), ("same_width_other_kind", 0, dict(type="u4")),
             ("unscaled", 0, dict(scales=None, offsets=None)), ("same_width_other_element_count", 1, dict(type="u8")),
             ("same_width_other_element_count_2", 2, dict(type="2u1")), ("other_width", 2, dict(type="u4")),
             ("float_kind", 1, dict(type="f8"))]
    for label, k, ch in edits:
        ds = [dict(d) for d in base]
        ds[k].update(ch)
        ds[k] = {a: b for a, b in ds[k].items() if b is not None}
        out.append((label, 3, mk(base), 3, mk(ds)))
    out.append(("one_more", 3, mk(base), 3, mk(base + [dict(name="z9", type="u1", description="")])))
    out.append(("one_less", 3, mk(base), 3, mk(base[:2])))
    out.append(("none_vs_some", 3, [], 3, mk(base[:1])))
    out.append(("reordered", 3, mk(base), 3, mk([base[1], base[0], base[2]])))
    types = ["u1", "i1", "u2", "i2", "u4", "i4", "u8", "i8", "f4", "f8", "2u1", "3u1", "2u2", "3i4", "2f4", "2u4", "2u1", "3u2"]
    for _ in range(n_random):
        def rnd():
            ds = []
            names = rng.sample(["a", "b", "c"], 3)
            for i in range(rng.randrange(0, 3)):
                t = rng.choice(types)
                k = int(t[0]) if t[0].isdigit() else 1
                d = dict(name=names[i], type=t, description=rng.choice(["", "d"]))
                if rng.random() < 0.3:
                    d["scales"] = np.array([rng.choice([1.0, 0.5])] * k)
                    d["offsets"] = np.array([rng.choice([0.0, -0.0, 2.0])] * k)
                ds.append(d)
            return ds
        a = rnd()
        b = [dict(d) for d in a] if rng.random() < 0.4 else rnd()
        out.append(("random", rng.choice([0, 6]), mk(a), rng.choice([0, 0, 6]), mk(b)))
    return out
