"""Entry point: ./check Cxx [--tier quick|thorough] [--replay path]"""
import argparse
import importlib
import json
import os
import sys
import traceback

sys.path.insert(0, os.environ.get("VERIF_REPO", "/repo"))
sys.path.insert(0, os.path.dirname(os.path.dirname(os.path.abspath(__file__))))
os.environ.setdefault("LASPY_VERIF", "1")

from harness.core import Check, VERIF  # noqa: E402

# the checks that exercise laspy's compression glue run it on the conforming backend double
# (no real LAZ codec is installed); it must be importable before laspy is imported
if len(sys.argv) > 1 and sys.argv[1].upper() in ("C01", "C03", "C04", "C06", "C08", "C14", "C15", "C16", "C17", "C18"):
    sys.path.insert(0, os.path.join(VERIF, "harness", "stubs"))


def main():
    ap = argparse.ArgumentParser()
    ap.add_argument("prop")
    ap.add_argument("--tier", default=os.environ.get("VERIF_TIER", "quick"))
    ap.add_argument("--replay")
    args = ap.parse_args()
    pid = args.prop.upper()
    try:
        seed = int(os.environ.get("VERIF_SEED", "0"))
    except ValueError:
        seed = 0
    mod = importlib.import_module("harness.props." + pid.lower())
    if args.replay:
        path = args.replay if os.path.isabs(args.replay) else os.path.join(VERIF, args.replay)
        blob = json.load(open(path))
        if blob.get("kind") == "no-failing-input-found":
            print("replay file names broken obligations only:")
            for o in blob["broken_obligations"]:
                print("  ", o["name"], "-", o["detail"][:200])
            return 1
        msg = mod.replay(blob["input"]) if hasattr(mod, "replay") else "RERUN"
        if msg == "RERUN":
            # deterministic re-run of the generating check with the recorded seed/tier,
            # looking for the same failing input
            ck = Check(pid, blob.get("tier", "quick"), blob.get("seed", 0))
            ck.replaying = True
            mod.run(ck)
            hits = [f for f in ck.failures if f["input"] == blob["input"] or f["what"] == blob["what"]]
            msg = hits[0]["what"] if hits else None
        if msg:
            print(f"REPLAY property={pid}: still fails: {msg}")
            return 1
        print(f"REPLAY property={pid}: input no longer fails")
        return 0
    tier = args.tier if args.tier in ("quick", "thorough") else "quick"
    ck = Check(pid, tier, seed)
    try:
        mod.run(ck)
    except (MemoryError, OSError):
        traceback.print_exc()
        print(f"{pid}: infrastructure error", flush=True)
        return 2
    except Exception as e:
        # The harness relies on behaviour of laspy that holds on the pinned tree (shapes, types, which
        # calls raise). If the code under test no longer behaves that way the run cannot be completed
        # and the property is no longer shown to hold: that is a broken correspondence obligation, reported
        # with whatever failing inputs were found before the exception (or no-failing-input-found).
        traceback.print_exc()
        tb = traceback.extract_tb(e.__traceback__)
        where = next((f"{os.path.relpath(fr.filename, VERIF)}:{fr.lineno}" for fr in reversed(tb) if fr.filename.startswith(VERIF)), "?")
        inner = tb[-1]
        ck.oblige("harness run completes against the current tree", "correspondence", False,
                  f"{type(e).__name__}: {str(e)[:300]} (raised at {os.path.basename(inner.filename)}:{inner.lineno}, harness frame {where})")
    return ck.finish()


if __name__ == "__main__":
    sys.exit(main())
