"""A conforming LAZ backend *double* with the API surface of the `lazrs` package that laspy uses.

It is NOT LAZ compression: points are stored chunk by chunk under a reversible byte
transform (so that reading a chunk from a wrong boundary yields garbage), with the real
container structure: 8-byte offset to the chunk table right at offset_to_point_data, the
chunks, then the chunk table (version, number of chunks, (point count, byte size) pairs).
The backend contract laspy relies on is honoured: decompress(compress(points)) == points,
seek/decompress follow the point cursor, the appender resumes after the last point.
"""
import io
import struct

MAGIC = b"STUBLAZ1"
CHUNK_SIZE = 5            # points per chunk (tests set 3..7 so that counts straddle it)
VARIABLE = 0xFFFFFFFF

SELECTIVE_DECOMPRESS_XY_RETURNS_CHANNEL = 0
SELECTIVE_DECOMPRESS_Z = 1
SELECTIVE_DECOMPRESS_CLASSIFICATION = 2
SELECTIVE_DECOMPRESS_FLAGS = 4
SELECTIVE_DECOMPRESS_INTENSITY = 8
SELECTIVE_DECOMPRESS_SCAN_ANGLE = 16
SELECTIVE_DECOMPRESS_USER_DATA = 32
SELECTIVE_DECOMPRESS_POINT_SOURCE_ID = 64
SELECTIVE_DECOMPRESS_GPS_TIME = 128
SELECTIVE_DECOMPRESS_RGB = 256
SELECTIVE_DECOMPRESS_NIR = 512
SELECTIVE_DECOMPRESS_WAVEPACKET = 1024
SELECTIVE_DECOMPRESS_ALL_EXTRA_BYTES = 2048

_SIZES = {0: 20, 1: 28, 2: 26, 3: 34, 4: 57, 5: 63, 6: 30, 7: 36, 8: 38, 9: 59, 10: 67}


class LazrsError(Exception):
    pass


class DecompressionSelection:
    def __init__(self, value):
        self.value = int(value)


def _transform(chunk: bytes) -> bytes:
    """involution keyed by the byte position inside the chunk"""
    return bytes(b ^ ((i * 31 + 7) & 0xFF) for i, b in enumerate(chunk))


# byte ranges of a format 6-10 record that each selective-decompression bit governs (the layered formats; the earlier
# formats have no layers and are always decoded completely, as in laz-rs)
_LAYERS = {
    SELECTIVE_DECOMPRESS_Z: [(8, 12)],
    SELECTIVE_DECOMPRESS_INTENSITY: [(12, 14)],
    SELECTIVE_DECOMPRESS_FLAGS: [(15, 16)],
    SELECTIVE_DECOMPRESS_CLASSIFICATION: [(16, 17)],
    SELECTIVE_DECOMPRESS_USER_DATA: [(17, 18)],
    SELECTIVE_DECOMPRESS_SCAN_ANGLE: [(18, 20)],
    SELECTIVE_DECOMPRESS_POINT_SOURCE_ID: [(20, 22)],
    SELECTIVE_DECOMPRESS_GPS_TIME: [(22, 30)],
}
_ALL_BITS = 4095


def _unselected_ranges(fmt, item, selection):
    """byte ranges of one record that a decompressor with this selection does not decode (they read as zeros)"""
    if fmt < 6:
        return []
    out = []
    for bit, rs in _LAYERS.items():
        if not selection & bit:
            out += rs
    std = _SIZES[fmt]
    pos = 30
    if fmt in (7, 8, 10):
        if not selection & SELECTIVE_DECOMPRESS_RGB:
            out.append((pos, pos + 6))
        pos += 6
    if fmt in (8, 10):
        if not selection & SELECTIVE_DECOMPRESS_NIR:
            out.append((pos, pos + 2))
        pos += 2
    if fmt in (9, 10):
        if not selection & SELECTIVE_DECOMPRESS_WAVEPACKET:
            out.append((pos, pos + 29))
        pos += 29
    if item > std and not selection & SELECTIVE_DECOMPRESS_ALL_EXTRA_BYTES:
        out.append((std, item))
    return out


class LazVlr:
    def __init__(self, record_data):
        data = bytes(record_data)
        if len(data) != 18 or data[:8] != MAGIC:
            raise LazrsError("not a laszip record of this backend")
        self.fmt, self.extra, self.chunk_size, self._item = struct.unpack("<BHIH", data[8:17])
        self._data = data

    @classmethod
    def new_for_compression(cls, point_format_id, num_extra_bytes, chunk_size=None):
        cs = CHUNK_SIZE if chunk_size is None else chunk_size
        item = _SIZES[point_format_id] + num_extra_bytes
        return cls(MAGIC + struct.pack("<BHIH", point_format_id, num_extra_bytes, cs, item) + b"\0")

    def item_size(self):
        return self._item

    def record_data(self):
        return self._data


def _as_vlr(v):
    return v if isinstance(v, LazVlr) else LazVlr(v)


def _write_table(dest, table):
    dest.write(struct.pack("<II", 0, len(table)))
    for cnt, size in table:
        dest.write(struct.pack("<QQ", cnt, size))


def _read_exact(src, n):
    data = src.read(n)
    if data is None or len(data) != n:
        raise LazrsError(f"unexpected end of data (wanted {n} bytes, got {0 if data is None else len(data)})")
    return data


def _read_table(src):
    ver, n = struct.unpack("<II", _read_exact(src, 8))
    if ver != 0:
        raise LazrsError("bad chunk table version")
    return [struct.unpack("<QQ", _read_exact(src, 16)) for _ in range(n)]


class LasZipCompressor:
    def __init__(self, dest, vlr):
        self.dest = dest
        self.vlr = _as_vlr(vlr)
        self.start = dest.tell()
        dest.write(struct.pack("<q", -1))
        self.pending = bytearray()
        self.table = []
        self.finished = False

    def _flush_full(self):
        cs, item = self.vlr.chunk_size, self.vlr.item_size()
        if cs == VARIABLE:
            return
        while len(self.pending) >= cs * item:
            chunk = bytes(self.pending[: cs * item])
            del self.pending[: cs * item]
            self.dest.write(_transform(chunk))
            self.table.append((cs, len(chunk)))

    def compress_many(self, points):
        data = bytes(points)
        if len(data) % self.vlr.item_size():
            raise LazrsError("buffer is not a whole number of points")
        self.pending += data
        self._flush_full()

    def compress_chunks(self, chunks):
        """variable-size chunks (COPC): one chunk per element"""
        for c in chunks:
            c = bytes(c)
            self.dest.write(_transform(c))
            self.table.append((len(c) // self.vlr.item_size(), len(c)))

    def done(self):
        if self.finished:
            return
        self.finished = True
        if self.pending:
            chunk = bytes(self.pending)
            self.dest.write(_transform(chunk))
            self.table.append((len(chunk) // self.vlr.item_size(), len(chunk)))
            self.pending = bytearray()
        pos = self.dest.tell()
        _write_table(self.dest, self.table)
        end = self.dest.tell()
        self.dest.seek(self.start)
        self.dest.write(struct.pack("<q", pos))
        self.dest.seek(end)


class ParLasZipCompressor(LasZipCompressor):
    pass


class _ReadAhead:
    """what a buffered reader around a source that cannot seek does (the real backend wraps the Python object in one): it asks the source for
    blocks and serves the decompressor's reads from them, so the source's own position runs ahead of the logical one"""
    BLOCK = 8192

    def __init__(self, src):
        self.src = src
        self.buf = b""

    def read(self, n):
        while len(self.buf) < n:
            got = self.src.read(max(self.BLOCK, n - len(self.buf)))
            if not got:
                break
            self.buf += got
        out, self.buf = self.buf[:n], self.buf[n:]
        return out

    def seekable(self):
        return False


def _cannot_seek(source):
    try:
        return not source.seekable()
    except AttributeError:
        return True


class LasZipDecompressor:
    """sequential decompressor; uses the chunk table only for seek()"""

    def __init__(self, source, record_data, selection=None):
        self.source = _ReadAhead(source) if _cannot_seek(source) else source
        self.vlr = _as_vlr(record_data)
        self.selection = _ALL_BITS if selection is None else int(getattr(selection, "value", selection))
        self._skip = _unselected_ranges(self.vlr.fmt, self.vlr.item_size(), self.selection)
        self.table_offset = struct.unpack("<q", _read_exact(self.source, 8))[0]
        self.first_chunk = None
        try:
            self.first_chunk = source.tell() if not _cannot_seek(source) else None
        except (AttributeError, io.UnsupportedOperation):
            self.first_chunk = None
        self.chunk_index = 0
        self.in_chunk = 0        # points already taken from the current chunk
        self.table = None
        self.cur = None          # decoded bytes of the current chunk (when loaded through the table)

    def _load_table(self):
        if self.table is None:
            pos = self.source.tell()
            self.source.seek(self.table_offset)
            self.table = _read_table(self.source)
            self.source.seek(pos)
        return self.table

    def decompress_many(self, out):
        item = self.vlr.item_size()
        n = len(out) // item
        done = 0
        cs = self.vlr.chunk_size
        while done < n:
            if cs == VARIABLE:
                raise LazrsError("sequential reading of variable-size chunks is not supported")
            take = min(cs - self.in_chunk, n - done)
            raw = _read_exact(self.source, take * item)
            base = self.in_chunk * item
            out[done * item:(done + take) * item] = bytes(b ^ (((base + i) * 31 + 7) & 0xFF) for i, b in enumerate(raw))
            for k in range(done, done + take):
                for a, b_ in self._skip:
                    out[k * item + a:k * item + b_] = bytes(b_ - a)
            done += take
            self.in_chunk += take
            if self.in_chunk == cs:
                self.in_chunk = 0
                self.chunk_index += 1

    def seek(self, point_index):
        table = self._load_table()
        item = self.vlr.item_size()
        pos, first = self.first_chunk, 0
        for ci, (cnt, size) in enumerate(table):
            if point_index < first + cnt:
                self.source.seek(pos + (point_index - first) * item)
                self.chunk_index, self.in_chunk = ci, point_index - first
                return
            first += cnt
            pos += size
        self.source.seek(pos)
        self.chunk_index, self.in_chunk = len(table), 0

    def read_chunk_table_only(self):
        return _read_table(self.source)

    def read_raw_bytes_into(self, b):
        data = self.source.read(len(b))
        b[: len(data)] = data


class ParLasZipDecompressor(LasZipDecompressor):
    def __init__(self, source, record_data, selection=None):
        if _cannot_seek(source):
            raise LazrsError("the parallel decompressor needs a seekable source")
        super().__init__(source, record_data, selection)
        self._load_table()


class LasZipAppender:
    """resumes after the last point: re-opens the last (possibly partial) chunk"""

    def __init__(self, dest, record_data):
        self.dest = dest
        self.vlr = _as_vlr(record_data)
        self.start = dest.tell()
        table_offset = struct.unpack("<q", _read_exact(dest, 8))[0]
        dest.seek(table_offset)
        self.table = _read_table(dest)
        pos = self.start + 8 + sum(size for _, size in self.table)
        self.pending = bytearray()
        cs = self.vlr.chunk_size
        if self.table and self.table[-1][0] < cs:
            cnt, size = self.table.pop()
            pos -= size
            dest.seek(pos)
            self.pending = bytearray(_transform(_read_exact(dest, size)))
        dest.seek(pos)
        self.finished = False

    def compress_many(self, points):
        data = bytes(points)
        item, cs = self.vlr.item_size(), self.vlr.chunk_size
        if len(data) % item:
            raise LazrsError("buffer is not a whole number of points")
        self.pending += data
        while len(self.pending) >= cs * item:
            chunk = bytes(self.pending[: cs * item])
            del self.pending[: cs * item]
            self.dest.write(_transform(chunk))
            self.table.append((cs, len(chunk)))

    def done(self):
        if self.finished:
            return
        self.finished = True
        if self.pending:
            chunk = bytes(self.pending)
            self.dest.write(_transform(chunk))
            self.table.append((len(chunk) // self.vlr.item_size(), len(chunk)))
        pos = self.dest.tell()
        _write_table(self.dest, self.table)
        end = self.dest.tell()
        self.dest.seek(self.start)
        self.dest.write(struct.pack("<q", pos))
        self.dest.seek(end)


class ParLasZipAppender(LasZipAppender):
    pass


def decompress_points_with_chunk_table(compressed, record_data, out, chunk_table, selection=None):
    """COPC: `compressed` holds the listed chunks back to back"""
    vlr = _as_vlr(record_data)
    data = bytes(compressed)
    item = vlr.item_size()
    pos = opos = 0
    out_mv = memoryview(out).cast("B")
    for cnt, size in chunk_table:
        if size != cnt * item:
            raise LazrsError("chunk table entry does not match the chunk")
        chunk = data[pos:pos + size]
        if len(chunk) != size:
            raise LazrsError("compressed data shorter than the chunk table says")
        out_mv[opos:opos + size] = _transform(chunk)
        sel = _ALL_BITS if selection is None else int(getattr(selection, "value", selection))
        for k in range(cnt):
            for a, b_ in _unselected_ranges(vlr.fmt, item, sel):
                out_mv[opos + k * item + a:opos + k * item + b_] = bytes(b_ - a)
        pos += size
        opos += size
