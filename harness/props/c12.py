"""C12 — point-format conversion preserves shared dimensions or fails loudly."""
import io
import logging
import warnings

import numpy as np

from .. import fileio as fio
from . import c02, c07, c08

THEOREMS = ["C12_names_nodup", "C12_coords_common", "C12_common", "C12_loud", "C12_count", "C12_extra", "C12_lost", "C12_version"]
hx = c08.hx


def dim_names(fmt):
    import laspy
    return list(laspy.PointFormat(fmt).dimension_names)


def gen_extra(rng, src=None, tgt=None):
    """extra dimensions incl. scaled 64-bit and multi-element scaled ones; some named like a standard dimension of other
    point formats (one that neither the source nor the target format has, so it stays an extra dimension)"""
    import laspy
    from laspy import ExtraBytesParams
    from laspy.point import dims as _dims
    out = []
    foreign = []
    if src is not None:
        have = set()
        for f_ in (src, tgt):
            have |= set(laspy.PointFormat(f_).dimension_names) | set(laspy.PointFormat(f_).dtype().names)
        foreign = sorted(nm for nm in _dims.DIMENSIONS_TO_TYPE if nm not in have)
    for i in range(rng.choice([0, 0, 1, 2])):
        base = rng.choice(["u1", "i2", "u4", "i8", "u8", "f4", "f8"])
        k = rng.choice([1, 1, 2, 3])
        t = base if k == 1 else f"{k}{base}"
        kw = {}
        if rng.random() < 0.5:
            kw["scales"] = np.array([rng.choice([0.5, 0.01, 2.0, 1.0]) for _ in range(k)])
            kw["offsets"] = np.array([rng.choice([0.0, 10.0, -3.5, 100.0]) for _ in range(k)])
        name = f"e{i}"
        if foreign and rng.random() < 0.3:
            name = foreign.pop(rng.randrange(len(foreign)))
        out.append(ExtraBytesParams(name=name, type=t, **kw))
    return out


def run(ck):
    logging.getLogger("laspy").setLevel(logging.CRITICAL)
    warnings.simplefilter("ignore")
    import laspy
    ck.rule = ("all 11 x 11 (source, target) point-format pairs (each at least once, then seeded) x explicit / implicit target "
               "versions x records of random bytes (so classification > 31, return numbers > 7, every flag combination occur) "
               "and records forced in range x extra dimensions (typed, scaled incl. 64-bit and multi-element with different "
               "per-element offsets) x VLRs/EVLRs. Real laspy.convert compared with the model (converted record bytes / "
               "Overflow verdict, lost dimensions, version decision) and with the direct oracle per common dimension. "
               "non-trivial = at least one point; distinct by (pair, version request, bytes, extras)")
    ck.regen()
    ck.lean_props("C12", THEOREMS)
    q = ck.tier == "quick"
    lines, meta = [], []
    pairs = [(a, b) for a in range(11) for b in range(11)]
    jobs = pairs + [ck.rng.choice(pairs) for _ in range(60 if q else 3000)]
    JOB = [0]
    for (src, tgt) in jobs:
        smin = min(m for m in (1, 2, 3, 4) if src in c07.SPEC_COMPAT[m])
        cur = ck.rng.choice([m for m in (1, 2, 3, 4) if src in c07.SPEC_COMPAT[m]])
        req = ck.rng.choice([None, None, 1, 2, 3, 4])
        n = ck.rng.choice([0, 1, 3, 6])
        params = gen_extra(ck.rng, src, tgt)
        ck.count("extra_named_like_foreign_standard_dim", sum(1 for p in params if not p.name.startswith("e") or len(p.name) > 2))
        evlrs = fio.rand_vlrs(ck.rng, True, 1) if cur >= 4 else None
        in_range = ck.rng.random() < 0.55
        src_vlrs = fio.rand_vlrs(ck.rng, False, 1)
        if ck.rng.random() < 0.5:
            # records that share the extra-bytes record's user id (LASF_Spec) but are something else
            spec = [("LASF_Spec", 0, "classes", bytes([2]) + b"ground".ljust(15, b"\0") + bytes([5]) + b"high_vegetation".ljust(15, b"\0")),
                    ("LASF_Spec", 3, "text area", b"converted by verif"),
                    ("LASF_Spec", 100 + ck.rng.randrange(0, 255), "wave", bytes(ck.rng.getrandbits(8) for _ in range(26)))]
            src_vlrs = src_vlrs + ck.rng.sample(spec, ck.rng.randrange(1, 4))
            ck.count("source_has_other_LASF_Spec_vlrs")
        las = fio.make_las(ck.rng, cur, src, n, params, vlrs=src_vlrs, evlrs=evlrs)
        if JOB[0] < len(pairs) and src >= 6 and tgt <= 5:
            # first pass over all pairs: each narrower-in-the-target field in turn is the only one that does not fit (whatever the seed)
            n = max(n, 3)
            las = fio.make_las(ck.rng, cur, src, n, params, vlrs=src_vlrs, evlrs=evlrs)
            only = ["none", "return_number", "number_of_returns", "classification"][(src + tgt) % 4]
            in_range = only == "none"
            a_ = las.points.array
            a_["classification"] &= 31
            a_["bit_fields"] &= 0x77
            a_["classification_flags"] &= 0xC7
            if only == "return_number":
                a_["bit_fields"] = (a_["bit_fields"] & 0xF0) | 9
            elif only == "number_of_returns":
                a_["bit_fields"] = (a_["bit_fields"] & 0x0F) | (12 << 4)
            elif only == "classification":
                a_["classification"] = 40
            ck.count("only_field_out_of_range:" + only)
            las.update_header()
        elif n and src >= 6 and (in_range or ck.rng.random() < 0.5):
            # each narrower-in-the-target field is brought into range independently, so that every single field gets to
            # be the only one that does not fit
            keep = ("all",) if in_range else tuple(f for f in ("classification", "return_number", "number_of_returns") if ck.rng.random() < 0.6)
            if "all" in keep or "classification" in keep:
                las.points.array["classification"] &= 31
            if "all" in keep or "return_number" in keep:
                las.points.array["bit_fields"] &= 0xF7
            if "all" in keep or "number_of_returns" in keep:
                las.points.array["bit_fields"] &= 0x7F
            if "all" in keep:
                las.points.array["classification_flags"] &= 0xC7  # no overlap bit, scanner channel 0
            ck.count("fits:" + ",".join(keep))
            las.update_header()
        wrapped = False
        if n >= 3 and JOB[0] % 3 == 1:
            # the source is a chunk of a larger cloud wrapped with the whole cloud's header (LasData(header, points[a:b])): the header
            # counts more points than the object holds
            lo = ck.rng.choice([0, 1])
            las = laspy.LasData(las.header, las.points[lo:lo + 2].copy())
            n, wrapped = 2, True
            ck.count("source_is_a_chunk_under_the_whole_header")
        JOB[0] += 1
        size_std = laspy.PointFormat(src).size
        raw = las.points.array.tobytes()
        inp = {"kind": "convert", "src": src, "tgt": tgt, "cur_version": cur, "request": req, "n": n, "in_range": in_range, "chunk_under_whole_header": wrapped,
               "extra": [(p.name, str(p.type), None if p.scales is None else p.scales.tolist(), None if p.offsets is None else p.offsets.tolist()) for p in params],
               "raw": raw.hex()[:600]}
        ck.case(("c12", src, tgt, cur, req, raw, str(inp["extra"])), nontrivial=n > 0)
        ck.count("version_request:" + str(req))
        snap = fio.snapshot(las)
        try:
            out = laspy.convert(las, point_format_id=tgt, file_version=None if req is None else f"1.{req}")
            verdict = "ok"
        except OverflowError:
            out, verdict = None, "Overflow"
        except laspy.errors.LaspyException as e:
            out, verdict = None, "Incompatible" if "not compatible" in str(e) else "Laspy"
        except Exception as e:
            out, verdict = None, "exc:" + type(e).__name__
        ck.count("verdict:" + verdict)
        if fio.snapshot(las) != snap:
            ck.fail("convert modified the source object", dict(inp, finding_key="C12:pure"))
        # version decision (model)
        lines.append(f"hdr conv {cur} {tgt} {'-' if req is None else req}")
        meta.append(("version", inp, f"ok {out.header.version.minor} {out.header.point_format.id}" if out is not None else
                     ("err Incompatible" if verdict == "Incompatible" else None)))
        # record conversion (model), unless the version decision already failed
        reclen = las.header.point_format.size
        if verdict in ("ok", "Overflow"):
            lines.append(f"cv recs {src} {tgt} {reclen} {hx(raw)}")
            meta.append(("records", inp, "ok " + hx(out.points.array.tobytes()) if out is not None else "err Overflow"))
        if verdict.startswith("exc"):
            ck.fail(f"convert raised {verdict}", inp)
            continue
        # ---- direct oracle
        common = [d for d in dim_names(src) if d in dim_names(tgt)]
        maxs = {}
        for d in common:
            di = laspy.PointFormat(tgt).dimension_by_name(d)
            maxs[d] = di.max if di.kind.name == "BitField" else None
        overflow_expected = n > 0 and any(maxs[d] is not None and int(np.max(np.array(las[d]))) > maxs[d] for d in common)
        compat_ok = True
        if req is not None and tgt not in c07.SPEC_COMPAT[req]:
            compat_ok = False
        if not compat_ok:
            if verdict != "Incompatible":
                ck.fail(f"convert to format {tgt} with explicit version 1.{req} did not raise (got {verdict})", inp)
            continue
        if overflow_expected:
            if verdict != "Overflow":
                ck.fail(f"a value exceeds a narrower target field but convert returned {verdict} instead of raising OverflowError", dict(inp, finding_key="C12:loud"))
            continue
        if verdict != "ok":
            ck.fail(f"convert raised {verdict} although every common dimension fits the target", dict(inp, finding_key="C12:spurious:" + verdict + (":scaled_extra" if any(p.scales is not None for p in params) else "")))
            continue
        if len(out.points) != n:
            ck.fail("point count changed", inp)
        for d in common:
            a, b = np.ascontiguousarray(np.array(las[d])), np.ascontiguousarray(np.array(out[d]))
            if a.tobytes() != b.tobytes() and not (a.dtype != b.dtype and np.array_equal(a, b)):
                ck.fail(f"common dimension {d} changed: {a.tolist()[:4]} -> {b.tolist()[:4]}", dict(inp, dim=d))
        for p in params:
            if p.name not in (out.points.array.dtype.names or ()):
                ck.fail(f"extra dimension {p.name} ({p.type}) is missing from the converted records", dict(inp, dim=p.name, finding_key="C12:extra:missing"))
                continue
            a, b = las.points.array[p.name], out.points.array[p.name]
            if a.tobytes() != b.tobytes():
                ck.fail(f"extra dimension {p.name} ({p.type}, scaled={p.scales is not None}) changed: stored {a.tolist()[:3]} -> {b.tolist()[:3]}",
                        dict(inp, finding_key="C12:extra:" + ("scaled" if p.scales is not None else "plain")))
        if list(out.point_format.extra_dimension_names) != [p.name for p in params]:
            ck.fail("extra dimensions not carried", inp)
        else:
            def desc(d):
                return (d.name, str(d.dtype), d.num_elements, d.description,
                        None if d.scales is None else np.asarray(d.scales, dtype="f8").tobytes(),
                        None if d.offsets is None else np.asarray(d.offsets, dtype="f8").tobytes())
            for da, db in zip(las.point_format.extra_dimensions, out.point_format.extra_dimensions):
                if desc(da) != desc(db):
                    ck.fail(f"extra dimension {da.name}: description changed by conversion (type/scales/offsets/text): "
                            f"scales {da.scales} -> {db.scales}, offsets {da.offsets} -> {db.offsets}", dict(inp, dim=da.name))
                    break
                va, vb = np.ascontiguousarray(np.array(las[da.name])), np.ascontiguousarray(np.array(out[da.name]))
                if va.tobytes() != vb.tobytes():
                    ck.fail(f"extra dimension {da.name}: presented values changed by conversion: {va.ravel()[:3].tolist()} -> {vb.ravel()[:3].tolist()}", dict(inp, dim=da.name))
                    break
        if [c08.canon(v) for v in out.vlrs if type(v).__name__ != "ExtraBytesVlr"] != [c08.canon(v) for v in las.vlrs if type(v).__name__ != "ExtraBytesVlr"]:
            ck.fail("VLRs changed by conversion", inp)
        vmin = out.header.version.minor
        if req is None and vmin < cur:
            ck.fail(f"file version lowered from 1.{cur} to 1.{vmin} without being requested", inp)
        if tgt not in c07.SPEC_COMPAT[vmin]:
            ck.fail(f"conversion produced the incompatible pair 1.{vmin}/{tgt}", inp)
        if vmin >= 4 and las.evlrs is not None and [c08.canon(v) for v in (out.evlrs or [])] != [c08.canon(v) for v in las.evlrs]:
            ck.fail("EVLRs not kept although the target version supports them", inp)
        # written file of the converted object reads back
        try:
            buf = io.BytesIO()
            out.write(buf)
            back = laspy.read(io.BytesIO(buf.getvalue()))
            if back.points.array.tobytes() != out.points.array.tobytes():
                ck.fail("converted object does not survive a write/read", inp)
        except Exception as e:
            ck.fail(f"writing the converted object raised {type(e).__name__}: {e}", inp)
        if len(ck.samples) < 3:
            ck.sample({k: v for k, v in inp.items() if k != "raw"})
    # lost dimensions, all pairs
    from laspy.point.format import lost_dimensions
    for a in range(11):
        for b in range(11):
            lines.append(f"cv lost {a} {b}")
            got = lost_dimensions(a, b)
            want = [d for d in dim_names(a) if d not in dim_names(b)]
            if sorted(got) != sorted(want):
                ck.fail(f"lost_dimensions({a},{b}) = {sorted(got)} but the dimensions absent from the target are {sorted(want)}", {"kind": "lost", "a": a, "b": b})
            meta.append(("lost", {"a": a, "b": b}, "SET:" + " ".join(sorted(got))))
    out_lines = ck.driver(lines)
    bad = None
    if out_lines is None or len(out_lines) != len(lines):
        bad = "driver did not run"
    else:
        for (what, inp, exp), o in zip(meta, out_lines):
            if exp is None:
                continue
            if exp.startswith("SET:"):
                o = "SET:" + " ".join(sorted(o.split()))
            if o != exp and bad is None:
                k = next((i for i in range(min(len(o), len(exp))) if o[i] != exp[i]), min(len(o), len(exp)))
                bad = f"{what} {({k_: v for k_, v in inp.items() if k_ != 'raw'})}: at char {k}: model ...{o[max(0,k-24):k+24]} impl ...{exp[max(0,k-24):k+24]}"
    ck.oblige("correspondence lasdata/convert: model convertRecs / lostDimensions / version decision == laspy.convert", "correspondence", bad is None, bad or "")
    ck.failures.sort(key=lambda f: (f["input"].get("n", 0), len(str(f["input"]))))
    if ck.tier == "thorough":
        ck.leanchecker(["LasModel.Props.C12"])
