"""C14 — compression is transparent for any conforming LAZ backend (exercised on the backend double)."""
import io
import logging
import os
import shutil
import tempfile

import numpy as np

from .. import fileio as fio
from . import c01, c04, c05, c06, c08

THEOREMS = ["C14_decision_open", "C14_decision_write", "C14_bit", "C14_one_vlr", "C14_hidden", "C14_no_dup",
            "C14_user_vlrs", "C14_transparent", "stub_codecLaws", "sessionC_form", "C14_file_roundtrip", "C14_file_transparent", "stub_appendLaws", "readFileC_form",
            "C14_append_roundtrip",
            "sel_flags", "sel_all_base", "sel_skip_decompress", "sel_lazrs_map", "sel_laszip_map", "toBackend_lazrs", "toBackend_laszip",
            "selection_faithful", "C14_selection_lazrs", "C14_selection_laszip", "stub_disjoint", "laszip_disjoint", "stub_values", "stub_all"]

# the constants of laszip_api.h (no laszip module can be installed here; `to_laszip` only needs these names)
LASZIP_CONSTANTS = {"DECOMPRESS_SELECTIVE_CHANNEL_RETURNS_XY": 0, "DECOMPRESS_SELECTIVE_Z": 1, "DECOMPRESS_SELECTIVE_CLASSIFICATION": 2,
                    "DECOMPRESS_SELECTIVE_FLAGS": 4, "DECOMPRESS_SELECTIVE_INTENSITY": 8, "DECOMPRESS_SELECTIVE_SCAN_ANGLE": 16,
                    "DECOMPRESS_SELECTIVE_USER_DATA": 32, "DECOMPRESS_SELECTIVE_POINT_SOURCE": 64, "DECOMPRESS_SELECTIVE_GPS_TIME": 128,
                    "DECOMPRESS_SELECTIVE_RGB": 256, "DECOMPRESS_SELECTIVE_NIR": 512, "DECOMPRESS_SELECTIVE_WAVEPACKET": 1024,
                    "DECOMPRESS_SELECTIVE_EXTRA_BYTES": 0xFFFF0000}


def selection_layer(ck):
    """every value of the 13-bit selection: what `to_lazrs` / `to_laszip` hand the backend == the model's translation; the
    per-flag helper methods, `all()` and `base()` == the generated tables"""
    import sys
    import types
    from laspy import DecompressionSelection as DS
    lines, exp = [], []

    def live(fn):
        try:
            r = fn()
            return str(int(getattr(r, "value", r)))
        except KeyError:
            return "KeyError"
        except Exception as e:
            return f"{type(e).__name__}"

    fake = types.ModuleType("laszip")
    for k, v in LASZIP_CONSTANTS.items():
        setattr(fake, k, v)
    had = sys.modules.get("laszip")
    sys.modules["laszip"] = fake
    try:
        members = list(DS)
        for k in range(1 << len(members)):
            sel = DS(k)
            lines.append(f"sel lazrs {k}")
            exp.append(live(sel.to_lazrs))
            lines.append(f"sel laszip {k}")
            exp.append(live(sel.to_laszip))
            ck.evaluations += 2
        ck.case(("selection", "all values"))
        lines.append("sel tables")
        skip = [int(getattr(DS.all(), "skip_" + m.name.lower())()) for m in members]
        dec = [int(getattr(DS.base(), "decompress_" + m.name.lower())()) for m in members]
        exp.append(f"all={int(DS.all())} base={int(DS.base())} skip={skip} dec={dec}")
        # the helper methods on arbitrary selections (the tables above pin them on all() / base() only)
        for _ in range(300):
            k = ck.rng.randrange(1 << len(members))
            m = ck.rng.choice(members)
            a = int(getattr(DS(k), "skip_" + m.name.lower())())
            b = int(getattr(DS(k), "decompress_" + m.name.lower())())
            c = bool(getattr(DS(k), "is_set_" + m.name.lower())())
            ck.evaluations += 1
            if a != (k & ~int(m)) or b != (k | int(m)) or c != bool(k & int(m)):
                ck.fail(f"DecompressionSelection({k}): skip/decompress/is_set of {m.name} give {a}, {b}, {c}; "
                        f"expected {k & ~int(m)}, {k | int(m)}, {bool(k & int(m))}", {"kind": "selection_methods", "sel": k, "flag": m.name})
    finally:
        if had is None:
            sys.modules.pop("laszip", None)
        else:
            sys.modules["laszip"] = had
    out = ck.driver(lines)
    bad = None
    if out is None or len(out) != len(lines):
        bad = "driver did not run"
    else:
        for ln, o, e in zip(lines, out, exp):
            if o != e:
                bad = f"{ln}: model {o}, laspy {e}"
                parts = ln.split()
                if len(parts) == 3:
                    ck.fail(f"DecompressionSelection({parts[2]}).to_{parts[1]}() hands the backend {e}; every selected field's constant "
                            f"(and only those, plus the always-on one) gives {o}", {"kind": "selection", "backend": parts[1], "sel": int(parts[2])})
                else:
                    ck.fail(f"selection tables: laspy {e}, model {o}", {"kind": "selection_tables"})
                break
    ck.oblige("correspondence selection: to_lazrs / to_laszip on all 8192 selections and the helper-method tables == model", "correspondence", bad is None, bad or "")



def laszip_count_in_file(data):
    """number of ('laszip encoded', 22204) records among the file's VLRs, from the bytes"""
    hsize = int.from_bytes(data[94:96], "little")
    n = int.from_bytes(data[100:104], "little")
    pos, cnt = hsize, 0
    for _ in range(n):
        uid = data[pos + 2:pos + 18].split(b"\0")[0]
        rid = int.from_bytes(data[pos + 18:pos + 20], "little")
        ln = int.from_bytes(data[pos + 20:pos + 22], "little")
        if uid == b"laszip encoded" and rid == 22204:
            cnt += 1
        pos += 54 + ln
    return cnt


def laszip_first(data):
    """the same file with the LasZip record moved to the front of the VLR block (the layout other writers produce);
    sizes and offsets are unchanged"""
    hsize = int.from_bytes(data[94:96], "little")
    n = int.from_bytes(data[100:104], "little")
    pos, recs = hsize, []
    for _ in range(n):
        ln = int.from_bytes(data[pos + 20:pos + 22], "little")
        recs.append(data[pos:pos + 54 + ln])
        pos += 54 + ln
    lz = [r for r in recs if r[2:18].split(b"\0")[0] == b"laszip encoded"]
    rest = [r for r in recs if r[2:18].split(b"\0")[0] != b"laszip encoded"]
    if len(lz) != 1 or not rest:
        return None
    return data[:hsize] + b"".join(lz + rest) + data[pos:]


def canon_no_layout(las):
    """what must be equal between the compressed and the uncompressed reading: records, statistics, VLRs, EVLRs"""
    s = c01.canon_read(las)
    parts = s.split(" ")
    # blank: point format byte (compressed bit), offset-independent fields stay; evlr start (position differs)
    parts[10] = str(int(parts[10]) & 0x3F)
    parts[16] = "EVLRSTART"
    return " ".join(parts)


def extra_dims_history_layer(ck, n_cases):
    """objects whose extra dimensions were added and removed - with the object described in between (repr of the header, of the point format, the
    record length asked for) - written compressed and uncompressed: the two files must read alike"""
    import laspy
    from laspy import ExtraBytesParams, LazBackend
    for ci in range(n_cases):
        minor, fmt = fio.PAIRS[(5 * ci + 2) % len(fio.PAIRS)]
        n = [3, 7, 12][ci % 3]
        las = fio.make_las(ck.rng, minor, fmt, n)
        names = ["ea", "eb", "ec"]
        las.add_extra_dims([ExtraBytesParams(name=nm, type=t) for nm, t in zip(names, ck.rng.sample(["u1", "i2", "u4", "f8", "3u2", "i8"], 3))])
        for nm in names:
            las[nm] = np.arange(n * int(np.prod(las[nm].shape[1:]) or 1)).reshape(las[nm].shape).astype(las[nm].dtype)
        looks = ["repr_header", "str_format", "num_extra_bytes", "size", "none"][ci % 5]
        def look():
            if looks == "repr_header":
                return repr(las.header)
            if looks == "str_format":
                return str(las.point_format), repr(las.point_format)
            if looks == "num_extra_bytes":
                return las.point_format.num_extra_bytes, las.header.point_format.num_extra_bytes
            if looks == "size":
                return las.point_format.size, las.point_format.num_standard_bytes
        look()
        removed = ck.rng.sample(names, ck.rng.choice([1, 2]))
        las.remove_extra_dims(removed)
        look()
        if ci % 2:
            las.add_extra_dim(ExtraBytesParams(name="late", type="u2"))
            look()
        inp = {"kind": "extra_dims_history", "minor": minor, "fmt": fmt, "n": n, "looked_at": looks, "removed": removed, "added_late": bool(ci % 2)}
        ck.case(("extra_dims_history", minor, fmt, n, looks, tuple(removed), ci % 2), nontrivial=True)
        ck.count("extra_dims_history:" + looks)
        try:
            comp, plain = io.BytesIO(), io.BytesIO()
            las.write(plain)
            las.write(comp, do_compress=True, laz_backend=LazBackend.Lazrs)
            a = laspy.read(io.BytesIO(comp.getvalue()), laz_backend=LazBackend.Lazrs)
            b = laspy.read(io.BytesIO(plain.getvalue()))
        except Exception as e:
            ck.fail(f"after removing {removed} (having looked at {looks}): compressed / uncompressed write + read raised {type(e).__name__}: {e}", inp)
            continue
        if canon_no_layout(a) != canon_no_layout(b):
            x, y = canon_no_layout(a), canon_no_layout(b)
            k0 = next((i for i in range(min(len(x), len(y))) if x[i] != y[i]), -1)
            ck.fail(f"after removing {removed} (having looked at {looks}): reading the compressed file differs from reading the uncompressed one at char {k0}", inp)
        if b.points.array.tobytes() != las.points.array.tobytes():
            ck.fail(f"after removing {removed}: the uncompressed file does not hold the object's records", inp)


def run(ck):
    logging.getLogger("laspy").setLevel(logging.CRITICAL)
    import laspy
    import lazrs
    from laspy import LazBackend
    ck.rule = ("laspy's real compression glue (lazrsbackend, LasWriter, LasReader, LasAppender, open_las, LasData.write) on a "
               "conforming backend double (chunked container with offset to chunk table, per-chunk transform, chunk table, "
               "seek, appender; chunk size 3..7 so point counts straddle it; serial and parallel class names). Decision "
               "matrix: {open, LasData.write} x {path with .las/.laz/.LAZ/.Laz/.txt, stream} x do_compress {None, True, False} "
               "x backend {none, one, list}. Transparency: the cases of C01/C03-C06 written compressed and uncompressed and "
               "read back (whole, chunked, seek-and-read histories, append sessions, non-seekable source with EVLRs); records, "
               "statistics, VLRs, EVLRs must be equal; LasZip record counted in the file bytes and in las.vlrs; rewrite does "
               "not duplicate it. Whole compressed sessions (one-shot and chunked) are also produced by the Lean model sessionC with the backend double written out (stubCodec) and compared byte for byte with the file laspy wrote; the read-back image is compared with readFileC. distinct by case")
    ck.regen()
    ck.lean_props("C14", THEOREMS)
    q = ck.tier == "quick"
    lines, meta = [], []
    tmpdir = tempfile.mkdtemp(prefix="verif_c14_")
    try:
        # ------------------------------------------------------------------ decision matrix
        las0 = fio.make_las(ck.rng, 2, 3, 4)
        backends = {"none": None, "one": LazBackend.Lazrs, "list": [LazBackend.LazrsParallel, LazBackend.Lazrs]}
        for api in ("open", "write"):
            for dest in (".las", ".laz", ".LAZ", ".Laz", ".txt", "stream"):
                for dc in (None, True, False):
                    for bname, bk in backends.items():
                        inp = {"kind": "decision", "api": api, "dest": dest, "do_compress": dc, "backend": bname}
                        ck.case(("decision", api, dest, dc, bname), nontrivial=True)
                        target = io.BytesIO() if dest == "stream" else os.path.join(tmpdir, "out" + dest)
                        try:
                            # an option the caller does not give is LEFT OUT of the call (the defaults in the signatures are part of the rule)
                            kw = {}
                            if dc is not None:
                                kw["do_compress"] = dc
                            if bk is not None:
                                kw["laz_backend"] = bk
                            if api == "open":
                                with laspy.open(target, mode="w", header=las0.header, closefd=(dest != "stream"), **kw) as w:
                                    w.write_points(las0.points)
                            else:
                                las0.write(target, **kw)
                            data = target.getvalue() if dest == "stream" else open(target, "rb").read()
                            got = "1" if data[104] & 0x80 else "0"
                        except Exception as e:
                            got = "exc:" + type(e).__name__
                        dctok = "-" if dc is None else str(int(dc))
                        lines.append(f"cz {api} {dest} {dctok} {int(bk is not None)}")
                        meta.append((inp, got))
                        # documented rule, stated directly
                        if api == "write" and dest != "stream":
                            want = dest.lower() == ".laz"
                        elif dc is not None:
                            want = dc
                        elif dest != "stream":
                            want = dest.lower() == ".laz"
                        else:
                            want = bk is not None
                        if got != str(int(want)):
                            ck.fail(f"{api}({dest}, do_compress={dc}, backend={bname}): compressed={got}, the documented rule says {int(want)}", inp)
        for f in range(11):
            lines.append(f"cz bit {f}")
            from laspy._compression import format as cf
            c = cf.uncompressed_id_to_compressed(f)
            meta.append(({"kind": "bit", "fmt": f}, f"{c} {int(cf.is_point_format_compressed(c))} {cf.compressed_id_to_uncompressed(c)} {int(cf.is_point_format_compressed(f))}"))
        # ------------------------------------------------------------------ transparency
        for ci in range(40 if q else 900):
            lazrs.CHUNK_SIZE = ck.rng.choice([3, 4, 5, 7])
            minor, fmt = fio.PAIRS[ci % len(fio.PAIRS)]
            n = ck.rng.choice([0, 1, 2, lazrs.CHUNK_SIZE - 1, lazrs.CHUNK_SIZE, lazrs.CHUNK_SIZE + 1, 2 * lazrs.CHUNK_SIZE, 17])
            params = fio.rand_extra_params(ck.rng, 2) if ck.rng.random() < 0.3 else []
            evlrs = fio.rand_vlrs(ck.rng, True) if (minor >= 4 and ck.rng.random() < 0.6) else None
            if ci == 0:
                # fixed first case (the listed open finding is probed on every run): 1.4, no points, one EVLR
                minor, fmt, n, evlrs = 4, 6, 0, [("verif", 7, "d", b"payload")]
            las = fio.make_las(ck.rng, minor, fmt, n, params, vlrs=fio.rand_vlrs(ck.rng, False, 1), evlrs=evlrs)
            bk = ck.rng.choice([LazBackend.Lazrs, LazBackend.LazrsParallel])
            inp = {"kind": "transparent", "minor": minor, "fmt": fmt, "n": n, "chunk_size": lazrs.CHUNK_SIZE, "backend": bk.name,
                   "evlrs": None if evlrs is None else len(evlrs), "extra": [p.name for p in params]}
            ck.case(("c14", ci, minor, fmt, n, lazrs.CHUNK_SIZE, bk.name, las.points.array.tobytes()), nontrivial=n > 0)
            ck.count("n_vs_chunk:" + ("<" if n < lazrs.CHUNK_SIZE else "=" if n == lazrs.CHUNK_SIZE else ">"))
            try:
                plain, comp = io.BytesIO(), io.BytesIO()
                las.write(plain)
                parts = c04.rand_partition(ck.rng, n)
                if ck.rng.random() < 0.5:
                    las.write(comp, do_compress=True, laz_backend=bk)
                    how = "one-shot"
                else:
                    from laspy.laswriter import LasWriter
                    w = LasWriter(comp, las.header, do_compress=True, laz_backend=bk, closefd=False)
                    pos = 0
                    for p in parts:
                        w.write_points(las.points[pos:pos + p])
                        pos += p
                    if minor >= 4 and las.evlrs is not None:
                        w.write_evlrs(las.evlrs)
                    w.close()
                    how = f"chunked {parts}"
                cdata, pdata = comp.getvalue(), plain.getvalue()
                # ---- model of the whole compressed session / reading (backend double written out in Lean): byte for byte
                size0 = las.header.point_format.size
                raw0 = las.points.array.tobytes()
                mops, pos0 = [], 0
                for p in ([n] if how == "one-shot" else parts):
                    mops.append(fio.op_points(fmt, size0, raw0[pos0 * size0:(pos0 + p) * size0]))
                    pos0 += p
                if minor >= 4 and las.evlrs is not None:
                    mops.append(fio.op_evlrs([(u.decode(), r, d.decode("latin-1"), pl) for (u, r, d, pl) in (c08.canon(v) for v in las.evlrs)]))
                lines.append(f"cz session {lazrs.CHUNK_SIZE} " + fio.hdr_line(fio.header_fields(las.header)) + " -- " + " ".join(mops))
                meta.append((dict(inp, what="compressed session bytes", how=how), "ok " + c08.hx(cdata)))
                if not cdata[104] & 0x80:
                    ck.fail("compressed file does not carry the compressed bit", inp)
                if laszip_count_in_file(cdata) != 1 or laszip_count_in_file(pdata) != 0:
                    ck.fail(f"LasZip records in the files: compressed {laszip_count_in_file(cdata)}, uncompressed {laszip_count_in_file(pdata)}", inp)
                rb = ck.rng.choice([LazBackend.Lazrs, LazBackend.LazrsParallel])
                a = laspy.read(io.BytesIO(cdata), laz_backend=rb)
                b = laspy.read(io.BytesIO(pdata))
                lines.append(f"cz read {lazrs.CHUNK_SIZE} {c08.hx(cdata)}")
                meta.append((dict(inp, what="reading the compressed file"), c01.canon_read(a)))
                if canon_no_layout(a) != canon_no_layout(b):
                    x, y = canon_no_layout(a), canon_no_layout(b)
                    k0 = next((i for i in range(min(len(x), len(y))) if x[i] != y[i]), -1)
                    ck.fail(f"reading the compressed file ({how}) differs from reading the uncompressed one at char {k0}: ...{x[max(0,k0-30):k0+30]} vs ...{y[max(0,k0-30):k0+30]}", inp)
                if any(type(v).__name__ == "LasZipVlr" for v in a.vlrs):
                    ck.fail("the LasZip record is shown among the user's VLRs after reading", inp)
                # the LasZip record is found wherever it sits in the VLR block
                moved = laszip_first(cdata)
                if moved is not None:
                    ck.count("laszip_record_first")
                    am = laspy.read(io.BytesIO(moved), laz_backend=rb)
                    if any(type(v).__name__ == "LasZipVlr" for v in am.vlrs) or canon_no_layout(am) != canon_no_layout(b):
                        ck.fail("compressed file whose LasZip record is the first VLR: the record is shown or the user's VLRs / points differ "
                                f"(VLRs read: {[type(v).__name__ + ':' + str(v.record_id) for v in am.vlrs]})", inp)
                # write what was read again, compressed: exactly one record
                again = io.BytesIO()
                a.write(again, do_compress=True, laz_backend=bk)
                if laszip_count_in_file(again.getvalue()) != 1:
                    ck.fail(f"rewriting the read data gives {laszip_count_in_file(again.getvalue())} LasZip records", inp)
                # ... and written again uncompressed (explicitly, by default for a stream without backend, through a
                # chunked copy that reuses the compressed file's header): no compressed bit, no LasZip record, same content
                for how in ("do_compress=False", "default", "open_with_header"):
                    plain2 = io.BytesIO()
                    if how == "do_compress=False":
                        a.write(plain2, do_compress=False)
                    elif how == "default":
                        a.write(plain2)
                    else:
                        with laspy.open(io.BytesIO(cdata), laz_backend=rb) as rd0:
                            with laspy.open(plain2, mode="w", header=rd0.header, closefd=False) as w0:
                                for chunk in rd0.chunk_iterator(4):
                                    w0.write_points(chunk)
                                if minor >= 4 and a.evlrs:
                                    w0.write_evlrs(a.evlrs)
                    pd2 = plain2.getvalue()
                    if pd2[104] & 0x80 or laszip_count_in_file(pd2) != 0:
                        ck.fail(f"data read from a compressed file and written uncompressed ({how}): compressed bit {pd2[104] >> 7}, "
                                f"{laszip_count_in_file(pd2)} LasZip record(s)", dict(inp, rewrite=how))
                        continue
                    b3 = laspy.read(io.BytesIO(pd2))
                    if canon_no_layout(b3) != canon_no_layout(b):
                        ck.fail(f"data read from a compressed file and written uncompressed ({how}) reads differently from the original", dict(inp, rewrite=how))
                # ---- selective decompression (layered formats): whatever is selected is read as written; the default selects all
                if fmt >= 6 and n > 0:
                    from laspy import DecompressionSelection as DS
                    groups = {DS.Z: ["Z"], DS.CLASSIFICATION: ["classification"], DS.INTENSITY: ["intensity"], DS.SCAN_ANGLE: ["scan_angle"],
                              DS.USER_DATA: ["user_data"], DS.POINT_SOURCE_ID: ["point_source_id"], DS.GPS_TIME: ["gps_time"],
                              DS.FLAGS: ["synthetic", "key_point", "withheld", "overlap", "scan_direction_flag", "edge_of_flight_line"],
                              DS.RGB: ["red", "green", "blue"], DS.NIR: ["nir"], DS.ALL_EXTRA_BYTES: [p.name for p in params]}
                    chosen = [v for v in groups if ck.rng.random() < 0.5]
                    sel = DS.XY_RETURNS_CHANNEL
                    for v in chosen:
                        sel |= v
                    ck.count("selective_read")
                    part = laspy.read(io.BytesIO(cdata), laz_backend=rb, decompression_selection=sel)
                    names = ["X", "Y", "return_number", "number_of_returns"] + [d for v in chosen for d in groups[v]]
                    for d in names:
                        if d in b.point_format.dimension_names and np.array(part[d]).tobytes() != np.array(b[d]).tobytes():
                            ck.fail(f"selective decompression {sel!r}: the selected dimension {d} is not read as written", dict(inp, selection=int(sel), dim=d))
                            break
                lines.append(f"cz vlrs 1 1 {'0' * len(las.vlrs) or '-'}")
                meta.append((inp, "u" * len(las.vlrs) + "Z" + " " + "u" * len(a.vlrs)))
                # ---- seek-and-read histories on the compressed file
                ops = [c05.rand_op(ck.rng, n) for _ in range(ck.rng.randrange(1, 15))]
                if n >= 4:
                    # always: two reads of the same size, two chunks of the same size (all results are kept until the end)
                    ops = [("r", 2), ("r", 2), ("s", 0, 0), ("n", 2), ("n", 2)] + ops
                full = las.points.array.tobytes()
                size = las.header.point_format.size
                spec = c05.SpecCursor(n)
                with laspy.open(io.BytesIO(cdata), laz_backend=rb) as rd:
                    its = {}
                    kept = []
                    for op in ops:
                        want = spec.apply(op)
                        try:
                            if op[0] == "r":
                                pts = rd.read_points(op[1])
                            elif op[0] == "a":
                                pts = rd.read().points
                            elif op[0] == "n":
                                pts = next(its.setdefault(op[1], rd.chunk_iterator(op[1])))
                            else:
                                got = f"cursor:{rd.seek(op[1], op[2])}"
                                if got != want:
                                    ck.fail(f"compressed file: {c05.tok(op)} -> {got}, cursor model {want}", inp)
                                continue
                        except StopIteration:
                            if want != "stop":
                                ck.fail(f"compressed file: {c05.tok(op)} stopped, cursor model {want}", inp)
                            continue
                        except (IndexError, ValueError) as e:
                            if want != type(e).__name__:
                                ck.fail(f"compressed file: {c05.tok(op)} raised {type(e).__name__}, cursor model {want}", inp)
                            continue
                        if not want.startswith("slice"):
                            ck.fail(f"compressed file: {c05.tok(op)} returned records, cursor model {want}", inp)
                            continue
                        _, s0, l0 = want.split(":")
                        s0, l0 = int(s0), int(l0)
                        if pts.array.tobytes() != full[s0 * size:(s0 + l0) * size]:
                            ck.fail(f"compressed file: {c05.tok(op)} did not return records [{s0}, {s0 + l0})", inp)
                        kept.append((pts, s0, l0, op))
                    # what each call returned is kept until the end of the history: later calls must not alter it
                    for pts, s0, l0, op in kept:
                        if pts.array.tobytes() != full[s0 * size:(s0 + l0) * size]:
                            ck.fail(f"compressed file: the records returned by {c05.tok(op)} were altered by later calls on the reader", inp)
                            break
                # ---- non-seekable source (serial backend), EVLRs deferred
                from .. import streams as st
                try:
                    # backend selection: the serial one; the documented list (the parallel variant first: it cannot work on such a source, the next one is
                    # tried); the default (no backend named)
                    sel = [("serial", {"laz_backend": LazBackend.Lazrs}), ("list", {"laz_backend": [LazBackend.LazrsParallel, LazBackend.Lazrs]}), ("default", {})][ci % 3]
                    ck.count("nonseekable_compressed_read:" + sel[0])
                    ns = laspy.read(st.ReadOnlyInterface(cdata), **sel[1])
                    if canon_no_layout(ns) != canon_no_layout(b):
                        ck.fail(f"reading the compressed file from a non-seekable source (backend selection: {sel[0]}) differs from the uncompressed read", inp)
                except laspy.errors.LaspyException as e:
                    key = "C14:nonseekable_zero_points_evlrs" if (n == 0 and evlrs and "non-seekable" in str(e)) else ""
                    ck.fail(f"reading the compressed file from a non-seekable source raised LaspyException: {e} (the uncompressed file is read)",
                            dict(inp, finding_key=key))
                # ---- append sessions: compressed vs uncompressed
                extra = [fio.raw_records(ck.rng, size, ck.rng.choice([0, 1, lazrs.CHUNK_SIZE, 6])) for _ in range(ck.rng.randrange(0, 3))]
                c2 = io.BytesIO(cdata)
                with laspy.open(c2, mode="a", closefd=False, laz_backend=bk) as ap:
                    for r in extra:
                        ap.append_points(c06.rec_of(las, r))
                p2 = c06.append_session(pdata, [c06.rec_of(las, r) for r in extra])
                if bk == LazBackend.Lazrs or True:
                    # the whole append session on the model (backend double written out): byte for byte
                    lines.append(f"cz append {lazrs.CHUNK_SIZE} {c08.hx(cdata)} " + " ".join(fio.op_points(fmt, size, r) for r in extra))
                    meta.append((dict(inp, what="compressed append session bytes", appended=[len(r) // size for r in extra]), "ok " + c08.hx(c2.getvalue())))
                a2 = laspy.read(io.BytesIO(c2.getvalue()))
                b2 = laspy.read(io.BytesIO(p2))
                if canon_no_layout(a2) != canon_no_layout(b2):
                    ck.fail(f"after appending {[len(r) // size for r in extra]} points: compressed and uncompressed files read differently", inp)
                if laszip_count_in_file(c2.getvalue()) != 1:
                    ck.fail("appended compressed file does not carry exactly one LasZip record", inp)
            except Exception as e:
                ck.fail(f"compression path raised {type(e).__name__}: {e}", inp)
            if ci < 2:
                ck.sample(inp)
    finally:
        shutil.rmtree(tmpdir, ignore_errors=True)
        lazrs.CHUNK_SIZE = 5
    out = ck.driver(lines)
    bad = None
    if out is None or len(out) != len(lines):
        bad = "driver did not run"
    else:
        for (inp, exp), o in zip(meta, out):
            if o != exp and bad is None:
                k0 = next((i for i in range(min(len(o), len(exp))) if o[i] != exp[i]), min(len(o), len(exp)))
                bad = f"{inp}: model '{o[:200]}' impl '{exp[:200]}' (first difference at char {k0}: model ...{o[max(0, k0 - 20):k0 + 40]} impl ...{exp[max(0, k0 - 20):k0 + 40]})"
    ck.oblige("correspondence compress/glue: model decisions / compressed bit / LasZip bookkeeping / whole compressed files byte for byte (sessionC and appendSessionC on the written-out backend double) / readFileC == laspy's glue on the backend double", "correspondence", bad is None, bad or "")
    selection_layer(ck)
    extra_dims_history_layer(ck, 15 if q else 300)
    ck.failures.sort(key=lambda f: (f["input"].get("n", 0), len(str(f["input"]))))
    if ck.tier == "thorough":
        ck.leanchecker(["LasModel.Props.C14", "LasModel.Props.C14File", "LasModel.Props.C14Append", "LasModel.Props.C14Sel"])
