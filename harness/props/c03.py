"""C03 — header statistics always describe the points actually stored."""
import io
import logging
import struct

import numpy as np

from .. import fileio as fio
from . import c04, c06, c08, c09

THEOREMS = ["C03_histogram", "C03_file", "C03_extrema", "C03_mem", "C03_mem_file"]
hx = c08.hx


def expected_stats(las_like_header, arr, fmt, minor):
    """count / extrema (same formula) / histogram recomputed from a record array with plain numpy"""
    h = las_like_header
    n = len(arr)
    exp = {"count": n}
    if n == 0:
        exp["maxs"] = [0.0] * 3
        exp["mins"] = [0.0] * 3
    else:
        exp["maxs"] = [float(arr[d].max() * h.scales[i] + h.offsets[i]) for i, d in enumerate("XYZ")]
        exp["mins"] = [float(arr[d].min() * h.scales[i] + h.offsets[i]) for i, d in enumerate("XYZ")]
    mask = 7 if fmt < 6 else 15
    rn = (arr["bit_fields"] & mask).astype(int) if n else np.zeros(0, int)
    hist = [int((rn == k).sum()) for k in range(1, 16)]
    exp["hist"] = hist
    return exp


def check_file(ck, data, las, arr, evlr_list, inp, what):
    """read the file back with laspy and compare its header with the recomputed statistics"""
    import laspy
    minor, fmt = las.header.version.minor, las.header.point_format.id
    # the layout arithmetic first, from the specification's field positions alone (a header block longer or shorter than it says
    # shifts every later field: laspy would then be reading VLR counts out of text or coordinates)
    if len(data) < 227 or data[:4] != b"LASF":
        ck.fail(f"{what}: not a LAS file ({len(data)} bytes, signature {data[:4]!r})", inp)
        return False
    u = lambda o, w: int.from_bytes(data[o:o + w], "little")
    hsize, off, nvlr, reclen = u(94, 2), u(96, 4), u(100, 4), u(105, 2)
    count = u(247, 8) if data[25] >= 4 else u(107, 4)
    want_hsize = {1: 227, 2: 227, 3: 235, 4: 375}.get(data[25])
    pos, okl = hsize, (data[24], data[25]) == (1, minor) and hsize == want_hsize + len(las.header.extra_header_bytes) and reclen == las.header.point_format.size
    for _ in range(nvlr if okl and nvlr < 1000 else 0):
        if pos + 54 > len(data):
            okl = False
            break
        pos += 54 + u(pos + 20, 2)
    if not okl or nvlr >= 1000 or pos > off or off + count * reclen > len(data):
        ck.fail(f"{what}: the layout fields do not describe the file: version {data[24]}.{data[25]}, header size {hsize} (format says {want_hsize}), "
                f"{nvlr} VLRs ending at {pos}, offset to points {off}, {count} x {reclen} bytes of records, file length {len(data)}", inp)
        return False
    try:
        back = laspy.read(io.BytesIO(data))
    except Exception as e:
        ck.fail(f"{what}: reading raised {type(e).__name__}: {e}", inp)
        return False
    h = back.header
    exp = expected_stats(las.header, arr, fmt, minor)
    if h.point_count != exp["count"] or len(back.points) != exp["count"]:
        ck.fail(f"{what}: header point count {h.point_count} / read {len(back.points)} != stored {exp['count']}", inp)
    for name, got, want in (("maxs", h.maxs, exp["maxs"]), ("mins", h.mins, exp["mins"])):
        if [fio.dbits(x) for x in got] != [fio.dbits(x) for x in want]:
            ck.fail(f"{what}: header {name} {list(map(float, got))} != recomputed {want}", dict(inp, finding_key="C03:extrema"))
    bins = 5 if minor < 4 else 15
    got_hist = [int(x) for x in h.number_of_points_by_return]
    if got_hist[:bins] != exp["hist"][:bins] or any(got_hist[bins:]):
        ck.fail(f"{what}: per-return counts {got_hist} != histogram {exp['hist']} ({bins} bins)", inp)
    size = h.point_format.size
    ev_bytes = sum(60 + len(bytes(v.record_data_bytes())) for v in (back.evlrs or []))
    if len(data) != h.offset_to_point_data + exp["count"] * size + ev_bytes:
        ck.fail(f"{what}: file length {len(data)} != offset {h.offset_to_point_data} + {exp['count']} x {size} + EVLR bytes {ev_bytes}", inp)
    if minor >= 4 and evlr_list:
        if h.number_of_evlrs != len(evlr_list) or h.start_of_first_evlr != h.offset_to_point_data + exp["count"] * size:
            ck.fail(f"{what}: EVLR pointer {h.start_of_first_evlr}/{h.number_of_evlrs} does not locate the EVLRs", inp)
    elif h.number_of_evlrs != 0:
        ck.fail(f"{what}: number_of_evlrs = {h.number_of_evlrs} without EVLRs", inp)
    return True


def check_mem(ck, las, inp, what):
    """the in-memory header must describe las.points"""
    h = las.header
    arr = las.points.array
    exp = expected_stats(h, arr, h.point_format.id, h.version.minor)
    got_hist = [int(x) for x in h.number_of_points_by_return]
    ok = (h.point_count == exp["count"] and [fio.dbits(x) for x in h.maxs] == [fio.dbits(x) for x in exp["maxs"]]
          and [fio.dbits(x) for x in h.mins] == [fio.dbits(x) for x in exp["mins"]] and got_hist == exp["hist"])
    if not ok:
        ck.fail(f"{what}: in-memory header (count {h.point_count}, maxs {list(map(float, h.maxs))}, returns {got_hist[:7]}) does not "
                f"describe the {exp['count']} points held (maxs {exp['maxs']}, returns {exp['hist'][:7]})", inp)
    return exp


def run(ck):
    logging.getLogger("laspy").setLevel(logging.CRITICAL)
    import laspy
    ck.rule = ("files: seeded clouds (random bytes, so negative coordinates and every return number 0..15 occur; plus "
               "single-point and empty clouds) written one-shot and in random chunkings, with/without EVLRs, all legal "
               "(version, format) pairs; each re-read and compared with statistics recomputed by plain numpy and with the "
               "model; in memory: histories of {points assignment, slicing with step, boolean mask, index list with duplicates, "
               "single index, empty selection, explicit update_header} with the header checked after every step and against "
               "the model's updateStats. non-trivial = at least one point; distinct by (pair, bytes, partition / history)")
    ck.regen()
    ck.lean_props("C03", THEOREMS)
    q = ck.tier == "quick"
    lines, meta = [], []
    for ci in range(100 if q else 2500):
        minor, fmt = fio.PAIRS[ci % len(fio.PAIRS)] if ci < 2 * len(fio.PAIRS) else ck.rng.choice(fio.PAIRS)
        n = ck.rng.choice([0, 1, 1, 2, 5, 17, 40])
        evlrs = fio.rand_vlrs(ck.rng, True) if (minor >= 4 and ck.rng.random() < 0.5) else None
        sc = [ck.rng.choice([0.01, 0.001, 0.5, 1.0]) for _ in range(3)]
        of = [ck.rng.choice([0.0, 1000.0, -12.25, -1e6]) for _ in range(3)]
        las = fio.make_las(ck.rng, minor, fmt, n, vlrs=fio.rand_vlrs(ck.rng, False, 1), evlrs=evlrs, scales=sc, offsets=of)
        arr = las.points.array.copy()
        inp = {"kind": "file", "minor": minor, "fmt": fmt, "n": n, "scales": sc, "offsets": of, "evlrs": None if evlrs is None else len(evlrs),
               "raw": arr.tobytes().hex()[:800]}
        if ci % 5 == 1:
            # header texts taken from fixed-size, NUL-padded buffers (as C structs give them), the text part longer than the field
            ck.count("header_texts_from_nul_padded_buffers")
            t1 = "".join(ck.rng.choice("abcdefghijklmnopqrstuvwxyz 0123456789") for _ in range(ck.rng.choice([33, 44, 64])))
            t2 = "".join(ck.rng.choice("ABCDEFGHIJKLMNOPQRSTUVWXYZ") for _ in range(ck.rng.choice([5, 32, 40])))
            las.header.generating_software = t1.ljust(80, "\0")
            las.header.system_identifier = t2.ljust(48, "\0")
            inp["header_texts"] = [t1, t2]
        ck.case(("c03file", minor, fmt, arr.tobytes()), nontrivial=n > 0)
        ck.count("file_n=%d" % n)
        one = io.BytesIO()
        las.write(one)
        if not check_file(ck, one.getvalue(), las, arr, las.evlrs if minor >= 4 else None, inp, "one-shot file"):
            continue        # nothing that laspy could safely be asked to read again
        parts = c04.rand_partition(ck.rng, n)
        chunked = c04.chunked_write(las, parts)
        check_file(ck, chunked, las, arr, las.evlrs if minor >= 4 else None, dict(inp, parts=list(parts)), f"chunked file {parts}")
        # append: the first k0 records written one-shot (k0 = 0 included), the rest appended in chunks
        k0 = ck.rng.choice([0, 0, n // 2, n])
        try:
            size = las.header.point_format.size
            orig = fio.make_las(ck.rng, minor, fmt, k0, raw=arr[:k0].tobytes(), evlrs=evlrs, scales=sc, offsets=of)
            ob = io.BytesIO()
            orig.write(ob)
            rest = arr[k0:].tobytes()
            chunks, pos = [], 0
            for pp in c04.rand_partition(ck.rng, n - k0):
                chunks.append(c06.rec_of(las, rest[pos * size:(pos + pp) * size]))
                pos += pp
            appended = c06.append_session(ob.getvalue(), chunks)
            check_file(ck, appended, las, arr, las.evlrs if minor >= 4 else None, dict(inp, original_points=k0), f"appended file ({k0} + {n - k0} points)")
            ck.count("append_file:orig_empty" if k0 == 0 else "append_file")
        except Exception as e:
            ck.fail(f"append session raised {type(e).__name__}: {e}", dict(inp, original_points=k0))
        # the same cloud written by a chunked session to a path that already holds a LONGER file: nothing of the old file is left behind
        if ci % 10 == 3:
            import os
            import tempfile
            ck.count("path_overwritten_by_a_shorter_file")
            td = tempfile.mkdtemp(prefix="verif_c03_")
            try:
                pth = os.path.join(td, "tile.las")
                with open(pth, "wb") as f_:
                    f_.write(one.getvalue() + bytes(ck.rng.getrandbits(8) for _ in range(5000)))
                with laspy.open(pth, mode="w", header=las.header) as w_:
                    pos_ = 0
                    for pp in c04.rand_partition(ck.rng, n):
                        w_.write_points(las.points[pos_:pos_ + pp])
                        pos_ += pp
                with open(pth, "rb") as f_:
                    got_ = f_.read()
                check_file(ck, got_, las, arr, None, dict(inp, scenario="chunked session on a path that held a longer file"), "file written over a longer existing file")
            except Exception as e:
                ck.fail(f"writing over an existing file raised {type(e).__name__}: {e}", inp)
            finally:
                import shutil
                shutil.rmtree(td, ignore_errors=True)
        # a header that described a file with EVLRs, reused for a file without them (the user dropped them, or copies the
        # points only): the new file's header must describe the new file
        if minor >= 4 and evlrs:
            ck.count("header_reused_without_evlrs")
            try:
                src = laspy.read(io.BytesIO(one.getvalue()))
                src.evlrs.clear()
                again = io.BytesIO()
                src.write(again)
                check_file(ck, again.getvalue(), las, arr, None, dict(inp, scenario="read, EVLRs cleared, written"), "file rewritten without its EVLRs")
                out2 = io.BytesIO()
                with laspy.open(io.BytesIO(one.getvalue())) as rd:
                    with laspy.open(out2, mode="w", header=rd.header, closefd=False) as w:
                        for chunk in rd.chunk_iterator(max(1, n // 2)):
                            w.write_points(chunk)
                check_file(ck, out2.getvalue(), las, arr, None, dict(inp, scenario="points-only copy with the reader's header"), "points-only copy of a file with EVLRs")
            except Exception as e:
                ck.fail(f"rewriting without EVLRs raised {type(e).__name__}: {e}", inp)
        # a chunked session left by an exception raised in the with-block after some chunks: the file is closed with a header
        # that describes the points stored so far
        if ci % 3 == 0:
            ck.count("session_left_by_exception")
            try:
                bx = io.BytesIO()
                parts_x = c04.rand_partition(ck.rng, n)
                upto = ck.rng.randrange(0, len(parts_x) + 1)
                stored = 0
                try:
                    with laspy.open(bx, mode="w", header=las.header, closefd=False) as wx:
                        pos = 0
                        for k_, pp in enumerate(parts_x):
                            if k_ == upto:
                                raise KeyError("the data source failed")
                            wx.write_points(las.points[pos:pos + pp])
                            pos += pp
                            stored = pos
                        if upto == len(parts_x):
                            raise KeyError("the data source failed")
                except KeyError:
                    pass
                check_file(ck, bx.getvalue(), las, arr[:stored], None, dict(inp, scenario="with-block left by an exception", chunks_written=upto, stored=stored),
                           f"file left by a chunked session whose with-block raised after {upto} chunk(s)")
            except Exception as e:
                ck.fail(f"chunked session left by an exception: {type(e).__name__}: {e}", inp)
        # chunks given as scale-aware records in another scaling than the file's: the writer rescales them, and the header
        # must describe what was stored (statistics recomputed from the records read back)
        if n > 0 and ci % 2 == 0:
            ck.count("chunks_in_foreign_scaling")
            try:
                small = arr.copy()
                for d in "XYZ":
                    small[d] = np.array([ck.rng.randrange(-50000, 50000) for _ in range(n)], dtype="i4")
                hdr2 = fio.make_las(ck.rng, minor, fmt, 0, scales=[0.5, 0.25, 1.0], offsets=[0.0, 16.0, -8.0]).header
                from laspy.laswriter import LasWriter
                buf = io.BytesIO()
                w = LasWriter(buf, hdr2, closefd=False)
                pos, used = 0, []
                for pp in c04.rand_partition(ck.rng, n):
                    sc2, of2 = ck.rng.choice([([0.5, 0.25, 1.0], [0.0, 16.0, -8.0]), ([0.25, 0.5, 2.0], [4.0, 0.0, 8.0]), ([1.0, 1.0, 0.5], [-32.0, 64.0, 0.0])])
                    used.append((pp, sc2, of2))
                    w.write_points(laspy.ScaleAwarePointRecord(small[pos:pos + pp].copy(), hdr2.point_format, np.array(sc2), np.array(of2)))
                    pos += pp
                w.close()
                back = laspy.read(io.BytesIO(buf.getvalue()))
                inp2 = dict(inp, scenario="chunks in foreign scaling", chunk_scalings=[(a, b_, c_) for a, b_, c_ in used], XYZ=[small[d].tolist() for d in "XYZ"])
                check_file(ck, buf.getvalue(), back, back.points.array, None, inp2, f"file written from chunks in other scalings {[u[0] for u in used]}")
            except OverflowError:
                ck.count("foreign_scaling_overflow")
            except Exception as e:
                ck.fail(f"writing chunks in another scaling raised {type(e).__name__}: {e}", inp)
        # model: in-memory statistics of the same records
        f = fio.header_fields(las.header)
        lines.append("file stats " + fio.hdr_line(f) + f" -- {las.header.point_format.size} {hx(arr.tobytes())}")
        exp = check_mem(ck, las, inp, "after points assignment")
        ext = []
        for i in range(3):
            ext += [fio.dbits(exp["maxs"][i]), fio.dbits(exp["mins"][i])]
        meta.append((inp, f"{exp['count']} {','.join(map(str, exp['hist']))} {','.join(map(str, ext))}"))
        if ci < 2:
            ck.sample({k: v for k, v in inp.items() if k != "raw"})
    # ---- compressed files (conforming backend double): count, statistics and the EVLR pointer describe the file
    try:
        import lazrs
        from laspy import LazBackend
        for ci in range(20 if q else 400):
            lazrs.CHUNK_SIZE = ck.rng.choice([3, 5])
            minor, fmt = ck.rng.choice(fio.PAIRS)
            n = ck.rng.choice([0, 1, 4, 7, 12])
            evlrs = fio.rand_vlrs(ck.rng, True, 2) if minor >= 4 and ck.rng.random() < 0.7 else None
            las = fio.make_las(ck.rng, minor, fmt, n, evlrs=evlrs, scales=[0.01, 0.5, 1.0], offsets=[0.0, -100.0, 7.5])
            arr = las.points.array.copy()
            inp = {"kind": "compressed_file", "minor": minor, "fmt": fmt, "n": n, "evlrs": None if evlrs is None else len(evlrs), "chunk_size": lazrs.CHUNK_SIZE}
            ck.case(("c03laz", minor, fmt, n, arr.tobytes(), lazrs.CHUNK_SIZE), nontrivial=n > 0)
            ck.count("compressed_file")
            try:
                buf = io.BytesIO()
                if ck.rng.random() < 0.5:
                    las.write(buf, do_compress=True, laz_backend=LazBackend.Lazrs)
                else:
                    from laspy.laswriter import LasWriter
                    w = LasWriter(buf, las.header, do_compress=True, laz_backend=LazBackend.Lazrs, closefd=False)
                    pos = 0
                    for pp in c04.rand_partition(ck.rng, n):
                        w.write_points(las.points[pos:pos + pp])
                        pos += pp
                    if minor >= 4 and las.evlrs is not None:
                        w.write_evlrs(las.evlrs)
                    w.close()
                data = buf.getvalue()
                back = laspy.read(io.BytesIO(data))
            except Exception as e:
                ck.fail(f"compressed file: {type(e).__name__}: {e}", inp)
                continue
            h = back.header
            exp = expected_stats(las.header, arr, fmt, minor)
            if h.point_count != n or len(back.points) != n or back.points.array.tobytes() != arr.tobytes():
                ck.fail(f"compressed file: header count {h.point_count}, {len(back.points)} records read, {n} stored (or records differ)", inp)
            if [fio.dbits(x) for x in h.maxs] != [fio.dbits(x) for x in exp["maxs"]] or [fio.dbits(x) for x in h.mins] != [fio.dbits(x) for x in exp["mins"]]:
                ck.fail(f"compressed file: header extrema {list(map(float, h.maxs))} / {list(map(float, h.mins))} != recomputed {exp['maxs']} / {exp['mins']}", inp)
            ev_bytes = sum(60 + len(bytes(v.record_data_bytes())) for v in (las.evlrs or [])) if minor >= 4 else 0
            if ev_bytes:
                if h.number_of_evlrs != len(las.evlrs) or h.start_of_first_evlr + ev_bytes != len(data):
                    ck.fail(f"compressed file: EVLR pointer {h.start_of_first_evlr}/{h.number_of_evlrs} does not locate the {ev_bytes} EVLR bytes at the end "
                            f"of the {len(data)}-byte file", inp)
            elif h.number_of_evlrs != 0:
                ck.fail(f"compressed file: number_of_evlrs = {h.number_of_evlrs} without EVLRs", inp)
        lazrs.CHUNK_SIZE = 5
    except ImportError:
        ck.count("compressed_layer_skipped_no_backend_double")
    # ---- in-memory histories
    for hi in range(80 if q else 2000):
        minor, fmt = ck.rng.choice(fio.PAIRS)
        n = ck.rng.choice([0, 1, 3, 8, 20])
        las = fio.make_las(ck.rng, minor, fmt, n, scales=[0.01, 0.5, 1.0], offsets=[0.0, -100.0, 7.5])
        hist = []
        for step in range(ck.rng.randrange(1, 6)):
            op = ck.rng.choice(["points", "index", "update", "index", "index"])
            m = len(las.points)
            if op == "points":
                n2 = ck.rng.choice([0, 1, 4, 9])
                raw = fio.raw_records(ck.rng, las.header.point_format.size, n2)
                rec = laspy.ScaleAwarePointRecord(np.frombuffer(bytearray(raw), dtype=las.header.point_format.dtype()).copy(),
                                                  las.header.point_format, las.header.scales, las.header.offsets)
                las.points = rec
                hist.append(("points", n2))
            elif op == "update":
                # edit records directly, then ask for the update
                if m:
                    las.points.array["X"][ck.rng.randrange(m)] = ck.rng.randrange(-2**31, 2**31)
                    las.points.array["bit_fields"][ck.rng.randrange(m)] = ck.rng.randrange(256)
                las.update_header()
                hist.append(("update",))
            else:
                kk, key = c09.gen_key(ck.rng, m)
                if kk == "int":
                    key = slice(key, key + 1) if m else slice(0, 0)
                    kk = "single"
                if isinstance(key, list):
                    key = np.array(key, dtype=int)
                if isinstance(key, np.ndarray) and len(key) == 0:
                    # las[[]] is taken for a list of dimension names (all() of nothing); not an index expression
                    key, kk = slice(0, 0), "empty"
                try:
                    las = las[key]
                except Exception as e:
                    ck.count("index_raised:" + type(e).__name__)
                    continue
                hist.append((kk, repr(key)[:60]))
            ck.count("mem_op:" + hist[-1][0])
            inp = {"kind": "memory", "minor": minor, "fmt": fmt, "history": hist[:]}
            check_mem(ck, las, inp, f"after {hist[-1]}")
        ck.case(("c03mem", minor, fmt, tuple(map(str, hist))), nontrivial=True)
        if hi < 2:
            ck.sample({"memory_history": hist})
    out = ck.driver(lines)
    bad = None
    if out is None or len(out) != len(lines):
        bad = "driver did not run"
    else:
        for (inp, exp), o in zip(meta, out):
            if o != exp and bad is None:
                bad = f"{({k_: v for k_, v in inp.items() if k_ != 'raw'})}: model '{o[:160]}' numpy '{exp[:160]}'"
    ck.oblige("correspondence fileio/stats: model grow/updateStats (hardware doubles) == statistics of the real header", "correspondence", bad is None, bad or "")
    ck.failures.sort(key=lambda f: (f["input"].get("n", 0), len(str(f["input"]))))
    if ck.tier == "thorough":
        ck.leanchecker(["LasModel.Props.C03"])
