"""C10 — dimension views compute what numpy computes on the same values."""
import operator
import warnings

import numpy as np

from . import c09

THEOREMS = ["getBits_le", "cmp_in_range", "C10_cmp", "C10_cmp_above", "C10_cmp_col", "C10_index_sub",
            "C10_index_elem", "C10_index_points", "C10_minmax", "C10_delegation_ops", "C10_delegation_complete",
            "C10_delegation_minmax", "C10_cmp_routing"]

OPS = {
    "==": operator.eq, "!=": operator.ne, "<": operator.lt, "<=": operator.le, ">": operator.gt, ">=": operator.ge,
    "+": operator.add, "-": operator.sub, "*": operator.mul, "/": operator.truediv, "//": operator.floordiv,
}
CMP_NAME = {"<": "lt", "<=": "le", ">": "gt", ">=": "ge"}
INT_DTYPES = c09.INT_DTYPES


def same(a, b):
    """same values and shape up to length-1 axes; NaN == NaN"""
    a, b = np.asarray(a), np.asarray(b)
    if a.dtype.kind != b.dtype.kind and not (a.dtype.kind in "iu" and b.dtype.kind in "iu"):
        if not (a.dtype.kind in "iuf" and b.dtype.kind in "iuf"):
            return False
    a2, b2 = np.squeeze(a), np.squeeze(b)
    if a2.shape != b2.shape:
        return False
    if a2.dtype.kind == "f" or b2.dtype.kind == "f":
        return bool(np.array_equal(a2, b2, equal_nan=True))
    return bool(np.array_equal(a2, b2))


def evaluate(fn):
    with warnings.catch_warnings():
        warnings.simplefilter("ignore")
        with np.errstate(all="ignore"):
            try:
                return "ok", fn()
            except Exception as e:
                return "exc", type(e).__name__


def compare(ck, label, view_fn, plain_fn, inp):
    """differential oracle: the expression on the view vs on np.array(view)"""
    se, ev = evaluate(plain_fn)
    if se == "exc":
        ck.count("skipped:numpy_raises")
        return None
    sv, vv = evaluate(view_fn)
    ck.case(("expr", label, repr(inp)[:300]))
    if sv == "exc":
        ck.count("skipped:view_raises:" + vv)
        return None
    if isinstance(vv, tuple) and isinstance(ev, tuple):
        ok = len(vv) == len(ev) and all(same(x, y) for x, y in zip(vv, ev))
    else:
        ok = same(vv, ev)
    if not ok:
        ck.fail(f"{label}: view gives {np.asarray(vv).tolist() if np.size(vv) <= 8 else str(np.asarray(vv).ravel()[:6])+'...'}, "
                f"numpy on the materialised values gives {np.asarray(ev).tolist() if np.size(ev) <= 8 else str(np.asarray(ev).ravel()[:6])+'...'}", inp)
    return ok


# ------------------------------------------------------------------ sub-field comparison, exhaustive

def cmp_layer(ck):
    """every mask x {<,<=,>,>=,==,!=} x constants -3..max+3 and large, python ints and numpy scalars,
    on a column holding all 256 bytes; impl vs numpy oracle vs Lean model"""
    from laspy.point import dims
    lines, meta = [], []
    seen = set()
    for fmt in (0, 6):
        rec = c09.new_record(fmt, 256, ck.rng)
        for cname, name, mask in c09.subfields(fmt):
            rec.array[cname] = np.arange(256, dtype="u1")
            view = rec[name]
            plain = np.array(view)
            mx = mask >> c09.lsb_of(mask)
            consts = list(range(-3, mx + 4)) + [255, 256, 2**31, -(2**31), 2**64, -(2**70)]
            for c in consts:
                operands = [("int", c)]
                for dt in INT_DTYPES:
                    info = np.iinfo(dt)
                    if info.min <= c <= info.max:
                        operands.append(("np." + dt, np.dtype(dt).type(c)))
                for oname, cval in operands:
                    for opn in ("<", "<=", ">", ">=", "==", "!="):
                        op = OPS[opn]
                        inp = {"kind": "cmp", "fmt": fmt, "field": name, "op": opn, "operand": oname, "c": int(c),
                               "finding_key": "C10:cmp:" + ("above" if c > mx else "neg" if c < 0 else "in") + (":np" if oname != "int" else "")}
                        ok = compare(ck, f"fmt {fmt} {name} {opn} {oname}({c})", lambda: op(view, cval), lambda: op(plain, cval), inp)
                        ck.count("cmp:" + ("above" if c > mx else "neg" if c < 0 else "in_range"))
                        if opn in CMP_NAME and oname == "int" and (mask, opn, c) not in seen:
                            seen.add((mask, opn, c))
                            s, r = evaluate(lambda: op(view, cval))
                            lines.append(f"sf cmp {CMP_NAME[opn]} {mask} {c09.hexs(range(256))} {c}")
                            meta.append((name, opn, c, "".join("1" if x else "0" for x in r) if s == "ok" else "exc:" + str(r)))
    # non-integral constants (python and numpy floats), and the function forms of the comparisons with the view on either side
    NPF = {"<": np.less, "<=": np.less_equal, ">": np.greater, ">=": np.greater_equal, "==": np.equal, "!=": np.not_equal}
    for fmt in (0, 6):
        rec = c09.new_record(fmt, 256, ck.rng)
        for cname, name, mask in c09.subfields(fmt):
            rec.array[cname] = np.arange(256, dtype="u1")
            view = rec[name]
            plain = np.array(view)
            mx = mask >> c09.lsb_of(mask)
            for c in [-0.5, 0.5, 1.5, mx - 0.5, mx + 0.5, 2.0, float(mx), -1.0]:
                for oname, cval in (("float", c), ("np.float64", np.float64(c)), ("np.float32", np.float32(c))):
                    for opn in ("<", "<=", ">", ">=", "==", "!="):
                        op = OPS[opn]
                        inp = {"kind": "cmp_float", "fmt": fmt, "field": name, "op": opn, "operand": oname, "c": c, "finding_key": "C10:cmp:float"}
                        compare(ck, f"fmt {fmt} {name} {opn} {oname}({c})", lambda: op(view, cval), lambda: op(plain, cval), inp)
                        ck.count("cmp:float")
            for c in [0, 1, mx, mx + 1, -1, 2]:
                for oname, cval in (("int", c), ("np.int64", np.int64(c)), ("np.uint8", np.uint8(c)) if c >= 0 else ("np.int8", np.int8(c))):
                    for opn, fn in NPF.items():
                        inp = {"kind": "cmp_func", "fmt": fmt, "field": name, "op": opn, "operand": oname, "c": c, "finding_key": "C10:cmp:func"}
                        compare(ck, f"fmt {fmt} np.{fn.__name__}({name}, {oname}({c}))", lambda: fn(view, cval), lambda: fn(plain, cval), inp)
                        compare(ck, f"fmt {fmt} np.{fn.__name__}({oname}({c}), {name})", lambda: fn(cval, view), lambda: fn(cval, plain), dict(inp, view_is="second"))
                        compare(ck, f"fmt {fmt} {oname}({c}) {opn} {name}", lambda: OPS[opn](cval, view), lambda: OPS[opn](cval, plain), dict(inp, view_is="right operand"))
                        ck.count("cmp:func_forms")
    out = ck.driver(lines)
    bad = None
    if out is None:
        bad = "driver did not run"
    else:
        for (name, opn, c, exp), o in zip(meta, out):
            if o != exp and bad is None:
                k = next((i for i in range(min(len(o), len(exp))) if o[i] != exp[i]), 0)
                bad = f"{name} {opn} {c}: byte {k:#04x}: model {o[k:k+1]} impl {exp[k:k+1] if not exp.startswith('exc') else exp}"
    ck.oblige("correspondence bits/subfield-cmp: model cmpSub == SubFieldView comparison on all masks x operators x constants x 256 bytes",
              "correspondence", bad is None, bad or "")
    ck.evaluations += len(lines) * 255
    ck.sample({"layer": "cmp", "example": "return_number < 8 on bytes 0..255 (python int and numpy scalars of 8 dtypes)"})


# ------------------------------------------------------------------ sub-field expressions, seeded

def subfield_layer(ck, n_cases):
    from laspy.point import dims
    fmts = sorted(dims.POINT_FORMAT_DIMENSIONS.keys())
    for _ in range(n_cases):
        fmt = ck.rng.choice(fmts)
        n = ck.rng.choice([1, 2, 3, 7, 20])
        rec = c09.new_record(fmt, n, ck.rng)
        cname, name, mask = ck.rng.choice(c09.subfields(fmt))
        mx = mask >> c09.lsb_of(mask)
        view = rec[name]
        plain = np.array(view)
        kind = ck.rng.choice(["binop_scalar", "binop_array", "func", "index", "method"])
        base = {"kind": "sub", "fmt": fmt, "field": name, "bytes": rec.array[cname].tobytes().hex()}
        if kind == "binop_scalar":
            opn = ck.rng.choice(list(OPS))
            dt = ck.rng.choice(INT_DTYPES + ["int", "int", "bool"])
            c = ck.rng.choice([0, 1, mx, mx + 1, mx + 2, 2, 3, 200, -1, -2, 2**20, -(2**20)])
            if dt == "int":
                cval = c
            elif dt == "bool":
                cval = bool(c & 1)
            else:
                info = np.iinfo(dt)
                c = max(info.min, min(info.max, c))
                cval = np.dtype(dt).type(c)
            fk = "C10:cmp:" + ("above" if c > mx else "neg" if c < 0 else "in") + (":np" if dt not in ("int", "bool") else "")
            compare(ck, f"fmt {fmt} {name} {opn} {dt}({c})", lambda: OPS[opn](view, cval), lambda: OPS[opn](plain, cval),
                    dict(base, expr=f"view {opn} {dt}({c})", finding_key=fk if opn in CMP_NAME else "C10:binop"))
            ck.count("sub:binop_scalar:" + opn)
        elif kind == "binop_array":
            opn = ck.rng.choice(list(OPS))
            dt = ck.rng.choice(INT_DTYPES)
            info = np.iinfo(dt)
            vals = [max(info.min, min(info.max, ck.rng.choice([0, 1, mx, mx + 1, 2, 32, 200, -1]))) for _ in range(n)]
            arr = np.array(vals, dtype=dt)
            compare(ck, f"fmt {fmt} {name} {opn} array({dt})", lambda: OPS[opn](view, arr), lambda: OPS[opn](plain, arr),
                    dict(base, expr=f"view {opn} np.array({vals}, {dt})", finding_key="C10:cmp:array" if opn in CMP_NAME else "C10:binop"))
            ck.count("sub:binop_array:" + opn)
        elif kind == "func":
            fname = ck.rng.choice(["min", "max", "sum", "mean", "unique", "isin", "concatenate", "where", "isin_kw", "unique_kw", "sum_kw", "sort_kw", "isin_kw", "unique_kw"])
            c = ck.rng.randrange(0, mx + 2)
            flag = bool(ck.rng.getrandbits(1))
            fns = {
                # keyword arguments reach numpy as they were given (flags that are False, too)
                "isin_kw": lambda v: np.isin(v, [0, c], invert=flag), "unique_kw": lambda v: np.unique(v, return_counts=flag, return_index=not flag),
                "sum_kw": lambda v: np.sum(v, keepdims=flag, dtype=np.int64), "sort_kw": lambda v: np.sort(v, axis=0, kind="stable"),
                "min": lambda v: np.min(v), "max": lambda v: np.max(v), "sum": lambda v: np.sum(v), "mean": lambda v: np.mean(v),
                "unique": lambda v: np.unique(v), "isin": lambda v: np.isin(v, [0, c]),
                "concatenate": lambda v: np.concatenate([v, v]), "where": lambda v: np.where(v >= c)[0],
            }
            compare(ck, f"fmt {fmt} np.{fname}({name})", lambda: fns[fname](view), lambda: fns[fname](plain), dict(base, expr=f"np.{fname}(view) c={c}", finding_key="C10:func:" + fname))
            ck.count("sub:func:" + fname)
        elif kind == "method":
            m = ck.rng.choice(["min", "max"])
            compare(ck, f"fmt {fmt} {name}.{m}()", lambda: getattr(view, m)(), lambda: getattr(plain, m)(), dict(base, expr=f"view.{m}()", finding_key="C10:method"))
            ck.count("sub:method")
        else:
            kkind, key = c09.gen_key(ck.rng, n)
            if kkind == "mask" and ck.rng.random() < 0.5:
                kkind, key = "mask_as_list", [bool(x) for x in np.asarray(key).tolist()]       # a boolean mask given as a python list
            compare(ck, f"fmt {fmt} {name}[{kkind}]", lambda: np.array(view[key]), lambda: plain[key], dict(base, expr=f"view[{key!r}]", finding_key="C10:index"))
            ck.count("sub:index:" + kkind)
    ck.sample({"layer": "subfield-expr", "example": "np.unique(las.classification), las.return_number + np.uint8(3), las.synthetic[mask]"})


def two_views_layer(ck, n_cases):
    """numpy functions that take two views at once, of different sub-fields packed in the same byte (and of different bytes)"""
    from laspy.point import dims
    fmts = sorted(dims.POINT_FORMAT_DIMENSIONS.keys())
    fns = {"concatenate": lambda a, b: np.concatenate([a, b]), "column_stack": lambda a, b: np.column_stack([a, b]),
           "maximum": np.maximum, "less": np.less, "where": lambda a, b: np.where(a > 0, a, b), "add": np.add,
           "logical_and": np.logical_and, "stack": lambda a, b: np.stack([a, b])}
    for _ in range(n_cases):
        fmt = ck.rng.choice(fmts)
        n = ck.rng.choice([2, 5, 9])
        rec = c09.new_record(fmt, n, ck.rng)
        subs = c09.subfields(fmt)
        a = ck.rng.choice(subs)
        same_byte = [x for x in subs if x[0] == a[0] and x[1] != a[1]]
        b = ck.rng.choice(same_byte) if same_byte and ck.rng.random() < 0.8 else ck.rng.choice(subs)
        va, vb = rec[a[1]], rec[b[1]]
        pa, pb = np.array(va), np.array(vb)
        fname = ck.rng.choice(sorted(fns))
        base = {"kind": "two_views", "fmt": fmt, "fields": [a[1], b[1]], "func": fname, "bytes": rec.array[a[0]].tobytes().hex()}
        ck.count("two_views:" + ("same_byte" if a[0] == b[0] else "other_byte"))
        compare(ck, f"fmt {fmt} np.{fname}({a[1]}, {b[1]})", lambda: fns[fname](va, vb), lambda: fns[fname](pa, pb), dict(base, finding_key="C10:two_views"))


def kept_view_layer(ck, n_cases):
    """a view kept by the caller is a view onto the record: after the record is written by another route (assignment through
    the record, a fresh view, or the raw array) every expression on the kept view must give what numpy gives on the field's
    current values"""
    from laspy.point import dims
    fmts = sorted(dims.POINT_FORMAT_DIMENSIONS.keys())
    for _ in range(n_cases):
        fmt = ck.rng.choice(fmts)
        n = ck.rng.choice([2, 5, 9])
        rec = c09.new_record(fmt, n, ck.rng)
        cname, name, mask = ck.rng.choice(c09.subfields(fmt))
        lsb = c09.lsb_of(mask)
        mx = mask >> lsb
        view = rec[name]
        # first uses of the view
        _ = np.array(view), view == 0, view.max(), np.sum(view)
        route = ck.rng.choice(["record_setitem", "fresh_view", "raw_array"])
        newvals = np.array([ck.rng.randrange(0, mx + 1) for _ in range(n)])
        if route == "record_setitem":
            rec[name] = newvals
        elif route == "fresh_view":
            rec[name][:] = newvals
        else:
            rec.array[cname] = np.frombuffer(bytes(ck.rng.getrandbits(8) for _ in range(n)), dtype="u1")
        truth = (rec.array[cname] & mask) >> lsb
        c = ck.rng.randrange(0, mx + 2)
        base = {"kind": "kept_view", "fmt": fmt, "field": name, "route": route, "bytes_now": rec.array[cname].tobytes().hex(), "c": c}
        ck.count("kept_view:" + route)
        exprs = {"np.array(v)": lambda v: np.array(v), "v == c": lambda v: v == c, "v != c": lambda v: v != c, "v < c": lambda v: v < c,
                 "v >= c": lambda v: v >= c, "v + 1": lambda v: v + 1, "np.sum(v)": lambda v: np.sum(v), "v.max()": lambda v: v.max(),
                 "v.min()": lambda v: v.min(), "np.unique(v)": lambda v: np.unique(v), "v[1:]": lambda v: np.array(v[1:]), "v[0]": lambda v: v[0]}
        for label, fn in exprs.items():
            compare(ck, f"fmt {fmt} {name} kept view after {route}: {label}", lambda: fn(view), lambda: fn(truth), dict(base, expr=label, finding_key="C10:kept_view"))


# ------------------------------------------------------------------ scaled views

def make_scaled(ck, n):
    """a LasData with x/y/z and scaled extra dimensions of 1..3 elements, raw integers assigned directly"""
    import laspy
    from laspy import ExtraBytesParams
    fmt = ck.rng.choice([0, 3, 6, 7])
    las = laspy.create(point_format=fmt)
    las.header.scales = np.array([ck.rng.choice([0.01, 0.001, 0.5, 2.0, 1e-5]) for _ in range(3)])
    las.header.offsets = np.array([ck.rng.choice([0.0, 100.0, -2500.5, 1e6]) for _ in range(3)])
    params = []
    specs = []
    for k in (1, 2, 3):
        base = ck.rng.choice(["i1", "u1", "i2", "u2", "i4", "u4"])
        t = base if k == 1 else f"{k}{base}"
        sc = np.array([ck.rng.choice([0.5, 2.0, 0.01, 0.125, 3.0]) for _ in range(k)])
        of = np.array([ck.rng.choice([0.0, 100.0, -7.25, 1e4]) for _ in range(k)])
        params.append(ExtraBytesParams(name=f"e{k}", type=t, scales=sc, offsets=of))
        specs.append((f"e{k}", k, base, sc.tolist(), of.tolist()))
    las.add_extra_dims(params)
    las.points = laspy.ScaleAwarePointRecord.zeros(n, header=las.header)
    for d in ("X", "Y", "Z"):
        las.points.array[d] = np.array([ck.rng.randrange(-10**6, 10**6) for _ in range(n)], dtype="i4")
    for name, k, base, _, _ in specs:
        info = np.iinfo(base)
        shape = (n,) if k == 1 else (n, k)
        las.points.array[name] = np.array([ck.rng.randrange(info.min, info.max + 1) for _ in range(n * k)], dtype=base).reshape(shape)
    return las, specs


def scaled_layer(ck, n_cases):
    for _ in range(n_cases):
        n = ck.rng.choice([1, 2, 3, 5, 9])
        las, specs = make_scaled(ck, n)
        name, k = ck.rng.choice([("x", 1), ("y", 1), ("z", 1)] + [(s[0], s[1]) for s in specs])
        view = las[name]
        plain = np.array(view)
        spec = next((s for s in specs if s[0] == name), None)
        base = {"kind": "scaled", "dim": name, "elements": k, "n": n, "spec": spec,
                "raw": np.asarray(view.array).tolist(), "hdr_scales": las.header.scales.tolist(), "hdr_offsets": las.header.offsets.tolist()}
        kind = ck.rng.choice(["arith", "arith_views", "reduce", "method", "index", "index_elem"] if k > 1 else ["arith", "arith_views", "reduce", "method", "index"])
        if kind == "arith_views":
            # view (op) view: coordinates against each other (stored integers near the int32 ends), a scaled extra dimension
            # against itself or reversed; numpy on the materialised values is the reference
            opn = ck.rng.choice(["+", "-", "-", "*"])
            if name in ("x", "y", "z"):
                other_name = ck.rng.choice(["x", "y", "z"])
                for d in {name.upper(), other_name.upper()}:
                    las.points.array[d] = np.array([ck.rng.choice([2**31 - 1, -2**31, 1500000000, -1200000000, ck.rng.randrange(-10**6, 10**6)]) for _ in range(n)], dtype="i4")
                view = las[name]
                plain = np.array(view)
                v2, p2 = las[other_name], np.array(las[other_name])
            else:
                other_name = name
                v2, p2 = las[name][::-1], plain[::-1]
            compare(ck, f"{name}({k}) {opn} {other_name}", lambda: OPS[opn](view, v2), lambda: OPS[opn](plain, p2),
                    dict(base, expr=f"view {opn} view({other_name})", raw=np.asarray(view.array).tolist(), finding_key="C10:scaled:arith_views"))
        elif kind == "arith":
            opn = ck.rng.choice(["+", "-", "*", "/"])
            c = ck.rng.choice([2, 0.5, -3.25, 10, np.float64(1.5), np.int32(7)])
            compare(ck, f"{name}({k}) {opn} {c!r}", lambda: OPS[opn](view, c), lambda: OPS[opn](plain, c), dict(base, expr=f"view {opn} {c!r}", finding_key="C10:scaled:arith"))
        elif kind == "reduce":
            fname = ck.rng.choice(["min", "max", "sum", "mean"])
            fn = getattr(np, fname)
            compare(ck, f"np.{fname}({name}({k}))", lambda: fn(view), lambda: fn(plain), dict(base, expr=f"np.{fname}(view)", finding_key="C10:scaled:reduce"))
        elif kind == "method":
            m = ck.rng.choice(["min", "max"])
            kw = ck.rng.choice([{}, {}, {"axis": 0}, {"axis": -1}, {"axis": 0, "keepdims": True}] if k > 1 else [{}, {"axis": 0}])
            compare(ck, f"{name}({k}).{m}({kw})", lambda: getattr(view, m)(**kw), lambda: getattr(plain, m)(**kw),
                    dict(base, expr=f"view.{m}(**{kw})", finding_key=f"C10:scaled:method:{'multi' if k > 1 else 'single'}"))
        elif kind == "index":
            kkind, key = c09.gen_key(ck.rng, n)
            if kkind in ("list", "list_dup") and ck.rng.random() < 0.5:
                # a plain Python list of point indices, often of length 2 or 3 (as many entries as an (index, element) pair has)
                key = [ck.rng.randrange(n) for _ in range(ck.rng.choice([2, 2, 3, 1, len(key) or 1]))]
                kkind = "pylist%d" % len(key)
            elif kkind in ("list", "list_dup", "mask"):
                key = np.asarray(key) if kkind != "mask" else key
                if kkind != "mask" and len(key) == 0:
                    key = np.array([], dtype=int)
            compare(ck, f"{name}({k})[{kkind}]", lambda: np.array(view[key]), lambda: plain[key], dict(base, expr=f"view[{key!r}]", finding_key="C10:scaled:index"))
        else:
            i = ck.rng.choice([ck.rng.randrange(n), slice(None), slice(0, n, 2), Ellipsis])
            j = ck.rng.choice([ck.rng.randrange(k), Ellipsis] + ([slice(0, 2)] if k > 2 else []))
            if i is Ellipsis and j is Ellipsis:
                j = 0
            key = (i, j)
            compare(ck, f"{name}({k})[{i!r}, {j!r}]", lambda: np.array(view[key]), lambda: plain[key],
                    dict(base, expr=f"view[{i!r}, {j!r}]", finding_key="C10:scaled:index_elem:" + ("ellipsis" if i is Ellipsis else "other")))
        ck.count("scaled:" + kind)
    ck.sample({"layer": "scaled", "example": "las.e2[:, 1], las.e3.min(), las.x[mask] * 2"})


def replay(inp):
    if inp.get("kind") == "cmp":
        import random
        rec = c09.new_record(inp["fmt"], 256, random.Random(0))
        cname, name, mask = next(x for x in c09.subfields(inp["fmt"]) if x[1] == inp["field"])
        rec.array[cname] = np.arange(256, dtype="u1")
        view, plain = rec[name], np.array(rec[name])
        c = inp["c"]
        cval = c if inp["operand"] == "int" else np.dtype(inp["operand"][3:]).type(c)
        op = OPS[inp["op"]]
        sv, vv = evaluate(lambda: op(view, cval))
        se, ev = evaluate(lambda: op(plain, cval))
        if sv == "ok" and se == "ok" and not same(vv, ev):
            return f"{name} {inp['op']} {inp['operand']}({c}) differs from numpy on the materialised field"
        return None
    return "RERUN"


def scaled_two_views_layer(ck, n_cases):
    """numpy functions that take two scaled views at once: two coordinates of one object, the same coordinate of two objects, two scaled extra
    dimensions - equal scales with different offsets, different scales with equal offsets, all different"""
    import laspy
    from laspy import ExtraBytesParams
    fns = {"concatenate": lambda a, b: np.concatenate([a, b]), "concatenate3": lambda a, b: np.concatenate([a, b, a]), "hstack": lambda a, b: np.hstack([a, b]),
           "stack": lambda a, b: np.stack([a, b]), "column_stack": lambda a, b: np.column_stack([a, b]), "maximum": np.maximum,
           "append": lambda a, b: np.append(a, b), "subtract": np.subtract, "vstack": lambda a, b: np.vstack([a, b])}
    for ci in range(n_cases):
        n = ck.rng.choice([1, 3, 6])
        rel = ["same_scales_other_offsets", "other_scales_same_offsets", "all_different", "same_scales_other_offsets"][ci % 4]
        s1 = ck.rng.choice([0.01, 0.5, 0.001])
        o1 = ck.rng.choice([0.0, 1000.0, -250.5])
        s2 = s1 if rel == "same_scales_other_offsets" else ck.rng.choice([x for x in (0.01, 0.5, 0.001, 2.0) if x != s1])
        o2 = o1 if rel == "other_scales_same_offsets" else ck.rng.choice([x for x in (0.0, 1000.0, -250.5, 4.0e6) if x != o1])
        pair = ["x_y", "x_x_two_objects", "extra_extra"][ci % 3]
        las = laspy.create(point_format=ck.rng.choice([0, 3, 6]))
        las.header.scales = np.array([s1, s2, 1.0])
        las.header.offsets = np.array([o1, o2, 0.0])
        las.add_extra_dims([ExtraBytesParams(name="ea", type="i4", scales=np.array([s1]), offsets=np.array([o1])),
                            ExtraBytesParams(name="eb", type="i4", scales=np.array([s2]), offsets=np.array([o2]))])
        las.points = laspy.ScaleAwarePointRecord.zeros(n, header=las.header)
        for d in ("X", "Y", "Z", "ea", "eb"):
            las.points.array[d] = np.array([ck.rng.randrange(-10**5, 10**5) for _ in range(n)], dtype="i4")
        if pair == "x_y":
            va, vb = las.x, las.y
        elif pair == "extra_extra":
            va, vb = las.ea, las.eb
        else:
            other = laspy.create(point_format=las.header.point_format.id)
            other.header.scales = np.array([s2, s2, 1.0])
            other.header.offsets = np.array([o2, o2, 0.0])
            other.points = laspy.ScaleAwarePointRecord.zeros(n, header=other.header)
            other.points.array["X"] = np.array([ck.rng.randrange(-10**5, 10**5) for _ in range(n)], dtype="i4")
            va, vb = las.x, other.x
        pa, pb = np.array(va), np.array(vb)
        fname = sorted(fns)[ci % len(fns)]
        base = {"kind": "scaled_two_views", "pair": pair, "relation": rel, "func": fname, "scales": [s1, s2], "offsets": [o1, o2],
                "raw": [np.asarray(va.array).tolist(), np.asarray(vb.array).tolist()]}
        ck.count("scaled_two_views:" + rel)
        compare(ck, f"np.{fname}({pair}: scales {s1}/{s2}, offsets {o1}/{o2})", lambda: fns[fname](va, vb), lambda: fns[fname](pa, pb),
                dict(base, finding_key="C10:scaled:two_views"))


def run(ck):
    ck.rule = ("differential against numpy on the materialised view. cmp layer (exhaustive, both tiers): every mask x 6 comparison "
               "operators x constants -3..max+3, 255, 256, +-2^31, 2^64, -2^70 as Python ints and as numpy scalars of every integer "
               "dtype that holds them, on all 256 bytes; seeded layers: sub-field views x 11 operators x scalar/array operands x "
               "8 numpy functions x index kinds; scaled x/y/z and 1-3 element scaled extra dimensions x arithmetic / reductions / "
               "min,max methods / point and element-position indexing. Expressions numpy itself rejects, or that raise on the view, "
               "are skipped and counted. non-trivial = the expression returned a result on both sides; distinct by expression+data")
    ck.regen()
    ck.lean_props("C10", THEOREMS)
    cmp_layer(ck)
    q = ck.tier == "quick"
    subfield_layer(ck, 1500 if q else 30000)
    kept_view_layer(ck, 60 if q else 1500)
    two_views_layer(ck, 150 if q else 3000)
    scaled_layer(ck, 800 if q else 12000)
    scaled_two_views_layer(ck, 72 if q else 1800)
    ck.failures.sort(key=lambda f: (f["input"]["kind"] != "cmp", abs(f["input"].get("c", 0))))
    if ck.tier == "thorough":
        ck.leanchecker(["LasModel.Props.C10"])
