"""C17 — the access path does not change what is read."""
import io
import logging
import mmap
import os
import shutil
import tempfile

import numpy as np

from .. import fileio as fio
from .. import streams as st
from . import c01, c08

THEOREMS = ["C17_no_seek", "C17_evlrs_sequential", "C17_mmap_frame"]


def read_via(kind, data, path, read_evlrs, chunked):
    """returns (canonical string of what was read, log or None)"""
    import laspy
    log = None
    if kind == "path":
        src = path
    elif kind == "bytes":
        src = data
    elif kind == "bytesio":
        src = io.BytesIO(data)
    elif kind == "buffered":
        src = open(path, "rb")
    elif kind == "readonly_iface":
        src = st.ReadOnlyInterface(data)
    elif kind == "no_readinto":
        src = st.NoReadintoStream(data)
    elif kind == "logged":
        src = st.LogStream(data)
    elif kind == "bare":
        src = st.BareReader(data)
    else:
        raise ValueError(kind)
    with laspy.open(src, read_evlrs=read_evlrs) as rd:
        if chunked:
            kept = [p for p in rd.chunk_iterator(3)]      # every piece is kept; looked at only after the last one was read
            las = rd.read()          # remaining (none) + deferred EVLRs
            parts = [p.array.tobytes() for p in kept]
            pts = b"".join(parts) + las.points.array.tobytes()
            out = c01.canon_read(las).rsplit(" # ", 2)
            n = len(pts) // max(las.header.point_format.size, 1)
            res = out[0] + f" # {n} {c08.hx(pts)} # " + out[2]
        else:
            res = c01.canon_read(rd.read())
    if hasattr(src, "log"):
        log = list(src.log)
    return res, log


def large_layer(ck, n_files):
    """files whose point block exceeds every internal block size (1 MiB): the sources that offer only read() and the
    seekable ones without readinto give the same records and EVLRs, whole and in large pieces"""
    import laspy
    for fi in range(n_files):
        minor, fmt = ck.rng.choice([(4, 6), (4, 7), (2, 1), (4, 1)])
        if fi == 0:
            minor, fmt = 4, 6           # on every seed: a file with EVLRs right after the point block
        size = laspy.PointFormat(fmt).size
        n = (1 << 20) // size + ck.rng.choice([1500, 7000, 40000])
        evlrs = [("verif", 3, "after the points", bytes(ck.rng.getrandbits(8) for _ in range(300)))] if minor >= 4 else None
        las = fio.make_las(ck.rng, minor, fmt, n, evlrs=evlrs, style="ones" if fi % 2 else "random")
        buf = io.BytesIO()
        las.write(buf)
        data = buf.getvalue()
        ref = laspy.read(io.BytesIO(data))
        want_pts = ref.points.array.tobytes()
        want_ev = [c08.canon(v) for v in (ref.evlrs or [])]
        for kind in ("readonly_iface", "no_readinto"):
            for how in ("whole", "two_pieces", "big_then_rest"):
                inp = {"kind": "large_access", "minor": minor, "fmt": fmt, "n": n, "source": kind, "how": how, "point_bytes": n * size}
                ck.case(("c17big", fi, kind, how), nontrivial=True)
                ck.count("large_access:" + kind)
                src = st.ReadOnlyInterface(data) if kind == "readonly_iface" else st.NoReadintoStream(data)
                try:
                    with laspy.open(src) as rd:
                        if how == "whole":
                            got = rd.read()
                            pts = got.points.array.tobytes()
                        else:
                            k1 = n // 2 if how == "two_pieces" else n - 11
                            p1 = rd.read_points(k1).array.tobytes()
                            if len(p1) != k1 * size:
                                ck.fail(f"large file through {kind} ({how}): read_points({k1}) returned {len(p1) // size} records", inp)
                            got = rd.read()
                            pts = p1 + got.points.array.tobytes()
                        ev = [c08.canon(v) for v in (got.evlrs or [])]
                except Exception as e:
                    ck.fail(f"large file through {kind} ({how}) raised {type(e).__name__}: {e}", inp)
                    continue
                if pts != want_pts:
                    k0 = next((i for i in range(0, min(len(pts), len(want_pts)), 4096) if pts[i:i + 4096] != want_pts[i:i + 4096]), min(len(pts), len(want_pts)))
                    ck.fail(f"large file through {kind} ({how}): {len(pts) // size} records, first difference near byte {k0} of the point block", inp)
                elif ev != want_ev:
                    ck.fail(f"large file through {kind} ({how}): EVLRs differ from the BytesIO read", inp)
                if kind == "readonly_iface" and any(c in ("seek", "tell") for c in src.log):
                    ck.fail("a non-seekable source was asked to seek or tell (large file)", inp)


def compressed_layer(ck, n_files, tmpdir):
    """compressed files (laspy's glue on the backend double, whose sequential decompressor reads ahead on a source that cannot seek, as the
    real one does, and whose parallel decompressor refuses such a source): the same header, VLRs, EVLRs and records through every access path"""
    import laspy
    import lazrs
    from laspy import LazBackend
    path = os.path.join(tmpdir, "c.laz")
    for fi in range(n_files):
        minor, fmt = fio.PAIRS[(7 * fi + 3) % len(fio.PAIRS)]
        n = [4, 11, 0, 23][fi % 4]
        evlrs = None
        if minor >= 4:
            evlrs = [None, fio.rand_vlrs(ck.rng, True, 2), [("verif_big", 10, "at least one read-ahead block", bytes((5 * i) % 241 for i in range(8192 + 17 * (fi % 3)))),
                                                             ("verif", 7, "after the big one", b"abc")]][fi % 3]
        if n == 0 and evlrs:
            evlrs = None            # zero points + EVLRs + compressed + non-seekable is the open finding of C14
        las = fio.make_las(ck.rng, minor, fmt, n, vlrs=fio.rand_vlrs(ck.rng, False, 1), evlrs=evlrs)
        lazrs.CHUNK_SIZE = ck.rng.choice([3, 5, 50])
        try:
            buf = io.BytesIO()
            las.write(buf, do_compress=True, laz_backend=LazBackend.Lazrs)
            data = buf.getvalue()
        except Exception as e:
            ck.fail(f"writing the compressed file raised {type(e).__name__}: {e}", {"kind": "access_compressed", "minor": minor, "fmt": fmt, "n": n})
            continue
        finally:
            lazrs.CHUNK_SIZE = 5
        with open(path, "wb") as f:
            f.write(data)
        nev = len(las.evlrs) if (minor >= 4 and las.evlrs) else 0
        base = {"kind": "access_compressed", "minor": minor, "fmt": fmt, "n": n, "evlrs": nev, "evlr_sizes": [len(v.record_data_bytes()) for v in (las.evlrs or [])] if minor >= 4 else []}
        ck.count("compressed_files")
        ref = None
        for kind in ("bytesio", "path", "bytes", "buffered", "readonly_iface", "no_readinto", "logged"):
            for read_evlrs in (True, False):
                for chunked in (False, True):
                    inp = dict(base, source=kind, read_evlrs=read_evlrs, chunked=chunked)
                    ck.case(("c17z", fi, kind, read_evlrs, chunked), nontrivial=(n > 0 or nev > 0))
                    try:
                        res, log = read_via(kind, data, path, read_evlrs, chunked)
                    except Exception as e:
                        ck.fail(f"compressed file: reading through {kind} (read_evlrs={read_evlrs}, chunked={chunked}) raised {type(e).__name__}: {e}", inp)
                        continue
                    if ref is None:
                        ref = res
                    elif res != ref:
                        k0 = next((i for i in range(min(len(res), len(ref))) if res[i] != ref[i]), -1)
                        ck.fail(f"compressed file: reading through {kind} (read_evlrs={read_evlrs}, chunked={chunked}) differs from BytesIO (first difference at char {k0}: "
                                f"...{res[max(0,k0-20):k0+30]} vs ...{ref[max(0,k0-20):k0+30]})", inp)
                    if kind == "readonly_iface" and log is not None and any(c in ("seek", "tell") for c in log):
                        ck.fail(f"compressed file: a non-seekable source was asked to {[c for c in log if c in ('seek', 'tell')][0]}", inp)


def run(ck):
    logging.getLogger("laspy").setLevel(logging.CRITICAL)
    import laspy
    ck.rule = ("for files of every legal (version, format) pair with 0..n points, with/without EVLRs: the same bytes read through "
               "{path, bytes, BytesIO, buffered file, read-only-interface stream, stream without readinto, logged seekable stream, "
               "memory map} x read_evlrs {True, False} x {whole read, chunked read} must give the same header, VLRs, EVLRs and "
               "point records; the non-seekable double must record no seek/tell; method-call logs (collapsed) are compared with the "
               "model's; edits through a memory map must change only the bytes of the assigned dimension (masked bits for "
               "sub-fields) and be visible to a subsequent read. non-trivial = file with points or EVLRs; distinct by (file, path)")
    ck.regen()
    ck.lean_props("C17", THEOREMS)
    q = ck.tier == "quick"
    tmpdir = tempfile.mkdtemp(prefix="verif_c17_")
    lines, meta = [], []
    try:
        path = os.path.join(tmpdir, "f.las")
        for fi in range(30 if q else 400):
            minor, fmt = fio.PAIRS[fi % len(fio.PAIRS)]
            n = ck.rng.choice([0, 0, 1, 4, 11])
            evlrs = fio.rand_vlrs(ck.rng, True, 2) if (minor >= 4 and ck.rng.random() < 0.7) else None
            if minor >= 4 and fi % 5 == 0:
                evlrs = [("verif", 7, "d", b"abc")]
                n = 0
            vl = fio.rand_vlrs(ck.rng, False, 1)
            flagged = minor >= 4 and fi % 6 == 1
            if fi % 7 == 3:
                # more than one memory page (4096 bytes) of VLRs before the first point, and of EVLRs after the last one
                vl = [("verif_big", 9, "more than a page", bytes((3 * i) % 251 for i in range(5000)))]
                if minor >= 4:
                    evlrs = [("verif_big", 10, "more than a page", bytes((5 * i) % 241 for i in range(6000)))]
                n = max(n, 4)
                ck.count("vlrs_and_evlrs_larger_than_a_page")
            if flagged:
                # a file without points whose (absent) points are flagged compressed: LasZip record among the VLRs, EVLRs present;
                # no decompressor is needed to read it (seekable sources only: the non-seekable case is the open finding of C14)
                n, evlrs = 0, [("verif", 7, "d", b"abc")]
                vl = vl + [("laszip encoded", 22204, "", bytes(34))]
                ck.count("flagged_compressed_without_points")
            las = fio.make_las(ck.rng, minor, fmt, n, vlrs=vl, evlrs=evlrs)
            buf = io.BytesIO()
            las.write(buf)
            data = buf.getvalue()
            if flagged:
                data = bytearray(data)
                data[104] |= 0x80
                data = bytes(data)
            with open(path, "wb") as f:
                f.write(data)
            nev = len(las.evlrs) if (minor >= 4 and las.evlrs) else 0
            base = {"kind": "access", "minor": minor, "fmt": fmt, "n": n, "evlrs": nev,
                    "finding_key": "C17:" + ("zero_points_evlrs" if (n == 0 and nev) else "")}
            ref = None
            for kind in ("bytesio", "path", "bytes", "buffered", "readonly_iface", "no_readinto", "logged", "bare"):
                if flagged and kind in ("readonly_iface", "bare"):
                    continue
                if kind == "bare" and nev:
                    continue        # with EVLRs laspy asks the source whether it can seek: an object without seekable() is outside (DESIGN section 8)
                for read_evlrs in (True, False):
                    for chunked in (False, True):
                        inp = dict(base, source=kind, read_evlrs=read_evlrs, chunked=chunked)
                        ck.case(("c17", fi, kind, read_evlrs, chunked), nontrivial=(n > 0 or nev > 0))
                        try:
                            res, log = read_via(kind, data, path, read_evlrs, chunked)
                        except Exception as e:
                            ck.fail(f"reading through {kind} (read_evlrs={read_evlrs}, chunked={chunked}) raised {type(e).__name__}: {e}", inp)
                            continue
                        if ref is None:
                            ref = res
                        elif res != ref:
                            k0 = next((i for i in range(min(len(res), len(ref))) if res[i] != ref[i]), -1)
                            ck.fail(f"reading through {kind} (read_evlrs={read_evlrs}, chunked={chunked}) differs from BytesIO (first difference at char {k0}: ...{res[max(0,k0-20):k0+30]} vs ...{ref[max(0,k0-20):k0+30]})", inp)
                        if kind == "readonly_iface" and log is not None and any(c in ("seek", "tell") for c in log):
                            ck.fail(f"a non-seekable source was asked to {[c for c in log if c in ('seek', 'tell')][0]}", inp)
                        if log is not None and not flagged and kind != "bare":
                            sk, ri = {"readonly_iface": (0, 0), "no_readinto": (1, 0), "logged": (1, 1)}[kind]
                            size = las.header.point_format.size
                            off = int.from_bytes(data[96:100], "little")
                            ops = (["p3"] * ((n + 2) // 3 + 1) + ["a"]) if chunked else ["a"]
                            lines.append(f"st read {sk} {ri} 1 1 1 1 {int(minor >= 4)} {n} {nev} {off} {size} 1 {int(read_evlrs)} " + " ".join(ops))
                            meta.append((inp, ",".join(st.collapse(log))))
            # ---- memory map
            inp = dict(base, source="mmap")
            if flagged:
                continue
            try:
                mm = laspy.mmap(path)
                try:
                    res = c01.canon_read(mm)
                    if ref is not None and res != ref:
                        k0 = next((i for i in range(min(len(res), len(ref))) if res[i] != ref[i]), -1)
                        ck.fail(f"memory map presents something different from a normal read (first difference at char {k0}: ...{res[max(0,k0-20):k0+40]} vs ...{ref[max(0,k0-20):k0+40]})",
                                dict(inp, finding_key="C17:mmap:" + ("evlrs" if nev else "")))
                    if n:
                        # edit one dimension through the map
                        dim = ck.rng.choice(["intensity", "user_data", "classification", "return_number", "X"])
                        before = bytes(data)
                        idx = ck.rng.randrange(n)
                        cur = int(np.array(mm[dim])[idx])
                        newv = (cur + 1) % 4 if dim in ("classification", "return_number") else (cur + 1) % 200
                        mm[dim][idx] = newv
                        mm.mmap.flush()
                        with open(path, "rb") as f:
                            after = f.read()
                        diff = [i for i in range(len(before)) if before[i] != after[i]]
                        size = las.header.point_format.size
                        off = int.from_bytes(data[96:100], "little")
                        dt = las.points.array.dtype
                        if dim in dt.names:
                            foff, w = dt.fields[dim][1], dt.fields[dim][0].itemsize
                        else:
                            comp = las.points.sub_fields_dict[dim][0]
                            foff, w = dt.fields[comp][1], 1
                        lo = off + idx * size + foff
                        if any(not (lo <= i < lo + w) for i in diff) or len(after) != len(before):
                            ck.fail(f"assigning {dim}[{idx}] through the memory map changed bytes {diff[:6]} outside [{lo}, {lo + w})", dict(inp, dim=dim))
                        again = laspy.read(path)
                        if int(np.array(again[dim])[idx]) != newv:
                            ck.fail(f"edit of {dim}[{idx}] through the memory map is not visible to a subsequent read", dict(inp, dim=dim))
                        others = [d for d in las.point_format.dimension_names if d != dim]
                        for d in others:
                            if np.array(again[d]).tobytes() != np.array(las[d]).tobytes():
                                ck.fail(f"editing {dim} through the memory map changed dimension {d}", dict(inp, dim=dim))
                                break
                        ck.count("mmap_edits")
                finally:
                    mm.close()
            except Exception as e:
                ck.fail(f"memory map path raised {type(e).__name__}: {e}", inp)
            if fi < 2:
                ck.sample(base)
        large_layer(ck, 1 if q else 6)
        compressed_layer(ck, 12 if q else 240, tmpdir)
    finally:
        shutil.rmtree(tmpdir, ignore_errors=True)
    out = ck.driver(lines)
    bad = None
    if out is None or len(out) != len(lines):
        bad = "driver did not run"
    else:
        for (inp, implog), o in zip(meta, out):
            mlog = ",".join(st.collapse(o.split("log=")[1].split(","))) if "log=" in o else o
            if mlog != implog and bad is None:
                bad = f"{inp}: model calls [{mlog}] impl calls [{implog}]"
    ck.oblige("correspondence streams/calls: model's stream method-call sequence == calls recorded by the doubles (collapsed)", "correspondence", bad is None, bad or "")
    ck.failures.sort(key=lambda f: len(str(f["input"])))
    if ck.tier == "thorough":
        ck.leanchecker(["LasModel.Props.C17"])
