"""C08 — VLRs and EVLRs are preserved verbatim and in order."""
import io
import logging
import string
import struct

THEOREMS = ["C08_header_len", "C08_record", "C08_oversize", "C08_oversize_list", "C08_framing", "C08_norm_idem",
            "C08_norm_identity", "C08_raw", "C08_factory_idem", "C08_classLookup_idem", "C08_norm_idem_all",
            "C08_factory_idem_all"]

PRINTABLE = (string.ascii_letters + string.digits + string.punctuation + " ").replace(":", "")
RESERVED = {("copc", 1), ("copc", 1000)}
KNOWN = [
    ("LASF_Spec", 0, "classLookup"), ("LASF_Spec", 4, "extraBytes"), ("LASF_Spec", 100, "waveform"),
    ("LASF_Spec", 355, "waveform"), ("LASF_Projection", 34735, "geoKeys"), ("LASF_Projection", 34736, "geoDoubles"),
    ("LASF_Projection", 34737, "geoAscii"), ("LASF_Projection", 2111, "wktMath"), ("LASF_Projection", 2112, "wktCs"),
]


def hx(b):
    return b.hex() if b else "-"


def rand_text(rng, n, alphabet=PRINTABLE):
    return "".join(rng.choice(alphabet) for _ in range(n))


def rand_bytes(rng, n):
    return bytes(rng.getrandbits(8) for _ in range(n))


def known_payload(rng, kind, malformed):
    if kind == "classLookup":
        n = rng.randrange(0, 5)
        out = b""
        ids = []
        for _ in range(n):
            cid = rng.choice(ids) if ids and rng.random() < 0.2 else rng.randrange(256)
            ids.append(cid)
            name = rand_text(rng, rng.randrange(0, 16), string.ascii_letters + string.digits + " _-.()/").encode()
            if rng.random() < 0.15:
                name = name[: rng.randrange(0, 8)] + b"\0" + rand_bytes(rng, 3)
            out += struct.pack("<B15s", cid, name[:15])
        if malformed:
            out += rand_bytes(rng, rng.randrange(1, 16)) if rng.random() < 0.5 else struct.pack("<B15s", 3, b"\xff\xfeabc")
        return out
    if kind == "extraBytes":
        return rand_bytes(rng, 192 * rng.randrange(0, 3) + (rng.randrange(1, 192) if malformed else 0))
    if kind == "waveform":
        return rand_bytes(rng, rng.randrange(0, 26) if malformed else rng.choice([26, 26, 27, 40]))
    if kind == "geoKeys":
        return rand_bytes(rng, rng.randrange(0, 8)) if malformed else struct.pack("<4H", rng.choice([1, 1, 2, 0]), rng.choice([1, 1, 0, 7]), rng.choice([0, 1, 1, 2, 65535]), rng.randrange(0, 9)) + rand_bytes(rng, rng.choice([0, 8, 16, 24, 13]))
    if kind == "geoDoubles":
        return rand_bytes(rng, 8 * rng.randrange(0, 4) + (rng.randrange(1, 8) if malformed else 0))
    if kind == "geoAscii":
        parts = [rand_text(rng, rng.randrange(0, 10)).encode() for _ in range(rng.randrange(0, 4))]
        p = b"\0".join(parts) if rng.random() < 0.7 else b"|".join(parts) + b"\0"
        return p + (b"\xff\xc3" if malformed else b"")
    # wkt
    p = rand_text(rng, rng.randrange(0, 40)).encode() + b"\0" * rng.randrange(0, 3)
    if rng.random() < 0.1:
        p = p[:3] + b"\0" + p[3:]
    return p + (b"\xff" if malformed else b"")


def gen_record(rng, ext, big=False):
    r = rng.random()
    if r < 0.45:
        uid, rid, kind = rng.choice(KNOWN)
        if kind == "waveform":
            rid = rng.randrange(100, 356)
        payload = known_payload(rng, kind, malformed=rng.random() < 0.3)
        ck = "known:" + kind
        if rng.random() < 0.12 and (uid, rid) != ("LASF_Spec", 4):
            # the ids of a known type spelled in another letter case: another user id, the record is kept as it is
            uid = rng.choice([uid.upper(), uid.lower(), uid.swapcase()])
            ck = "known_ids_other_case"
    else:
        ulen = rng.choice([0, 1, 5, 15, 16, 16, rng.randrange(0, 17)])
        uid = rand_text(rng, ulen)
        rid = rng.choice([0, 1, 65535, rng.randrange(65536)])
        if (uid, rid) in RESERVED or uid in ("LASF_Spec", "LASF_Projection", "laszip encoded"):
            uid = "x" + uid[:14]
        size = rng.choice([0, 0, 1, 7, 200, rng.randrange(0, 3000)])
        if big:
            size = rng.choice([65535, 65536, 70000]) if ext or rng.random() < 0.7 else 65535
        payload = rand_bytes(rng, size) if size < 5000 else bytes([rng.getrandbits(8)]) * size
        ck = "unknown"
    dlen = rng.choice([0, 1, 31, 32, 32, rng.randrange(0, 33)])
    desc = rand_text(rng, dlen)
    return (uid, rid, desc, payload), ck


def canon(v):
    d = v.description
    d = d.encode("ascii", "replace") if isinstance(d, str) else bytes(d)
    return (v.user_id.encode(), v.record_id, d, bytes(v.record_data_bytes()))


def content(v):
    """user-level content of a known record"""
    n = type(v).__name__
    if n == "ClassificationLookupVlr":
        return ("lookups", tuple(v.lookups.items()))
    if n == "GeoAsciiParamsVlr":
        return ("strings", tuple(v.strings))
    if n == "GeoDoubleParamsVlr":
        return ("doubles", tuple(bytes(d) for d in v.doubles))
    if n in ("WktCoordinateSystemVlr", "WktMathTransformVlr"):
        return ("string", v.string)
    if n == "WaveformPacketVlr":
        return ("struct", bytes(v.parsed_record))
    if n == "GeoKeyDirectoryVlr":
        return ("keys", bytes(v.geo_keys_header), tuple(bytes(k) for k in v.geo_keys))
    if n == "ExtraBytesVlr":
        return ("structs", tuple(bytes(s) for s in v.extra_bytes_structs))
    return ("raw", bytes(v.record_data_bytes()))


def impl_roundtrip(recs, ext):
    """returns ('ok', bytes, [canon], [content], [typenames]) or ('err', kind)"""
    from laspy.vlrs.vlrlist import VLRList
    from laspy import VLR
    vl = VLRList(VLR(u, r, d, p) for (u, r, d, p) in recs)
    buf = io.BytesIO()
    try:
        vl.write_to(buf, as_extended=ext)
    except ValueError as e:
        return ("err", "TooLong" if "exceeds" in str(e) else "Value:" + str(e)[:60])
    data = buf.getvalue()
    back = VLRList.read_from(io.BytesIO(data + b"RESTREST"), len(recs), extended=ext)
    return ("ok", data, [canon(v) for v in back], back)


def run(ck):
    logging.getLogger("laspy").setLevel(logging.CRITICAL)
    from laspy.vlrs.vlrlist import VLRList
    ck.rule = ("seeded lists of 0..6 records as VLR and as EVLR: user ids of every length 0..16 and descriptions of every length "
               "0..32 over printable ASCII, record ids incl. 0/65535, payloads empty/random/65,535/65,536/70,000 bytes; 45% of "
               "records carry ids of the known types with well-formed (70%) and malformed (30%) payloads; VLRList.write_to / "
               "read_from on the real classes vs the Lean model's encodeVlrs / decodeVlrs (bytes and parsed lists), plus the "
               "direct oracle (verbatim for unknown/unparsable, stable content for known); file-level round trip through "
               "LasData.write / laspy.read. non-trivial = at least one record; distinct by record list")
    ck.regen()
    ck.lean_props("C08", THEOREMS)
    n_cases = 250 if ck.tier == "quick" else 4000
    lines, meta = [], []
    for ci in range(n_cases):
        ext = ck.rng.random() < 0.5
        big = ci % 25 == 0
        n = ck.rng.choice([0, 1, 1, 2, 3, 6]) if not big else 1
        recs, kinds = [], []
        for _ in range(n):
            r, k = gen_record(ck.rng, ext, big=big)
            recs.append(r)
            kinds.append(k)
            ck.count("rec:" + k)
        if ci < 2 * 17:
            # systematic: every user-id length 0..16 / description length 0,2,..32
            L = ci % 17
            recs = [("U" * L, 7, "D" * (2 * L if 2 * L <= 32 else 32), b"xyz")]
            kinds = ["unknown"]
            ext = ci >= 17
        ck.count("ext" if ext else "vlr")
        ck.count("n=%d" % len(recs))
        res = impl_roundtrip(recs, ext)
        ck.case(("vlrs", ext, tuple(recs)), nontrivial=len(recs) > 0)
        too_long = (not ext) and any(len(r[3]) > 65535 for r in recs)
        inp = {"kind": "list", "ext": ext, "records": [[u, r, d, p.hex() if len(p) < 400 else f"{p[:1].hex()}*{len(p)}"] for (u, r, d, p) in recs]}
        enc_line = "vlr enc %d %s" % (ext, " ".join(f"{hx(u.encode())}:{r}:{hx(d.encode())}:{hx(p)}" for (u, r, d, p) in recs))
        lines.append(enc_line)
        if res[0] == "err":
            meta.append(("enc", inp, "err " + res[1]))
            if not too_long:
                ck.fail(f"writing a legal record list raised {res[1]}", inp)
            ck.count("refused_too_long")
            continue
        if too_long:
            ck.fail("an over-long VLR payload (> 65,535 bytes) was written instead of being refused", inp)
        _, data, back, objs = res
        meta.append(("enc", inp, "ok " + hx(data)))
        lines.append(f"vlr dec {int(ext)} {len(recs)} {hx(data + b'RESTREST')}")
        meta.append(("dec", inp, " ".join(f"{hx(u)}:{r}:{hx(d)}:{hx(p)}" for (u, r, d, p) in back) + " | 8"))
        # ---- direct oracle
        hdr = 60 if ext else 54
        if len(data) != sum(hdr + len(r[3]) for r in recs):
            ck.fail(f"written size {len(data)} != sum of (header {hdr} + payload)", inp)
        for i, ((u, r, d, p), b, o, k) in enumerate(zip(recs, back, objs, kinds)):
            fk = "C08:ids:" + ("uid16" if len(u) == 16 else "") + ("desc32" if len(d) == 32 else "")
            if b[0] != u.encode() or b[1] != r or b[2] != d.encode():
                ck.fail(f"record {i}: ids/description changed: wrote ({u!r}, {r}, {d!r}) read ({b[0]!r}, {b[1]}, {b[2]!r})", dict(inp, finding_key=fk))
            tname = type(o).__name__
            if tname == "VLR":
                if b[3] != p:
                    ck.fail(f"record {i} ({u},{r}): raw payload changed ({len(p)} -> {len(b[3])} bytes)", inp)
            else:
                ck.count("parsed:" + tname)
                # re-serialised payload must parse to the same content and re-serialise to itself
                vl2 = VLRList([o])
                buf2 = io.BytesIO()
                try:
                    vl2.write_to(buf2, as_extended=ext)
                    again = VLRList.read_from(io.BytesIO(buf2.getvalue()), 1, extended=ext)[0]
                except Exception as e:
                    ck.fail(f"record {i} ({tname}): re-serialising the parsed record raised {type(e).__name__}", inp)
                    continue
                if type(again).__name__ != tname or content(again) != content(o):
                    ck.fail(f"record {i} ({tname}): content changed after re-serialisation: {content(o)!r:.120} -> {content(again)!r:.120}", dict(inp, finding_key="C08:content:" + tname))
                if bytes(again.record_data_bytes()) != b[3]:
                    ck.fail(f"record {i} ({tname}): second serialisation differs from the first", inp)
                if tname in ("ExtraBytesVlr", "GeoDoubleParamsVlr", "GeoAsciiParamsVlr") and b[3] != p:
                    ck.fail(f"record {i} ({tname}): payload bytes changed", inp)
                if tname == "GeoKeyDirectoryVlr":
                    nk = (len(p) - 8) // 8
                    want = ("keys", p[:6] + struct.pack("<H", nk), tuple(p[8 + 8 * j:16 + 8 * j] for j in range(nk)))
                    if content(o) != want:
                        ck.fail(f"record {i}: GeoKey directory presented with header {content(o)[1].hex()} and {len(content(o)[2])} keys; the payload holds "
                                f"header {want[1].hex()} (version, revisions, number of keys) and {nk} keys", dict(inp, finding_key="C08:content:geokeys"))
                if tname == "WaveformPacketVlr" and content(o) != ("struct", p[:26]):
                    ck.fail(f"record {i}: waveform packet descriptor presented as {content(o)[1].hex()}, the payload holds {p[:26].hex()}", inp)
                if tname == "ClassificationLookupVlr":
                    exp = {}
                    try:
                        for cid, name in struct.iter_unpack("<B15s", p):
                            exp[cid] = name.split(b"\0")[0].decode()
                    except UnicodeDecodeError:
                        exp = None
                        ck.count("classlookup_undecodable_name")
                    except struct.error:
                        exp = None
                        ck.fail(f"record {i}: a {len(p)}-byte payload (not a whole number of 16-byte entries) was parsed as a classification lookup "
                                f"and is re-serialised as {len(bytes(o.record_data_bytes()))} bytes instead of being kept raw", inp)
                    if exp is not None and o.lookups != exp:
                        ck.fail(f"record {i}: classification lookup names changed: stored {exp!r:.100} presented {o.lookups!r:.100}", dict(inp, finding_key="C08:classlookup:names"))
        if ci < 3:
            ck.sample({"ext": ext, "records": inp["records"][:3]})
    out = ck.driver(lines)
    bad = None
    if out is None or len(out) != len(lines):
        bad = "driver did not run"
    else:
        for (what, inp, exp), o in zip(meta, out):
            if o != exp and bad is None:
                k = next((i for i in range(min(len(o), len(exp))) if o[i] != exp[i]), min(len(o), len(exp)))
                bad = f"{what} {str(inp)[:200]}: first difference at char {k}: model ...{o[max(0,k-20):k+20]} impl ...{exp[max(0,k-20):k+20]}"
    ck.oblige("correspondence codec/vlr: model encodeVlrs/decodeVlrs(+factory) == VLRList.write_to/read_from", "correspondence", bad is None, bad or "")
    file_level(ck, 40 if ck.tier == "quick" else 600)
    ck.failures.sort(key=lambda f: len(str(f["input"])))
    if ck.tier == "thorough":
        ck.leanchecker(["LasModel.Props.C08"])


def file_level(ck, n_cases):
    """VLRs and EVLRs attached to a file survive LasData.write / laspy.read in order"""
    import laspy
    from laspy import VLR
    from laspy.vlrs.vlrlist import VLRList
    for fi in range(n_cases):
        ver = ck.rng.choice(["1.2", "1.4", "1.4"])
        fmt = ck.rng.choice([0, 3] if ver == "1.2" else [0, 3, 6, 7])
        las = laspy.create(point_format=fmt, file_version=ver)
        recs = []
        for _ in range(ck.rng.randrange(0, 4)):
            (u, r, d, p), k = gen_record(ck.rng, False)
            if (u, r) == ("LASF_Spec", 4) or len(p) > 65535:
                continue
            recs.append((u, r, d, p))
        if fi < 4:
            # whatever the seed: a VLR block of more than 64 KiB before the first point (one maximal record; two large ones; many small ones)
            big = [[("verif_big", 1, "maximal payload", bytes((i * 3) & 0xFF for i in range(65535)))],
                   [("verif_big", 2, "first half", bytes((i * 5) & 0xFF for i in range(40000))), ("verif_big", 3, "second half", bytes((i * 7) & 0xFF for i in range(40000)))],
                   [("verif_many", 10 + j, f"record {j}", bytes([j]) * 1000) for j in range(70)],
                   [("verif_big", 4, "maximal", bytes([9]) * 65535), ("verif_big", 5, "maximal too", bytes([8]) * 65535)]][fi]
            recs = recs[:1] + big + recs[1:2]
            ck.count("vlr_block>64KiB")
        erecs = []
        if ver == "1.4":
            for _ in range(ck.rng.randrange(0, 3)):
                (u, r, d, p), k = gen_record(ck.rng, True)
                if (u, r) == ("LASF_Spec", 4):
                    continue
                erecs.append((u, r, d, p))
        if ver == "1.4" and ck.rng.random() < 0.15:
            # EVLR payloads have no 16-bit limit
            big = ck.rng.choice([65535, 65536, 70001])
            erecs.append(("verif_big", 77, "large payload", bytes((i * 7) & 0xFF for i in range(big))))
            ck.count("evlr_payload>=65535")
        # registered extra dimensions put a known-type record (LASF_Spec, 4) into the list: it keeps its place
        cut = ck.rng.randrange(0, len(recs) + 1) if ck.rng.random() < 0.4 else None
        if cut is None:
            las.vlrs.extend(VLR(*r) for r in recs)
        else:
            las.vlrs.extend(VLR(*r) for r in recs[:cut])
            las.add_extra_dim(laspy.ExtraBytesParams("alpha", ck.rng.choice(["u1", "f8", "3i2"])))
            las.vlrs.extend(VLR(*r) for r in recs[cut:])
            ck.count("with_extra_bytes_vlr_at:%d/%d" % (cut, len(recs)))
        ids_before = [(v.user_id, v.record_id) for v in las.vlrs]
        if ver == "1.4":
            las.evlrs = VLRList(VLR(*r) for r in erecs)
        if ck.rng.random() < 0.75:
            las.x = [1.0, 2.0]
        else:
            ck.count("file_without_points")       # VLRs and EVLRs of a file that holds no point
        buf = io.BytesIO()
        inp = {"kind": "file", "version": ver, "fmt": fmt, "vlrs": [[u, r, d, p.hex()[:200]] for u, r, d, p in recs], "evlrs": [[u, r, d, p.hex()[:200]] for u, r, d, p in erecs]}
        ck.case(("file", ver, fmt, tuple(recs), tuple(erecs)), nontrivial=bool(recs or erecs))
        compressed = False
        try:
            import lazrs
            compressed = ck.rng.random() < 0.35
        except ImportError:
            ck.count("no_backend_double")
        if compressed and len(las.points):
            las.x = [1.0 + i for i in range(ck.rng.choice([2, 2, 6, 11]))]
        try:
            if compressed:
                # the same lists through a compressed file (conforming backend double): the EVLRs sit after the compressed stream
                lazrs.CHUNK_SIZE = ck.rng.choice([3, 5])
                ck.count("file_roundtrips_compressed")
                inp["compressed"] = True
                las.write(buf, do_compress=True, laz_backend=laspy.LazBackend.Lazrs)
            else:
                las.write(buf)
            back = laspy.read(io.BytesIO(buf.getvalue()))
        except Exception as e:
            ck.fail(f"file round trip raised {type(e).__name__}: {e}", inp)
            continue
        finally:
            if compressed:
                lazrs.CHUNK_SIZE = 5
        # expected: what a direct VLRList round trip gives (normalisation of known types only)
        def expect(rs, ext):
            res = impl_roundtrip(rs, ext)
            return res[2]
        got_v = [canon(v) for v in back.vlrs]
        got_e = [canon(v) for v in (back.evlrs or [])]
        if cut is not None:
            ids_after = [(v.user_id, v.record_id) for v in back.vlrs]
            if ids_after != ids_before:
                ck.fail(f"VLR order changed through a file round trip: {ids_before} -> {ids_after}", dict(inp, extra_bytes_at=cut))
            got_v = [c for c in got_v if not (c[0] == b"LASF_Spec" and c[1] == 4)]
        if got_v != expect(recs, False):
            ck.fail(f"VLR list changed through a file round trip ({len(recs)} -> {len(got_v)} records)", inp)
        if got_e != expect(erecs, True):
            ck.fail(f"EVLR list changed through a file round trip ({len(erecs)} -> {len(got_e)} records)", inp)
        ck.count("file_roundtrips")
