"""C11 — scaled coordinates obey x = X*scale + offset and never wrap."""
import io
import logging
import warnings
from fractions import Fraction

import numpy as np

from .. import fileio as fio

THEOREMS = ["round_err", "round_bounds", "apply_remove_err", "C11_assign", "C11_refused", "C11_inv_step",
            "C11_present", "C11_write", "C11_stream"]
INT_MIN, INT_MAX = -2**31, 2**31 - 1


def fr(x):
    return Fraction(float(x))


def rat(q):
    q = Fraction(q)
    return f"{q.numerator}/{q.denominator}"


def rats(qs):
    return ",".join(rat(q) for q in qs)


class NearTie(Exception):
    pass


def round_half_even(q, guard=True):
    f = q.numerator // q.denominator
    d = q - f
    if guard and abs(d - Fraction(1, 2)) < Fraction(1, 10**5):
        # decimal stream: float noise decides near (and exactly at) a tie
        raise NearTie()
    if d < Fraction(1, 2):
        return f
    if d > Fraction(1, 2):
        return f + 1
    return f if f % 2 == 0 else f + 1


class Ref:
    """exact-rational reference of the property (used as oracle and to keep decimal cases away from ties)"""

    def __init__(self, hs, ho, cols, dyadic):
        self.hs, self.ho = list(hs), list(ho)
        self.rs, self.ro = list(hs), list(ho)
        self.alias_s = self.alias_o = False
        self.cols = [list(c) for c in cols]
        self.dyadic = dyadic

    def resolvable(self, s, o):
        """a double resolves the integer grid of this scaling only if |offset|/scale is moderate"""
        if not self.dyadic and abs(o) > s * 10**11:
            raise NearTie()

    def remove(self, s, o, v):
        self.resolvable(s, o)
        q = (v - o) / s
        if not self.dyadic and abs(q) > 10**7:
            # float evaluation of the quotient has an absolute error ~ |q| * 2^-52
            f = q - (q.numerator // q.denominator)
            if abs(f - Fraction(1, 2)) < Fraction(1, 1000):
                raise NearTie()
        return round_half_even(q, guard=not self.dyadic)

    def window(self, s, o, vs):
        lo, hi = INT_MIN * s + o, INT_MAX * s + o
        for v in vs:
            if not self.dyadic:
                for edge in (lo, hi):
                    if edge != 0 and abs(v - edge) < abs(edge) * Fraction(1, 10**6) + s:
                        raise NearTie()
        return all(lo <= v <= hi for v in vs)

    def assign(self, s, o, a, vs):
        if not self.window(s[a], o[a], vs):
            return False
        self.cols[a] = [self.remove(s[a], o[a], v) for v in vs]
        return True

    def rescale(self, ns, no):
        for a in range(3):
            self.resolvable(self.rs[a], self.ro[a])
        new = [[self.remove(ns[a], no[a], x * self.rs[a] + self.ro[a]) for x in self.cols[a]] for a in range(3)]
        for c in new:
            for x in c:
                if not self.dyadic and (abs(x - INT_MAX) < 3 or abs(x - INT_MIN) < 3):
                    raise NearTie()
        if not all(INT_MIN <= x <= INT_MAX for c in new for x in c):
            return None
        return new

    def step(self, op):
        k = op[0]
        if k == "hs":
            self.hs[op[1]] = op[2]
            if self.alias_s:
                self.rs = self.hs
            return True
        if k == "ho":
            self.ho[op[1]] = op[2]
            if self.alias_o:
                self.ro = self.ho
            return True
        if k == "HS":
            self.hs = list(op[1]); self.alias_s = False
            return True
        if k == "HO":
            self.ho = list(op[1]); self.alias_o = False
            return True
        if k == "al":
            # LasData.__setattr__ synchronises the record's scaling with the header's *before* the bounds check
            ok = self.assign(self.hs, self.ho, op[1], op[2])
            self.rs, self.ro = self.hs, self.ho
            self.alias_s = self.alias_o = True
            return ok
        if k == "ar":
            return self.assign(self.rs, self.ro, op[1], op[2])
        if k == "cs":
            ns = list(op[1]) if op[1] is not None else self.rs
            no = list(op[2]) if op[2] is not None else self.ro
            new = self.rescale(ns, no)
            if new is None:
                return False
            self.cols = new
            self.rs, self.ro = ns, no
            if op[1] is not None:
                self.hs = ns; self.alias_s = True
            if op[2] is not None:
                self.ho = no; self.alias_o = True
            return True
        raise ValueError(k)

    def write(self):
        if self.rs == self.hs and self.ro == self.ho:
            return [list(c) for c in self.cols]
        return self.rescale(self.hs, self.ho)


def tok(op):
    k = op[0]
    if k in ("hs", "ho"):
        return f"{k}:{op[1]}:{rat(op[2])}"
    if k in ("HS", "HO"):
        return f"{k}:{rats(op[1])}"
    if k in ("al", "ar"):
        return f"{k}:{op[1]}:{rats(op[2])}"
    return "cs:" + (rats(op[1]) if op[1] is not None else "-") + ":" + (rats(op[2]) if op[2] is not None else "-")


def apply_impl(las, op):
    """run one op on the real LasData; returns True / False (OverflowError)"""
    k = op[0]
    f = lambda q: float(q)
    try:
        if k == "hs":
            if op[3]:
                setattr(las.header, "xyz"[op[1]] + "_scale", f(op[2]))
            else:
                las.header.scales[op[1]] = f(op[2])
        elif k == "ho":
            if op[3]:
                setattr(las.header, "xyz"[op[1]] + "_offset", f(op[2]))
            else:
                las.header.offsets[op[1]] = f(op[2])
        elif k == "HS":
            las.header.scales = np.array([f(x) for x in op[1]])
        elif k == "HO":
            las.header.offsets = np.array([f(x) for x in op[1]])
        elif k == "al" and len(op) > 3:
            # the values come as a live scaled view of another object (las.x = other.x)
            setattr(las, "xyz"[op[1]], getattr(op[3], "xyz"[op[1]]))
        elif k == "al":
            setattr(las, "xyz"[op[1]], np.array([f(x) for x in op[2]]))
        elif k == "ar":
            setattr(las.points, "xyz"[op[1]], np.array([f(x) for x in op[2]]))
        else:
            las.change_scaling(scales=None if op[1] is None else np.array([f(x) for x in op[1]]),
                               offsets=None if op[2] is None else np.array([f(x) for x in op[2]]))
        return True
    except OverflowError:
        return False


def gen_scal(rng, dyadic):
    if dyadic:
        return [Fraction(1, 2 ** rng.choice([0, 1, 2, 3, 5, 10])) * rng.choice([1, 1, 2, 8]) for _ in range(3)], \
               [Fraction(rng.choice([0, 1, -8, 100, -1000, 2**20])) for _ in range(3)]
    sc, of = [], []
    for _ in range(3):
        s = rng.choice([0.01, 0.001, 0.1, 1.0, 0.5, 1e-7, 1e-9, 10.0, 1000.0])
        # keep |offset| / scale <= 1e11: beyond that a double cannot resolve the integer grid any more
        # (x = X*s + o loses the low bits of X) and "nearest representable integer" is not a float notion
        o = rng.choice([v for v in [0.0, 1000.0, -250.5, 1e6, -1e9, 123456.789, 17.25] if abs(v) / s <= 1e11])
        sc.append(fr(s)); of.append(fr(o))
    return sc, of


def gen_values(rng, s, o, n, dyadic):
    """finite coordinates inside, at the edges of and outside the representable window"""
    mode = rng.choice(["inside", "inside", "inside", "edge", "outside", "ties" if dyadic else "inside"])
    vals = []
    for _ in range(n):
        if mode == "inside":
            X = rng.randrange(-10**6, 10**6)
            frac = Fraction(rng.randrange(-3, 4), 8 if dyadic else 10)
        elif mode == "edge":
            X = rng.choice([INT_MAX, INT_MIN, INT_MAX - 1, INT_MIN + 1, INT_MAX - 5])
            frac = Fraction(0)
        elif mode == "ties":
            X = rng.randrange(-1000, 1000)
            frac = Fraction(1, 2)
        else:
            X = rng.choice([2 * INT_MAX, 3 * INT_MIN, INT_MAX + 10**6, INT_MIN - 10**6])
            frac = Fraction(0)
        v = (X + frac) * s + o
        vals.append(v if dyadic else fr(float(v)))
    return mode, vals


def value_dtype_layer(ck, n_cases):
    """coordinates given as float32 arrays (values exactly representable in float32): what is stored is the nearest integer of
    the value under the scaling, computed in double precision, or OverflowError - as for any other finite coordinates"""
    import laspy
    for ci in range(n_cases):
        s_ = ck.rng.choice([0.001, 0.01, 0.125, 0.5, 1.0])
        o_ = ck.rng.choice([0.0, 100.0, -2048.0])
        las = laspy.create(point_format=ck.rng.choice([0, 3, 6]))
        las.header.scales = np.array([s_, s_, s_])
        las.header.offsets = np.array([o_, o_, o_])
        n = 3
        las.points = laspy.ScaleAwarePointRecord.zeros(n, header=las.header)
        vals = np.array([ck.rng.choice([-2000000.125, 1048576.5, 21474836.0, -21474836.0, 3.25, 16777215.0, -0.375, 123456.75, 8388607.5]) for _ in range(n)], dtype=np.float32)
        ax = ck.rng.choice("xyz")
        exact = [(Fraction(float(v)) - Fraction(o_)) / Fraction(s_) for v in vals]
        inp = {"kind": "float32_values", "scale": s_, "offset": o_, "axis": ax, "values": [float(v) for v in vals]}
        ck.case(("f32", s_, o_, ax, tuple(inp["values"])), nontrivial=True)
        ck.count("float32_values")
        if any(abs(q - round(q)) == Fraction(1, 2) or abs(abs(q) - (2 ** 31 - 1)) < 4 or (abs(q) > 10 ** 7 and abs(abs(q - (q.numerator // q.denominator)) - Fraction(1, 2)) < Fraction(1, 100)) for q in exact):
            ck.count("float32_values_skipped_near_tie_or_edge")
            continue
        fits = all(-(2 ** 31) <= q <= 2 ** 31 - 1 for q in exact)
        before = las.points.array.tobytes()
        try:
            setattr(las, ax, vals)
            err = None
        except OverflowError:
            err = "Overflow"
        except Exception as e:
            err = type(e).__name__
        if not fits:
            if err != "Overflow":
                ck.fail(f"float32 coordinates {inp['values']} (scale {s_}, offset {o_}) do not fit 32 bits but the assignment "
                        f"{'succeeded' if err is None else 'raised ' + err}: stored {las.points.array[ax.upper()].tolist()}", inp)
            elif las.points.array.tobytes() != before:
                ck.fail("refused float32 assignment modified the record", inp)
            continue
        if err is not None:
            ck.fail(f"float32 coordinates {inp['values']} (scale {s_}, offset {o_}) fit but the assignment raised {err}", inp)
            continue
        try:
            want = [int(round_half_even(q)) for q in exact]
        except NearTie:
            ck.count("float32_values_skipped_near_tie_or_edge")
            continue
        got = las.points.array[ax.upper()].astype(np.int64).tolist()
        if got != want:
            ck.fail(f"float32 coordinates {inp['values']} (scale {s_}, offset {o_}): stored {got}, the nearest representable integers are {want}", inp)


def integer_scaling_probe(ck):
    """fixed cases: a scaling given with Python ints (lists of ints, as a caller writing `scales=[2, 2, 2]` does). The
    coordinates presented are X*scale+offset, also when that exceeds 32 bits"""
    import laspy
    for how in ("LasData.change_scaling", "record constructor", "record.change_scaling"):
        X = [1500000000, -1400000000, 5]
        inp = {"kind": "integer_scaling", "how": how, "scales": [2, 2, 2], "offsets": [0, 0, 0], "X": X, "finding_key": "C11:integer_scaling"}
        ck.case(("intscale", how), nontrivial=True)
        ck.count("integer_scaling_probe")
        try:
            if how == "LasData.change_scaling":
                las = laspy.create(point_format=0)
                las.points = laspy.ScaleAwarePointRecord.zeros(3, header=las.header)
                las.change_scaling(scales=[2, 2, 2], offsets=[0, 0, 0])
                las.points.array["X"] = X
                pres = np.array(las.x)
            elif how == "record constructor":
                rec = laspy.ScaleAwarePointRecord.zeros(3, point_format=laspy.PointFormat(0), scales=[2, 2, 2], offsets=[0, 0, 0])
                rec.array["X"] = X
                pres = np.array(rec.x)
            else:
                rec = laspy.ScaleAwarePointRecord.zeros(3, point_format=laspy.PointFormat(0), scales=np.array([1.0, 1.0, 1.0]), offsets=np.zeros(3))
                rec.change_scaling(scales=[2, 2, 2], offsets=[0, 0, 0])
                rec.array["X"] = X
                pres = np.array(rec.x)
        except Exception as e:
            ck.count("integer_scaling_probe_raised:" + type(e).__name__)
            continue
        want = [2 * v for v in X]
        if [int(v) for v in pres.tolist()] != want:
            ck.fail(f"scaling given as Python ints ({how}, scales [2, 2, 2], offsets [0, 0, 0]): stored X {X} is presented as "
                    f"{pres.tolist()}, X*scale+offset is {want} (the product wrapped in 32 bits)", inp)


def integer_offsets_assign_probe(ck):
    """fixed cases: offsets (and scales) given as Python ints, values assigned as numpy arrays of narrow integer types: the stored integers are the
    nearest to (value - offset) / scale - the subtraction must not be carried out in the values' own (8 / 16 bit, unsigned) type"""
    import laspy
    for dt in ("u1", "i1", "u2", "i2", "u4"):
        for how in ("LasData.change_scaling", "record constructor"):
            for scales, offsets in (([0.01, 0.01, 0.01], [0, 10, 15]), ([1, 1, 1], [300, 10, -7]), ([2, 2, 2], [0, 1000, 0])):
                vals = np.array([5, 7, 100], dtype=dt)
                inp = {"kind": "integer_offsets_assign", "how": how, "value_dtype": dt, "scales": scales, "offsets": offsets, "values": vals.tolist()}
                ck.case(("intoffsets", how, dt, str(scales), str(offsets)), nontrivial=True)
                ck.count("integer_offsets_assign_probe")
                try:
                    if how == "LasData.change_scaling":
                        las = laspy.create(point_format=0)
                        las.points = laspy.ScaleAwarePointRecord.zeros(3, header=las.header)
                        las.change_scaling(scales=scales, offsets=offsets)
                        las.y = vals
                        Y, pres = las.points.array["Y"].tolist(), np.array(las.y).tolist()
                    else:
                        rec = laspy.ScaleAwarePointRecord.zeros(3, point_format=laspy.PointFormat(0), scales=scales, offsets=offsets)
                        rec.y = vals
                        Y, pres = rec.array["Y"].tolist(), np.array(rec.y).tolist()
                except OverflowError:
                    ck.count("integer_offsets_assign_probe_overflow")
                    continue
                except Exception as e:
                    ck.count("integer_offsets_assign_probe_raised:" + type(e).__name__)
                    continue
                from fractions import Fraction
                want = [int(round_half_even((Fraction(int(v)) - Fraction(offsets[1])) / Fraction(str(scales[1])), guard=False)) for v in vals.tolist()]
                if Y != want:
                    ck.fail(f"y = array({vals.tolist()}, dtype={np.dtype(dt).name}) under scales {scales}, offsets {offsets} (given as Python numbers, {how}): stored Y {Y}, "
                            f"the nearest integers to (y - offset) / scale are {want}; presented back as {pres}", inp)


def stream_layer(ck, n_cases):
    """scale-aware records streamed into a writer or an appender that uses another scaling: the file carries the
    destination's scaling, its coordinates are those the record presented (to within half a step) or the call raises
    OverflowError, and the caller's record is exactly as it was - also when it is streamed twice"""
    import laspy
    from laspy.laswriter import LasWriter
    for ci in range(n_cases):
        fmt = ck.rng.choice([0, 3, 6])
        n = ck.rng.choice([1, 2, 5])
        rs = [ck.rng.choice([0.5, 0.25, 1.0, 2.0]) for _ in range(3)]
        ro = [ck.rng.choice([0.0, 16.0, -8.0, 1024.0]) for _ in range(3)]
        ds = [ck.rng.choice([0.5, 0.125, 1.0, 4.0]) for _ in range(3)]
        do = [ck.rng.choice([0.0, -32.0, 64.0, 4096.0]) for _ in range(3)]
        pf = laspy.PointFormat(fmt)
        rec = laspy.ScaleAwarePointRecord.zeros(n, point_format=pf, scales=np.array(rs), offsets=np.array(ro))
        for d in "XYZ":
            rec.array[d] = np.array([ck.rng.choice([0, 1, -1, 12345, -99999, ck.rng.randrange(-10**6, 10**6), 2**31 - 1]) for _ in range(n)], dtype="i4")
        dest = ck.rng.choice(["writer", "appender"])
        twice = ck.rng.random() < 0.4
        inp = {"kind": "stream", "dest": dest, "fmt": fmt, "rec_scales": rs, "rec_offsets": ro, "dest_scales": ds, "dest_offsets": do,
               "XYZ": [rec.array[d].tolist() for d in "XYZ"], "twice": twice}
        ck.case(("stream", dest, fmt, tuple(rs), tuple(ro), tuple(ds), tuple(do), rec.array.tobytes(), twice), nontrivial=True)
        ck.count("stream:" + dest)
        snap = (rec.array.tobytes(), rec.scales.tobytes(), rec.offsets.tobytes())
        want = [np.array(rec.x), np.array(rec.y), np.array(rec.z)]
        hdr = laspy.LasHeader(point_format=fmt, version="1.4" if fmt >= 6 else "1.2")
        hdr.scales, hdr.offsets = np.array(ds), np.array(do)
        buf = io.BytesIO()
        overflow = False
        try:
            if dest == "writer":
                with LasWriter(buf, hdr, closefd=False) as w:
                    w.write_points(rec)
                    if twice:
                        if ci % 2:
                            # the caller goes on using the header it opened the writer with (the next tile): edits made in place now
                            # are not the open file's business
                            hdr.offsets[0] += 1000.0
                            hdr.scales[1] *= 2.0
                            hdr.z_offset = hdr.z_offset - 64.0
                            ck.count("stream:callers_header_edited_in_place_during_session")
                        w.write_points(rec)
            else:
                laspy.LasData(hdr).write(buf)
                buf.seek(0)
                with laspy.open(buf, mode="a", closefd=False) as ap:
                    ap.append_points(rec)
                    if twice:
                        ap.append_points(rec)
        except OverflowError:
            overflow = True
            ck.count("stream_overflow")
        except Exception as e:
            ck.fail(f"streaming scale-aware records into a {dest} with another scaling raised {type(e).__name__}: {e}", inp)
            continue
        if (rec.array.tobytes(), rec.scales.tobytes(), rec.offsets.tobytes()) != snap:
            ck.fail(f"streaming into a {dest} that uses another scaling{' (refused: OverflowError)' if overflow else ''} modified the caller's record "
                    f"(X now {rec.array['X'].tolist()}, scales {rec.scales.tolist()}, offsets {rec.offsets.tolist()})", dict(inp, finding_key="C11:stream:pure"))
        fits = all(np.all(np.abs((want[a] - do[a]) / ds[a]) <= 2**31 - 1) for a in range(3))
        if overflow:
            if fits:
                ck.fail(f"streaming into a {dest} raised OverflowError although every coordinate is representable under the destination's scaling", inp)
            continue
        if not fits:
            ck.fail(f"streaming into a {dest}: a coordinate is not representable under the destination's scaling but no OverflowError was raised", inp)
            continue
        back = laspy.read(io.BytesIO(buf.getvalue()))
        if [float(x) for x in back.header.scales] != ds or [float(x) for x in back.header.offsets] != do:
            ck.fail(f"file written by the {dest} does not carry the destination's scaling", inp)
        got = [np.array(back.x), np.array(back.y), np.array(back.z)]
        reps = 2 if twice else 1
        for a in range(3):
            exp = np.concatenate([want[a]] * reps)
            if len(got[a]) != len(exp) or np.any(np.abs(got[a] - exp) > ds[a] / 2):
                ck.fail(f"streamed coordinates on axis {a}: presented {exp.tolist()} stored {got[a].tolist()} (destination step {ds[a]})", inp)
                break


class _FailingDest(io.BytesIO):
    """a destination whose k-th write raises OSError"""

    def __init__(self, k, data=b""):
        super().__init__(data)
        self.k = k
        self.n = 0

    def write(self, b):
        self.n += 1
        if self.n == self.k:
            raise OSError("destination failed")
        return super().write(b)


def stream_views_layer(ck, n_cases):
    """the record handed to a writer / appender with another scaling is a view of a larger record (a slice, a strided slice) or the destination
    fails while taking the points: whatever the outcome - written, refused, failed - the caller's records (the view and the record it is a view of)
    are exactly as they were"""
    import laspy
    from laspy.laswriter import LasWriter
    for ci in range(n_cases):
        fmt = [0, 3, 6][ci % 3]
        how = ["slice", "strided", "failing_dest", "slice", "strided_same_scaling"][ci % 5]
        dest = ["writer", "appender"][(ci // 5) % 2]
        n = 6
        rs = [ck.rng.choice([0.5, 0.25, 2.0]) for _ in range(3)]
        ro = [ck.rng.choice([0.0, 16.0, -8.0]) for _ in range(3)]
        ds = [ck.rng.choice([0.125, 1.0, 4.0]) for _ in range(3)]
        do = [ck.rng.choice([-32.0, 64.0, 4096.0]) for _ in range(3)]
        if how == "strided_same_scaling":
            ds, do = rs, ro
        pf = laspy.PointFormat(fmt)
        parent = laspy.ScaleAwarePointRecord.zeros(n, point_format=pf, scales=np.array(rs), offsets=np.array(ro))
        for d in "XYZ":
            parent.array[d] = np.array([ck.rng.randrange(-10**5, 10**5) for _ in range(n)], dtype="i4")
        rec = parent[1:4] if how in ("slice", "failing_dest") else parent[::2]
        inp = {"kind": "stream_view", "how": how, "dest": dest, "fmt": fmt, "rec_scales": rs, "rec_offsets": ro, "dest_scales": ds, "dest_offsets": do,
               "XYZ": [parent.array[d].tolist() for d in "XYZ"]}
        ck.case(("stream_view", how, dest, fmt, tuple(rs), tuple(ro), tuple(ds), tuple(do), parent.array.tobytes()), nontrivial=True)
        ck.count("stream_view:" + how)
        snap = (parent.array.tobytes(), parent.scales.tobytes(), parent.offsets.tobytes(), rec.array.tobytes(), rec.scales.tobytes(), rec.offsets.tobytes())
        want = [np.array(rec.x), np.array(rec.y), np.array(rec.z)]
        hdr = laspy.LasHeader(point_format=fmt, version="1.4" if fmt >= 6 else "1.2")
        hdr.scales, hdr.offsets = np.array(ds), np.array(do)
        outcome = "written"
        try:
            if dest == "writer":
                buf = _FailingDest(2 if how == "failing_dest" else 0)      # write 1: header and VLRs; write 2: the points
                with LasWriter(buf, hdr, closefd=False) as w:
                    w.write_points(rec)
            else:
                b0 = io.BytesIO()
                laspy.LasData(hdr).write(b0)
                buf = _FailingDest(1 if how == "failing_dest" else 0, b0.getvalue())
                with laspy.open(buf, mode="a", closefd=False) as ap:
                    ap.append_points(rec)
        except Exception as e:
            outcome = type(e).__name__
        ck.count("stream_view_outcome:" + outcome)
        now = (parent.array.tobytes(), parent.scales.tobytes(), parent.offsets.tobytes(), rec.array.tobytes(), rec.scales.tobytes(), rec.offsets.tobytes())
        if now != snap:
            which = "the record it is a view of" if now[:3] != snap[:3] else "the view"
            ck.fail(f"a {how} of a scale-aware record streamed into a {dest} that uses "
                    f"{'the same' if how == 'strided_same_scaling' else 'another'} scaling (outcome: {outcome}): {which} was modified "
                    f"(parent X now {parent.array['X'].tolist()}, scales {parent.scales.tolist()}, offsets {parent.offsets.tolist()})", inp)
            continue
        if how == "failing_dest" and outcome != "OSError":
            ck.fail(f"the destination's failure did not surface (outcome {outcome})", inp)
        if outcome == "written":
            back = laspy.read(io.BytesIO(buf.getvalue()))
            got = [np.array(back.x), np.array(back.y), np.array(back.z)]
            for a in range(3):
                if len(got[a]) != len(want[a]) or np.any(np.abs(got[a] - want[a]) > ds[a] / 2):
                    ck.fail(f"streamed {how}: coordinates on axis {a}: presented {want[a].tolist()} stored {got[a].tolist()} (destination step {ds[a]})", inp)
                    break


def kept_view_and_xyz_layer(ck, n_cases):
    """(1) a coordinate view kept by the caller presents X*scale+offset of the integers stored NOW, also after they were changed by another route;
    (2) several coordinates assigned at once (las.xyz = v, las[["x", "y", "z"]] = v, record[("x", "y")] = v): column j goes to coordinate j, also when
    the matrix is square"""
    import laspy
    for ci in range(n_cases):
        fmt = [0, 3, 6][ci % 3]
        sc = [ck.rng.choice([0.5, 0.25, 2.0]) for _ in range(3)]
        of = [ck.rng.choice([0.0, 16.0, -8.0, 1024.0]) for _ in range(3)]
        hdr = laspy.LasHeader(point_format=fmt, version="1.4" if fmt >= 6 else "1.2")
        hdr.scales, hdr.offsets = np.array(sc), np.array(of)
        las = laspy.LasData(hdr)
        if ci % 2 == 0:
            n = ck.rng.choice([2, 5])
            las.points = laspy.ScaleAwarePointRecord.zeros(n, header=hdr)
            for d in "XYZ":
                las.points.array[d] = np.array([ck.rng.randrange(-10**5, 10**5) for _ in range(n)], dtype="i4")
            ax = ck.rng.randrange(3)
            d = "xyz"[ax]
            kept = getattr(las, d)
            first = np.array(kept).tolist()
            new_int = np.array([ck.rng.randrange(-10**5, 10**5) for _ in range(n)], dtype="i4")
            route = ["raw_array", "upper_case_attr", "scaled_assign", "second_view", "record_item"][(ci // 2) % 5]
            if route == "raw_array":
                las.points.array[d.upper()][:] = new_int
            elif route == "upper_case_attr":
                setattr(las, d.upper(), new_int)
            elif route == "scaled_assign":
                setattr(las, d, new_int.astype(np.float64) * sc[ax] + of[ax])
            elif route == "second_view":
                getattr(las, d)[:] = new_int.astype(np.float64) * sc[ax] + of[ax]
            else:
                las.points[d.upper()] = new_int
            want = (las.points.array[d.upper()].astype(np.int64) * sc[ax] + of[ax]).tolist()
            inp = {"kind": "kept_scaled_view", "fmt": fmt, "axis": d, "route": route, "scales": sc, "offsets": of, "first_look": first, "stored_now": las.points.array[d.upper()].tolist()}
            ck.case(("kept_scaled_view", fmt, d, route, tuple(sc), tuple(of), tuple(first), tuple(new_int.tolist())), nontrivial=True)
            ck.count("kept_scaled_view:" + route)
            for label, got in (("np.array(view)", lambda: np.array(kept).tolist()), ("view[0]", lambda: [float(kept[0])]), ("view.max()", lambda: [float(kept.max())])):
                try:
                    g = got()
                except Exception as e:
                    ck.fail(f"a kept view of {d} after the integers were changed ({route}): {label} raised {type(e).__name__}: {e}", inp)
                    break
                w = want if label == "np.array(view)" else [want[0]] if label == "view[0]" else [max(want)]
                if g != w:
                    ck.fail(f"a view of las.{d} kept by the caller, after the stored integers were changed by another route ({route}): {label} presents {g}, "
                            f"X*scale+offset of the integers stored now is {w}", inp)
                    break
        else:
            how = ["las.xyz", "las[names]", "record[names]", "las.xyz"][(ci // 2) % 4]
            k = 2 if how == "record[names]" and ci % 4 == 1 else 3
            n = [k, k, 5, 1][(ci // 8) % 4]               # square matrices first
            las.points = laspy.ScaleAwarePointRecord.zeros(n, header=hdr)
            ints = [[ck.rng.randrange(-10**5, 10**5) for _ in range(k)] for _ in range(n)]
            if n == k and all(ints[i][j] == ints[j][i] for i in range(k) for j in range(k)):
                ints[0][k - 1] += 1
            vals = np.array([[ints[i][j] * sc[j] + of[j] for j in range(k)] for i in range(n)], dtype=np.float64)
            names = ["x", "y", "z"][:k]
            inp = {"kind": "coordinates_at_once", "fmt": fmt, "how": how, "n": n, "names": names, "scales": sc, "offsets": of, "values": vals.tolist()}
            ck.case(("coords_at_once", fmt, how, n, k, tuple(sc), tuple(of), str(ints)), nontrivial=True)
            ck.count("coordinates_at_once:" + ("square" if n == k else "tall"))
            try:
                if how == "las.xyz" and k == 3:
                    las.xyz = vals
                elif how == "record[names]":
                    las.points[tuple(names)] = vals
                else:
                    las[names] = vals
            except Exception as e:
                ck.fail(f"{how} = {n}x{k} matrix raised {type(e).__name__}: {e}", inp)
                continue
            got = [[int(las.points.array[nm.upper()][i]) for nm in names] for i in range(n)]
            if got != ints:
                ck.fail(f"{how} = v with v of shape ({n}, {k}) (one column per coordinate): stored integers {got}, the nearest representable integers of the columns are {ints}", inp)


def run(ck):
    logging.getLogger("laspy").setLevel(logging.CRITICAL)
    warnings.simplefilter("ignore")
    import laspy
    ck.rule = ("histories (length <= 12) of {in-place header scale/offset edits via item and via property, header array "
               "rebinding, las.x/y/z assignment, las.points.x/y/z assignment, change_scaling with/without scales/offsets} on "
               "a real LasData, followed by LasData.write and a re-read. Dyadic stream (scales 2^-k, integer offsets, values "
               "incl. exact rounding ties): every stored integer, the record scaling, every accept/OverflowError outcome and "
               "the written integers must equal the exact-rational model. Decimal stream (0.01, 0.001, 1e-7, ...): same, with "
               "histories whose exact quotients come within 1e-5 of a tie or of the int32 window edge skipped and counted. "
               "Direct oracle: las.x == X*scale+offset elementwise (bit patterns) after every step; written file carries the "
               "header scaling and coordinates within half a step of those presented before; caller unchanged by the write")
    ck.regen()
    ck.lean_props("C11", THEOREMS)
    q = ck.tier == "quick"
    lines, meta = [], []
    skipped = 0
    for hi in range(260 if q else 6000):
        dyadic = ck.rng.random() < 0.55
        hs, ho = gen_scal(ck.rng, dyadic)
        n = ck.rng.choice([1, 2, 4])
        las = laspy.create(point_format=ck.rng.choice([0, 3, 6]))
        las.header.scales = np.array([float(x) for x in hs])
        las.header.offsets = np.array([float(x) for x in ho])
        las.points = laspy.ScaleAwarePointRecord.zeros(n, header=las.header)
        cols = [[ck.rng.randrange(-10**5, 10**5) for _ in range(n)] for _ in range(3)]
        for a, d in enumerate("XYZ"):
            las.points.array[d] = np.array(cols[a], dtype="i4")
        ref = Ref(hs, ho, cols, dyadic)
        ops, flags = [], []
        inp = {"kind": "history", "dyadic": dyadic, "scales": [str(x) for x in hs], "offsets": [str(x) for x in ho], "cols": cols, "ops": []}
        try:
            steps = ck.rng.randrange(1, 13)
            final_near = ck.rng.random() < 0.3
            for si in range(steps):
                k = ck.rng.choice(["hs", "ho", "HS", "HO", "al", "al", "ar", "cs", "cs"])
                if final_near and si == steps - 1:
                    # the last step re-binds the header's scales or offsets to values *nearly* equal to the current ones
                    # (relative difference below 1e-5): the record keeps the old scaling, so the writer must rescale
                    k = ck.rng.choice(["HS", "HO"])
                    if k == "HO" and dyadic and not any(abs(c) >= 10 ** 5 for c in ref.ho):
                        k = "HS"        # a tiny offset change is not exact in float64 for large coordinates: decimal stream only
                    if k == "HS":
                        vec = [c * Fraction(2 ** 18 + 1, 2 ** 18) for c in ref.hs]
                    else:
                        vec = [c + (3 if abs(c) >= 10 ** 5 else (0 if dyadic else Fraction(1, 2 ** 30))) for c in ref.ho]
                    op = (k, vec if dyadic else [fr(float(v)) for v in vec])
                    ck.count("final_near_equal_rebind")
                elif k in ("hs", "ho"):
                    a = ck.rng.randrange(3)
                    v = gen_scal(ck.rng, dyadic)[0 if k == "hs" else 1][a]
                    if ck.rng.random() < 0.3:
                        # a scaling that is *nearly* the current one (relative difference below 1e-5): still a different
                        # scaling, the writer must rescale
                        cur = (ref.hs if k == "hs" else ref.ho)[a]
                        if k == "hs":
                            v = cur * Fraction(2 ** 18 + 1, 2 ** 18)
                        else:
                            v = cur + (3 if abs(cur) >= 10 ** 5 else (0 if dyadic else Fraction(1, 2 ** 30)))
                        v = v if dyadic else fr(float(v))
                        ck.count("near_equal_header_edit")
                    op = (k, a, v, ck.rng.random() < 0.5)
                elif k in ("HS", "HO"):
                    op = (k, gen_scal(ck.rng, dyadic)[0 if k == "HS" else 1])
                elif k == "al" and ck.rng.random() < 0.3:
                    # las.x = other.x: the coordinates of another object, given as its scaled view; that object has the same
                    # scale on this axis (mostly) and another offset, or another scale
                    a = ck.rng.randrange(3)
                    s2 = ref.hs[a] if ck.rng.random() < 0.7 else gen_scal(ck.rng, dyadic)[0][a]
                    o2 = ref.ho[a] + ck.rng.choice([0, 1, -3, 64, 500000, -1024]) if ck.rng.random() < 0.8 else gen_scal(ck.rng, dyadic)[1][a]
                    other = laspy.create(point_format=0)
                    osc, oof = [1.0, 1.0, 1.0], [0.0, 0.0, 0.0]
                    osc[a], oof[a] = float(s2), float(o2)
                    other.header.scales, other.header.offsets = np.array(osc), np.array(oof)
                    other.points = laspy.ScaleAwarePointRecord.zeros(n, header=other.header)
                    other.points.array["XYZ"[a]] = np.array([ck.rng.randrange(-10**5, 10**5) for _ in range(n)], dtype="i4")
                    vals = [Fraction(float(v)) for v in np.array(getattr(other, "xyz"[a]))]
                    op = ("al", a, vals, other)
                    ck.count("assign_from_view_of_another_object:" + ("same_scale" if s2 == ref.hs[a] else "other_scale"))
                elif k in ("al", "ar"):
                    a = ck.rng.randrange(3)
                    s_, o_ = (ref.hs, ref.ho) if k == "al" else (ref.rs, ref.ro)
                    mode, vals = gen_values(ck.rng, s_[a], o_[a], n, dyadic)
                    op = (k, a, vals)
                    ck.count("assign_mode:" + mode)
                else:
                    ns, no = gen_scal(ck.rng, dyadic)
                    op = ("cs", ns if ck.rng.random() < 0.7 else None, no if ck.rng.random() < 0.6 else None)
                want = ref.step(op)
                got = apply_impl(las, op)
                ops.append(op)
                flags.append(got)
                inp["ops"].append(tok(op))
                ck.count("op:" + k)
                ck.count("outcome:" + ("ok" if got else "OverflowError"))
                fk = "C11:" + k + (":overflow" if not want else "")
                if got != want:
                    ck.fail(f"step {len(ops)} {tok(op)[:80]}: implementation {'accepted' if got else 'raised OverflowError'}, "
                            f"exact model {'accepts' if want else 'refuses (value not representable in 32 bits)'}", dict(inp, finding_key=fk))
                    raise StopIteration
                # direct oracle after every step: presented == X*scale+offset, stored == exact model
                for a, d in enumerate("xyz"):
                    X = las.points.array[d.upper()].astype(np.int64)
                    pres = np.array(getattr(las, d))
                    expect = X * las.points.scales[a] + las.points.offsets[a]
                    if pres.tobytes() != np.asarray(expect, dtype=np.float64).tobytes():
                        ck.fail(f"step {len(ops)}: las.{d} is not X*scale+offset of the stored integers", inp)
                    if X.tolist() != ref.cols[a]:
                        ck.fail(f"step {len(ops)} {tok(op)[:80]}: stored {d.upper()} {X.tolist()} != nearest representable integers {ref.cols[a]}", dict(inp, finding_key=fk))
                        raise StopIteration
                # every way the object presents its coordinates: las.xyz, las.points.x/y/z, las["x"]
                xyz = np.asarray(las.xyz)
                for a, d in enumerate("xyz"):
                    col = np.asarray(las.points.array[d.upper()].astype(np.int64) * las.points.scales[a] + las.points.offsets[a], dtype=np.float64)
                    for label, got in (("las.xyz[:, %d]" % a, xyz[:, a] if xyz.ndim == 2 else None), ("las.points." + d, np.array(getattr(las.points, d))),
                                       ("las['%s']" % d, np.array(las[d]))):
                        if got is None or np.asarray(got, dtype=np.float64).tobytes() != col.tobytes():
                            ck.fail(f"step {len(ops)} {tok(op)[:80]}: {label} is not X*scale+offset of the stored integers under the record's current scaling "
                                    f"(presents {None if got is None else np.asarray(got).tolist()[:4]}, X*scale+offset = {col.tolist()[:4]})", inp)
                            raise StopIteration
            # ---- write
            want_w = ref.write()
            snap = fio.snapshot(las)
            pres_before = [np.array(getattr(las, d)).copy() for d in "xyz"]
            buf = io.BytesIO()
            try:
                las.write(buf)
                wrote = True
            except OverflowError:
                wrote = False
            if fio.snapshot(las) != snap:
                ck.fail("LasData.write modified the caller's records or header", dict(inp, finding_key="C11:write:pure"))
            if wrote != (want_w is not None):
                ck.fail(f"write {'succeeded' if wrote else 'raised OverflowError'} but the exact model says the coordinates "
                        f"{'cannot' if want_w is None else 'can'} be represented under the header's scaling", dict(inp, finding_key="C11:write:overflow"))
                raise StopIteration
            wline = "W:overflow"
            if wrote:
                back = laspy.read(io.BytesIO(buf.getvalue()))
                got_cols = [back.points.array[d].astype(np.int64).tolist() for d in "XYZ"]
                wline = "W:" + ";".join(",".join(map(str, c)) for c in got_cols)
                if [fr(x) for x in back.header.scales] != [Fraction(float(x)) for x in las.header.scales] or \
                        [fr(x) for x in back.header.offsets] != [Fraction(float(x)) for x in las.header.offsets]:
                    ck.fail("written file does not carry the header's scaling", inp)
                if got_cols != want_w:
                    ck.fail(f"written integers {got_cols} != nearest representable {want_w}", dict(inp, finding_key="C11:write:values"))
                for a, d in enumerate("xyz"):
                    err = np.abs(np.array(getattr(back, d)) - pres_before[a])
                    tol = float(las.header.scales[a]) / 2 * (1 + 1e-9) + abs(float(las.header.offsets[a])) * 1e-15 + 1e-300
                    if np.any(err > tol):
                        ck.fail(f"written {d} differs from the presented coordinates by more than half a step", inp)
            ck.case(("c11", dyadic, tuple(inp["ops"]), tuple(map(tuple, cols))), nontrivial=any(o[0] in ("al", "ar", "cs") for o in ops))
            st_cols = ";".join(",".join(map(str, las.points.array[d].astype(np.int64).tolist())) for d in "XYZ")
            lines.append(f"sc run {rats(hs)} {rats(ho)} " + " ".join(",".join(map(str, c)) for c in cols) + " " + " ".join(tok(o) for o in ops))
            exp = f"{''.join('1' if f else '0' for f in flags) or '-'} {st_cols} {rats(fr(x) for x in las.points.scales)} {rats(fr(x) for x in las.points.offsets)} {wline}"
            meta.append((inp, exp))
            if len(ck.samples) < 3:
                ck.sample(inp)
        except NearTie:
            skipped += 1
        except StopIteration:
            pass
    ck.count("skipped_near_tie", skipped)
    stream_layer(ck, 60 if q else 1500)
    stream_views_layer(ck, 30 if q else 600)
    kept_view_and_xyz_layer(ck, 40 if q else 800)
    integer_scaling_probe(ck)
    integer_offsets_assign_probe(ck)
    value_dtype_layer(ck, 80 if q else 2000)
    out = ck.driver(lines)
    bad = None
    if out is None or len(out) != len(lines):
        bad = "driver did not run"
    else:
        for (inp, exp), o in zip(meta, out):
            if o != exp and bad is None:
                bad = f"{str(inp)[:300]}: model '{o[:200]}' impl '{exp[:200]}'"
    ck.oblige("correspondence lasdata/scaling: exact-rational model (step/run/writeOut) == real LasData histories", "correspondence", bad is None, bad or "")
    ck.failures.sort(key=lambda f: len(f["input"].get("ops", [])))
    if ck.tier == "thorough":
        ck.leanchecker(["LasModel.Props.C11"])
