"""C07 — header fields survive serialisation; layout arithmetic exact; no incompatible pair."""
import io
import logging
import struct
from datetime import date, timedelta

import numpy as np

from . import c08

THEOREMS = ["C07_base_sizes", "C07_roundtrip", "C07_inplace", "C07_date", "C07_string32", "C07_compat_mkHeader",
            "C07_compat_setVersion", "C07_compat_setFormat", "C07_compat_setBoth", "C07_compat_convert",
            "C07_compat_writer", "C07_table"]

SPEC_COMPAT = {1: [0, 1], 2: [0, 1, 2, 3], 3: [0, 1, 2, 3, 4, 5], 4: list(range(11))}
SPEC_SIZE = {1: 227, 2: 227, 3: 235, 4: 375}
hx = c08.hx


def dbits(x):
    return struct.unpack("<Q", struct.pack("<d", x))[0]


def from_bits(b):
    return struct.unpack("<d", struct.pack("<Q", b))[0]


def rand_double_bits(rng):
    k = rng.random()
    if k < 0.15:
        return rng.choice([0, 1 << 63, 0x7FF0000000000000, 0xFFF0000000000000, 0x7FF8000000000001, 0xFFF800000000BEEF,
                           0x7FF0000000000001, 0x7FEFFFFFFFFFFFFF, 1, 0x3FF0000000000000])
    if k < 0.5:
        return dbits(rng.choice([0.01, 0.001, 1e-9, 1e3, -1e9, 123456.789, 2.5]))
    return rng.getrandbits(64)


def rand_date(rng):
    k = rng.random()
    if k < 0.3:
        y = rng.choice([1, 4, 100, 400, 1900, 2000, 2023, 2024, 9999])
        return rng.choice([date(y, 1, 1), date(y, 12, 31), date(y, 2, 28), date(y, 3, 1)] + ([date(y, 2, 29)] if (y % 4 == 0 and y % 100 != 0) or y % 400 == 0 else []))
    return date.min + timedelta(days=rng.randrange((date.max - date.min).days + 1))


def gen_header(rng, big_padding=False):
    """a real LasHeader with boundary-heavy legal field values, plus the model's argument line"""
    import laspy
    from laspy.header import GlobalEncoding, LasHeader, Version
    from laspy.vlrs.vlrlist import VLRList
    from laspy import VLR
    from uuid import UUID
    minor = rng.choice([1, 2, 3, 4])
    fmt = rng.choice(SPEC_COMPAT[minor])
    h = LasHeader(version=Version(1, minor), point_format=fmt)
    h.file_source_id = rng.choice([0, 1, 65535, rng.randrange(65536)])
    h.global_encoding = GlobalEncoding(rng.choice([0, 1, 17, 0xFFFF, rng.randrange(65536)]))
    guid = c08.rand_bytes(rng, 16)
    h.uuid = UUID(bytes_le=guid)
    sysid = c08.rand_text(rng, rng.choice([0, 1, 5, 31, 32, 32, rng.randrange(33)]), c08.PRINTABLE + ":")
    soft = c08.rand_text(rng, rng.choice([0, 1, 31, 32, 32, rng.randrange(33)]), c08.PRINTABLE + ":")
    if rng.random() < 0.2:
        # fixed-width text ending in blanks (and blanks only): kept as given
        sysid = rng.choice(["trailing blank ", "two blanks  ", " ", "x" * 31 + " "])
        soft = rng.choice(["laspy copy ", "  ", "y" * 30 + "  "])
    h.system_identifier = sysid
    h.generating_software = soft
    d = rand_date(rng)
    h.creation_date = d
    maxc = 2**32 - 1 if minor <= 3 else 2**64 - 1
    h.point_count = rng.choice([0, 1, 255, 256, 65536, maxc, rng.randrange(maxc + 1)])
    wid = 2**32 if minor < 4 else 2**64
    rets = [rng.choice([0, 1, wid - 1, rng.randrange(wid)]) for _ in range(15)]
    if minor < 4:
        rets[5:] = [0] * 10
    h.number_of_points_by_return = np.array(rets, dtype=np.uint64)
    dbl = [rand_double_bits(rng) for _ in range(12)]
    h.scales = np.frombuffer(struct.pack("<3Q", *dbl[0:3]), dtype="<f8").copy()
    h.offsets = np.frombuffer(struct.pack("<3Q", *dbl[3:6]), dtype="<f8").copy()
    # file order: max x, min x, max y, min y, max z, min z
    h.maxs = np.frombuffer(struct.pack("<3Q", dbl[6], dbl[8], dbl[10]), dtype="<f8").copy()
    h.mins = np.frombuffer(struct.pack("<3Q", dbl[7], dbl[9], dbl[11]), dtype="<f8").copy()
    wave = rng.choice([0, 1, 2**64 - 1, rng.getrandbits(64)]) if minor >= 3 else 0
    evlr = rng.choice([0, 1, 2**64 - 1, rng.getrandbits(64)]) if minor >= 4 else 0
    nevlr = rng.choice([0, 1, 2**32 - 1, rng.getrandbits(32)]) if minor >= 4 else 0
    h.start_of_waveform_data_packet_record = wave
    h.start_of_first_evlr = evlr
    h.number_of_evlrs = nevlr
    xh = c08.rand_bytes(rng, rng.choice([0, 0, 1, 7, 300, rng.randrange(301)]))
    xv = c08.rand_bytes(rng, rng.choice([0, 0, 1, 2, 300, rng.randrange(301)]))
    if big_padding:
        # more than 64 KiB between the header and the first point: the offset to point data needs its four bytes
        xv = bytes([rng.getrandbits(8)]) * rng.choice([66000, 70000, 140000])
    h.extra_header_bytes = xh
    h.extra_vlr_bytes = xv
    recs = []
    for _ in range(rng.choice([0, 0, 1, 2, 3])):
        (u, r, dsc, p), k = c08.gen_record(rng, False)
        if k != "unknown" or len(p) > 65535:
            continue
        recs.append((u, r, dsc, p))
    h._vlrs = VLRList(VLR(*r) for r in recs)
    compressed = rng.random() < 0.2
    h.are_points_compressed = compressed
    fields = dict(fsid=h.file_source_id, ge=h.global_encoding.value, guid=guid, vmaj=1, vmin=minor, sys=sysid.encode(),
                  soft=soft.encode(), doy=d.timetuple().tm_yday, year=d.year, fmt=fmt | (0x80 if compressed else 0),
                  reclen=h.point_format.size, count=h.point_count, ret=rets, dbl=dbl, wave=wave, evlr=evlr, nevlr=nevlr,
                  xh=xh, xv=xv, vlrs=recs, date=d)
    return h, fields


def model_args(f, ensure=0, old=0):
    return " ".join([str(f["fsid"]), str(f["ge"]), hx(f["guid"]), str(f["vmaj"]), str(f["vmin"]), hx(f["sys"]), hx(f["soft"]),
                     str(f["doy"]), str(f["year"]), str(f["fmt"]), str(f["reclen"]), str(f["count"]),
                     ",".join(map(str, f["ret"])), ",".join(map(str, f["dbl"])), str(f["wave"]), str(f["evlr"]), str(f["nevlr"]),
                     hx(f["xh"]), hx(f["xv"]), str(ensure), str(old)] +
                    [f"{hx(u.encode())}:{r}:{hx(d.encode())}:{hx(p)}" for (u, r, d, p) in f["vlrs"]])


def as_bytes(s):
    return s.encode("ascii", "replace") if isinstance(s, str) else bytes(s)


def impl_decode(data):
    """LasHeader.read_from -> canonical string in the model's `hdr dec` format (without the date), or err"""
    from laspy.header import LasHeader
    from laspy.errors import LaspyException
    try:
        h = LasHeader.read_from(io.BytesIO(data))
    except LaspyException as e:
        m = str(e)
        kind = ("Empty" if "empty" in m else "Signature" if "signature" in m else "TooSmall" if "to small" in m else
                "HeaderSize" if "header size" in m else "Offset" if "offset to point" in m else "Laspy:" + m[:40])
        return "err " + kind, None
    except Exception as e:
        return "exc " + type(e).__name__, None
    dbl = [dbits(float(h.scales[i])) for i in range(3)] + [dbits(float(h.offsets[i])) for i in range(3)]
    for i in range(3):
        dbl += [dbits(float(h.maxs[i])), dbits(float(h.mins[i]))]
    fmt = h.point_format.id | (0x80 if h.are_points_compressed else 0)
    parts = [str(h.file_source_id), str(h.global_encoding.value), hx(h.uuid.bytes_le), str(h.version.major), str(h.version.minor),
             hx(as_bytes(h.system_identifier)), hx(as_bytes(h.generating_software)), "DOY", "YEAR", str(fmt), "RECLEN",
             str(h.point_count), ",".join(str(int(x)) for x in h.number_of_points_by_return), ",".join(map(str, dbl)),
             str(h.start_of_waveform_data_packet_record), str(h.start_of_first_evlr), str(h.number_of_evlrs),
             hx(h.extra_header_bytes), hx(h.extra_vlr_bytes), str(len(h.vlrs))]
    parts += [f"{hx(u)}:{r}:{hx(d)}:{hx(p)}" for (u, r, d, p) in (c08.canon(v) for v in h.vlrs)]
    return "ok " + " ".join(parts), h


def mask_model(line):
    """blank the fields the impl-side canonical form cannot show (raw doy/year/reclen)"""
    if not line.startswith("ok "):
        return line, None
    p = line.split(" ")
    doy, year, reclen = p[8], p[9], p[11]
    p[8], p[9], p[11] = "DOY", "YEAR", "RECLEN"
    return " ".join(p), (int(doy), int(year), int(reclen))


FIXED_DATES = [date(2024, 12, 31), date(2020, 12, 31), date(2000, 12, 31), date(2024, 2, 29), date(2023, 12, 31), date(1900, 12, 31), date(2024, 1, 1), date(1, 1, 1),
               date(9999, 12, 31), date(2400, 12, 31)]


def codec_layer(ck, n_cases):
    from laspy.header import LasHeader
    lines, meta = [], []
    KEPT = []
    for ci in range(n_cases):
        h, f = gen_header(ck.rng, big_padding=(ci in (len(FIXED_DATES), len(FIXED_DATES) + 1)))
        if ci < len(FIXED_DATES):
            # whatever the seed: the last day of leap years (day 366), leap days, first and last days
            f["date"] = FIXED_DATES[ci]
            f["doy"], f["year"] = FIXED_DATES[ci].timetuple().tm_yday, FIXED_DATES[ci].year
            h.creation_date = FIXED_DATES[ci]
        inp = {"kind": "header", "fields": {k: (v.hex() if isinstance(v, bytes) else str(v) if k in ("date",) else v) for k, v in f.items() if k != "vlrs"},
               "vlrs": [[u, r, d, p.hex()[:100]] for u, r, d, p in f["vlrs"]]}
        ck.case(("hdr", model_args(f)), nontrivial=True)
        ck.count("minor=%d" % f["vmin"])
        buf = io.BytesIO()
        try:
            h.write_to(buf)
        except Exception as e:
            ck.fail(f"writing a legal header raised {type(e).__name__}: {e}", inp)
            continue
        data = buf.getvalue()
        lines.append("hdr enc " + model_args(f))
        meta.append(("enc", inp, "ok " + hx(data)))
        # ---- direct oracle: size arithmetic and field-wise round trip
        expect_size = SPEC_SIZE[f["vmin"]] + len(f["xh"]) + sum(54 + len(r[3]) for r in f["vlrs"]) + len(f["xv"])
        if len(data) != expect_size:
            ck.fail(f"header occupies {len(data)} bytes, expected {expect_size}", inp)
        if h.offset_to_point_data != len(data) or int.from_bytes(data[96:100], "little") != len(data):
            ck.fail(f"offset to point data {h.offset_to_point_data} / {int.from_bytes(data[96:100], 'little')} != header+VLR bytes {len(data)}", inp)
        if int.from_bytes(data[94:96], "little") != SPEC_SIZE[f["vmin"]] + len(f["xh"]):
            ck.fail("header size field is not version size + extra header bytes", inp)
        junk = c08.rand_bytes(ck.rng, ck.rng.choice([0, 5, 64]))
        dec, h2 = impl_decode(data + junk)
        lines.append("hdr dec " + hx(data + junk))
        meta.append(("dec", inp, dec))
        if h2 is None:
            ck.fail(f"reading back a written header failed: {dec}", inp)
            continue
        # the header read back before this one is still alive: it must not have changed
        if KEPT:
            hk, bits_k, inp_k = KEPT.pop()
            now_k = ([dbits(float(x)) for x in hk.scales], [dbits(float(x)) for x in hk.offsets], [dbits(float(x)) for x in hk.maxs], [dbits(float(x)) for x in hk.mins],
                     hk.global_encoding.value, [int(x) for x in hk.number_of_points_by_return], hk.point_format.id, len(hk.vlrs))
            if now_k != bits_k:
                which = [n_ for n_, a_, b_ in zip(("scales", "offsets", "maxs", "mins", "global_encoding", "returns", "point_format", "vlrs"), now_k, bits_k) if a_ != b_]
                ck.fail(f"a header read back earlier changed ({', '.join(which)}) when another header was read", dict(inp, earlier=inp_k))
        KEPT.append((h2, ([dbits(float(x)) for x in h2.scales], [dbits(float(x)) for x in h2.offsets], [dbits(float(x)) for x in h2.maxs], [dbits(float(x)) for x in h2.mins],
                          h2.global_encoding.value, [int(x) for x in h2.number_of_points_by_return], h2.point_format.id, len(h2.vlrs)), inp))
        checks = [
            ("file_source_id", h2.file_source_id, f["fsid"]), ("global_encoding", h2.global_encoding.value, f["ge"]),
            ("uuid", h2.uuid.bytes_le, f["guid"]), ("version", (h2.version.major, h2.version.minor), (1, f["vmin"])),
            ("system_identifier", as_bytes(h2.system_identifier), f["sys"]), ("generating_software", as_bytes(h2.generating_software), f["soft"]),
            ("creation_date", h2.creation_date, f["date"]), ("point_count", h2.point_count, f["count"]),
            ("returns", [int(x) for x in h2.number_of_points_by_return], f["ret"]),
            ("scales", [dbits(float(x)) for x in h2.scales], f["dbl"][0:3]), ("offsets", [dbits(float(x)) for x in h2.offsets], f["dbl"][3:6]),
            ("maxs", [dbits(float(x)) for x in h2.maxs], [f["dbl"][6], f["dbl"][8], f["dbl"][10]]),
            ("mins", [dbits(float(x)) for x in h2.mins], [f["dbl"][7], f["dbl"][9], f["dbl"][11]]),
            ("waveform", h2.start_of_waveform_data_packet_record, f["wave"]), ("evlr_start", h2.start_of_first_evlr, f["evlr"]),
            ("n_evlrs", h2.number_of_evlrs, f["nevlr"]), ("extra_header_bytes", h2.extra_header_bytes, f["xh"]),
            ("extra_vlr_bytes", h2.extra_vlr_bytes, f["xv"]), ("offset", h2.offset_to_point_data, len(data)),
            ("vlrs", [c08.canon(v) for v in h2.vlrs], [(u.encode(), r, d.encode(), p) for u, r, d, p in f["vlrs"]]),
            ("format", h2.point_format.id, f["fmt"] & 0x3F), ("compressed", h2.are_points_compressed, bool(f["fmt"] & 0x80)),
        ]
        for name, got, want in checks:
            if got != want:
                ck.fail(f"header field {name} not reproduced: wrote {want!r:.80} read {got!r:.80}", dict(inp, field=name))
        # ---- the same header through a writer session (no points): everything that is not a statistic of the points
        # or the EVLR pointer is carried to the file
        if not (f["fmt"] & 0x80) and ck.rng.random() < 0.5:
            ck.count("header_through_writer")
            try:
                from laspy.laswriter import LasWriter
                wb = io.BytesIO()
                LasWriter(wb, h, closefd=False).close()
                hw_ = LasHeader.read_from(io.BytesIO(wb.getvalue()))
                kept = [
                    ("file_source_id", hw_.file_source_id, f["fsid"]), ("global_encoding", hw_.global_encoding.value, f["ge"]),
                    ("uuid", hw_.uuid.bytes_le, f["guid"]), ("version", (hw_.version.major, hw_.version.minor), (1, f["vmin"])),
                    ("system_identifier", as_bytes(hw_.system_identifier), f["sys"]), ("generating_software", as_bytes(hw_.generating_software), f["soft"]),
                    ("creation_date", hw_.creation_date, f["date"]),
                    ("scales", [dbits(float(x)) for x in hw_.scales], f["dbl"][0:3]), ("offsets", [dbits(float(x)) for x in hw_.offsets], f["dbl"][3:6]),
                    ("waveform", hw_.start_of_waveform_data_packet_record, f["wave"]), ("extra_header_bytes", hw_.extra_header_bytes, f["xh"]),
                    ("extra_vlr_bytes", hw_.extra_vlr_bytes, f["xv"]), ("offset", hw_.offset_to_point_data, len(data)),
                    ("vlrs", [c08.canon(v) for v in hw_.vlrs], [(u.encode(), r, d.encode(), p) for u, r, d, p in f["vlrs"]]),
                    ("format", hw_.point_format.id, f["fmt"] & 0x3F), ("point_count", hw_.point_count, 0),
                ]
                for name, got, want in kept:
                    if got != want:
                        ck.fail(f"header field {name} not carried through a writer session: header had {want!r:.80}, the file has {got!r:.80}",
                                dict(inp, field=name, through="LasWriter"))
            except Exception as e:
                ck.fail(f"a writer session on a legal header raised {type(e).__name__}: {e}", inp)
        # ---- in-place rewrite with other statistics keeps the size (same-size guard must not fire)
        h.point_count = ck.rng.randrange(2**32)
        h.maxs = np.array([1.5, 2.5, 3.5])
        h.start_of_first_evlr = 12345 if f["vmin"] >= 4 else 0
        buf2 = io.BytesIO()
        try:
            h.write_to(buf2, ensure_same_size=True)
            if len(buf2.getvalue()) != len(data):
                ck.fail("rewriting the header with new statistics changed its size", inp)
        except Exception as e:
            ck.fail(f"in-place rewrite of an updated header raised {type(e).__name__}: {e}", inp)
        # ---- a header whose size changed since it was written (shorter or longer) must not be rewritten in place:
        # the offset to point data never changes under an in-place rewrite
        try:
            import laspy
            how = ck.rng.choice(["shorter_padding", "pop_vlr", "longer_padding", "add_vlr"])
            if how == "shorter_padding" and len(h.extra_vlr_bytes) > 0:
                h.extra_vlr_bytes = h.extra_vlr_bytes[:-1]
            elif how == "pop_vlr" and len(h.vlrs) > 0:
                h.vlrs.pop()
            elif how == "longer_padding":
                h.extra_vlr_bytes = bytes(h.extra_vlr_bytes) + b"\0\0"
            elif how == "add_vlr":
                h.vlrs.append(laspy.VLR("verif", 1, "", b"abc"))
            else:
                how = None
            if how is not None:
                ck.count("resized_then_inplace:" + how)
                buf3 = io.BytesIO()
                try:
                    h.write_to(buf3, ensure_same_size=True)
                    ck.fail(f"a header that changed size ({how}) was rewritten in place: offset to point data "
                            f"{int.from_bytes(buf3.getvalue()[96:100], 'little')} instead of {len(data)}", dict(inp, resized=how))
                except laspy.errors.LaspyException:
                    pass
        except Exception as e:
            ck.fail(f"in-place rewrite of a resized header raised {type(e).__name__}: {e}", inp)
        if ci < 2:
            ck.sample({"header": inp["fields"]})
    return lines, meta


def appender_inplace_layer(ck, n_cases):
    """the in-place rewrite of the header by an append session: when the session's header no longer serialises to the size it has in the file
    (the user dropped or added a VLR on appender.header), the rewrite is refused and the offset to point data in the file stays what it was"""
    import laspy
    from laspy.errors import LaspyException
    from .. import fileio as fio
    for ci in range(n_cases):
        minor, fmt = fio.PAIRS[(3 * ci) % len(fio.PAIRS)]
        vl = [("verif", 1, "first", b"a" * 40), ("verif", 2, "second", b"b" * 200)]
        las = fio.make_las(ck.rng, minor, fmt, 3, vlrs=vl)
        b0 = io.BytesIO()
        las.write(b0)
        data = b0.getvalue()
        off0 = int.from_bytes(data[96:100], "little")
        how = ["pop", "append", "untouched"][ci % 3]
        inp = {"kind": "appender_inplace", "minor": minor, "fmt": fmt, "edit": how, "offset_to_point_data": off0}
        ck.case(("appender_inplace", minor, fmt, how), nontrivial=True)
        ck.count("appender_inplace:" + how)
        buf = io.BytesIO(data)
        outcome = "closed"
        try:
            ap = laspy.open(buf, mode="a", closefd=False)
            if how == "pop":
                ap.header.vlrs.pop()
            elif how == "append":
                ap.header.vlrs.append(laspy.VLR("verif", 3, "third", b"c" * 10))
            ap.append_points(las.points[:1])
            ap.close()
        except LaspyException:
            outcome = "refused"
        except Exception as e:
            outcome = type(e).__name__
        off1 = int.from_bytes(buf.getvalue()[96:100], "little")
        if off1 != off0:
            ck.fail(f"LAS 1.{minor}: an append session whose header lost / gained a VLR ({how}) rewrote the header in place and changed the offset to point data "
                    f"from {off0} to {off1} (session outcome: {outcome})", inp)
        elif how != "untouched" and outcome == "closed":
            ck.fail(f"LAS 1.{minor}: the in-place rewrite of a header that no longer has its size in the file ({how}) was not refused", inp)
        elif how == "untouched" and outcome != "closed":
            ck.fail(f"LAS 1.{minor}: an ordinary append session ended with {outcome}", inp)


def malformed_layer(ck, n_cases):
    """lenient decoding of damaged headers: model verdict == implementation verdict"""
    lines, meta = [], []
    for _ in range(n_cases):
        h, f = gen_header(ck.rng)
        buf = io.BytesIO()
        h.write_to(buf)
        data = bytearray(buf.getvalue())
        kind = ck.rng.choice(["signature", "truncate", "hsize", "offset", "date", "empty"])
        if kind == "signature":
            data[ck.rng.randrange(4)] ^= 0x20
        elif kind == "truncate":
            data = data[: ck.rng.randrange(0, 240)]
        elif kind == "hsize":
            delta = ck.rng.choice([-8, -1, 1, 3, 40])
            v = max(0, min(65535, int.from_bytes(data[94:96], "little") + delta))
            data[94:96] = v.to_bytes(2, "little")
        elif kind == "offset":
            delta = ck.rng.choice([-60, -1, 1, 5, 1000])
            v = max(0, int.from_bytes(data[96:100], "little") + delta)
            data[96:100] = v.to_bytes(4, "little")
            data += c08.rand_bytes(ck.rng, 30)
        elif kind == "date":
            data[90:94] = struct.pack("<HH", ck.rng.choice([0, 1, 59, 60, 365, 366, 367, 400, 65535, ck.rng.randrange(65536)]),
                                      ck.rng.choice([0, 1, 2, 1999, 2024, 9999, 10000, 65535, ck.rng.randrange(12000)]))
        else:
            data = bytearray()
        data = bytes(data)
        dec, h2 = impl_decode(data)
        ck.case(("mal", kind, data), nontrivial=True)
        ck.count("malformed:" + kind)
        ck.count("malformed_outcome:" + dec.split(" ")[0] + (":" + dec.split(" ")[1] if dec.startswith("err") else ""))
        if dec.startswith("exc"):
            # exceptions other than LaspyException come from parts of read_from the model does not cover
            # (date overflow, VLR text decoding, point format construction): verdict compared as 'exc'
            ck.count("malformed_exc:" + dec)
        lines.append("hdr dec " + hx(data))
        meta.append(("mal:" + kind, {"kind": "malformed", "mutation": kind, "data": data.hex()[:600]}, dec, h2))
    return lines, meta


def date_layer(ck):
    years = [1, 2, 4, 100, 400, 1600, 1900, 2000, 2023, 2024, 9998, 9999]
    if ck.tier == "thorough":
        years += list(range(1995, 2031)) + [ck.rng.randrange(1, 10000) for _ in range(40)]
    lines, exp = [], []
    for y in sorted(set(years)):
        d = date(y, 1, 1)
        while d.year == y:
            doy = d.timetuple().tm_yday
            lines.append(f"hdr yday {d.year} {d.month} {d.day}")
            exp.append(str(doy))
            lines.append(f"hdr date {y} {doy}")
            back = date(y, 1, 1) + timedelta(doy - 1)
            exp.append(f"{back.year}-{back.month}-{back.day}")
            if back != d:
                ck.fail(f"date {d} does not survive (day-of-year, year)", {"kind": "date", "date": str(d)})
            ck.case(("date", y, doy), nontrivial=True)
            if d == date.max:
                break
            d += timedelta(1)
    # lenient reading of arbitrary (year, day) pairs
    for _ in range(3000 if ck.tier == "quick" else 60000):
        y = ck.rng.choice([0, 1, 2, 9999, 10000, ck.rng.randrange(0, 11000), ck.rng.randrange(65536)])
        doy = ck.rng.choice([0, 1, 365, 366, 367, 731, ck.rng.randrange(65536)])
        try:
            b = date(y, 1, 1) + timedelta(doy - 1)
            e = f"{b.year}-{b.month}-{b.day}"
        except ValueError:
            e = "none"
        except OverflowError:
            e = "overflow"
        lines.append(f"hdr date {y} {doy}")
        exp.append(e)
        ck.count("date_read:" + ("date" if "-" in e else e))
    out = ck.driver(lines)
    bad = None
    if out is None:
        bad = "driver did not run"
    else:
        for ln, e, o in zip(lines, exp, out):
            if e != o and bad is None:
                bad = f"{ln}: model {o} python {e}"
    ck.oblige("correspondence codec/date: model dayOfYear/fromYearDay == datetime.date arithmetic", "correspondence", bad is None, bad or "")
    ck.count("date_lines", len(lines))


def compat_layer(ck):
    import laspy
    from laspy.header import LasHeader, Version
    from laspy import PointFormat
    from laspy.errors import LaspyException, PointFormatNotSupported, FileVersionNotSupported

    def run(fn):
        try:
            h = fn()
            return f"ok {h.version.minor} {h.point_format.id}", h
        except PointFormatNotSupported:
            return "err FormatNotSupported", None
        except (FileVersionNotSupported, KeyError):
            return "err VersionNotSupported", None
        except LaspyException as e:
            return ("err Incompatible" if "not compatible" in str(e) else "err Laspy:" + str(e)[:40]), None
        except Exception as e:
            return "exc " + type(e).__name__, None

    lines, exp = [], []
    versions = [0, 1, 2, 3, 4, 5]
    formats = list(range(0, 13))

    def record(line, res, what):
        lines.append(line)
        exp.append(res[0])
        ck.case(("compat", line), nontrivial=True)
        ck.count("compat:" + line.split(" ")[1] + ":" + res[0].split(" ")[0])
        if res[0].startswith("ok"):
            _, v, f = res[0].split(" ")
            if int(f) not in SPEC_COMPAT.get(int(v), []):
                ck.fail(f"{what} produced the incompatible pair version 1.{v} / point format {f}", {"kind": "compat", "call": line, "finding_key": "C07:compat"})

    for v in [None] + versions:
        for f in [None] + formats:
            kw = {}
            if v is not None:
                kw["version"] = f"1.{v}"
            if f is not None:
                kw["point_format"] = f
            record(f"hdr mk {'-' if v is None else v} {'-' if f is None else f}", run(lambda: LasHeader(**kw)), f"LasHeader({kw})")
            kw2 = {}
            if v is not None:
                kw2["file_version"] = f"1.{v}"
            if f is not None:
                kw2["point_format"] = f
            r = run(lambda: laspy.create(**kw2).header)
            if r[0] != exp[-1]:
                ck.fail(f"laspy.create({kw2}) -> {r[0]} but LasHeader(...) -> {exp[-1]}", {"kind": "compat", "call": f"create {kw2}"})
    for cv in (1, 2, 3, 4):
        for cf in SPEC_COMPAT[cv]:
            for v in versions:
                def setv():
                    h = LasHeader(version=f"1.{cv}", point_format=cf)
                    h.version = Version(1, v)
                    return h
                record(f"hdr setv {cv} {cf} {v}", run(setv), f"header(1.{cv},{cf}).version = 1.{v}")
            for f in formats:
                def setf():
                    h = LasHeader(version=f"1.{cv}", point_format=cf)
                    h.point_format = PointFormat(f)
                    return h
                record(f"hdr setf {cv} {cf} {f}", run(setf), f"header(1.{cv},{cf}).point_format = {f}")
                for req in [None] + versions:
                    def conv():
                        las = laspy.create(point_format=cf, file_version=f"1.{cv}")
                        return laspy.convert(las, point_format_id=f, file_version=None if req is None else f"1.{req}").header
                    if cf in (0, 3, 6, 10) or req is None:
                        record(f"hdr conv {cv} {f} {'-' if req is None else req}", run(conv), f"convert(1.{cv}/{cf} -> fmt {f}, version {req})")
    for v in versions:
        for f in formats:
            def both():
                h = LasHeader()
                h.set_version_and_point_format(Version(1, v), PointFormat(f))
                return h
            record(f"hdr both {v} {f}", run(both), f"set_version_and_point_format(1.{v}, {f})")
            # a refused request leaves the header as it was (still a compatible pair), from every legal starting pair
            for cv in (1, 2, 3, 4):
                for cf in (SPEC_COMPAT[cv][0], SPEC_COMPAT[cv][-1]):
                    hh = LasHeader(version=f"1.{cv}", point_format=cf)
                    try:
                        hh.set_version_and_point_format(Version(1, v), PointFormat(f))
                        continue
                    except Exception:
                        pass
                    if (hh.version.minor, hh.point_format.id) != (cv, cf):
                        ck.fail(f"header (1.{cv}, format {cf}): the refused set_version_and_point_format(1.{v}, {f}) left it as "
                                f"(1.{hh.version.minor}, format {hh.point_format.id})", {"kind": "compat", "call": f"both {v} {f} from {cv} {cf}", "finding_key": "C07:compat"})
            if f <= 10 and 1 <= v <= 4:
                def writer():
                    from laspy.laswriter import LasWriter
                    h = LasHeader(point_format=f)  # always legal
                    h._version = Version(1, v)  # as a lenient read could leave it
                    w = LasWriter(io.BytesIO(), h, closefd=False)
                    return w.header
                record(f"hdr writer {v} {f}", run(writer), f"LasWriter(header 1.{v}/{f})")
                if f not in SPEC_COMPAT.get(v, []):
                    # the refusal leaves nothing behind: no byte of the incompatible header reaches the destination,
                    # through the writer, through LasData.write on a stream and on a path
                    import os
                    import tempfile
                    from laspy.laswriter import LasWriter
                    h = LasHeader(point_format=f)
                    h._version = Version(1, v)
                    for how in ("LasWriter", "LasData.write(stream)", "LasData.write(path)"):
                        dest = io.BytesIO()
                        tmp = None
                        try:
                            if how == "LasWriter":
                                LasWriter(dest, h, closefd=False)
                            else:
                                lasx = laspy.LasData(h)
                                if how.endswith("(path)"):
                                    tmp = tempfile.mkdtemp(prefix="verif_c07_")
                                    lasx.write(os.path.join(tmp, "x.las"))
                                else:
                                    lasx.write(dest)
                            ck.fail(f"{how} accepted the incompatible pair version 1.{v} / point format {f}", {"kind": "compat", "call": f"{how} {v} {f}", "finding_key": "C07:compat"})
                        except LaspyException:
                            pass
                        except Exception as e:
                            ck.count("incompatible_write_raised:" + type(e).__name__)
                        written = dest.getvalue()
                        if tmp is not None:
                            pth = os.path.join(tmp, "x.las")
                            written = open(pth, "rb").read() if os.path.exists(pth) else b""
                            import shutil
                            shutil.rmtree(tmp, ignore_errors=True)
                        ck.count("incompatible_write_refused")
                        if written:
                            ck.fail(f"{how} refused the incompatible pair version 1.{v} / point format {f} but {len(written)} bytes of that header "
                                    f"were written to the destination", {"kind": "compat", "call": f"{how} {v} {f}", "written": len(written)})
    out = ck.driver(lines)
    bad = None
    if out is None:
        bad = "driver did not run"
    else:
        for ln, e, o in zip(lines, exp, out):
            if e != o and bad is None:
                bad = f"{ln}: model '{o}' implementation '{e}'"
    ck.oblige("correspondence codec/compat: model API decisions == LasHeader / setters / create / convert / LasWriter over every (version, format) pair",
              "correspondence", bad is None, bad or "")
    ck.sample({"layer": "compat", "calls": len(lines), "example": lines[17]})


def replay(inp):
    return "RERUN"


def run(ck):
    logging.getLogger("laspy").setLevel(logging.CRITICAL)
    ck.rule = ("seeded headers of versions 1.1-1.4 with boundary-heavy legal fields (u16/u32/u64 extremes, any 16-bit encoding, random "
               "GUID, strings of length 0..32, dates incl. leap days and 0001/9999, NaN payloads and infinities as 64-bit patterns, "
               "extra header bytes / padding 0..300, 0..3 VLRs): LasHeader.write_to / read_from vs the Lean model (bytes and parsed "
               "fields) and vs the field-wise oracle; damaged headers (6 mutation kinds) for the lenient decoder; every day of 12 "
               "years (thorough: 80+) and random (year, day) pairs against datetime; the complete API matrix versions 1.0-1.5 x "
               "formats 0-12 x {LasHeader, create, version setter, format setter, set_version_and_point_format, convert "
               "implicit/explicit, LasWriter}. distinct by field tuple / call")
    ck.regen()
    ck.lean_props("C07", THEOREMS)
    q = ck.tier == "quick"
    l1, m1 = codec_layer(ck, 150 if q else 3000)
    l2, m2 = malformed_layer(ck, 150 if q else 3000)
    appender_inplace_layer(ck, 9 if q else 90)
    out = ck.driver(l1 + l2)
    bad = None
    if out is None or len(out) != len(l1) + len(l2):
        bad = "driver did not run"
    else:
        for (what, inp, exp), o in zip(m1, out[: len(l1)]):
            if what == "dec":
                o, raw = mask_model(o)
            if o != exp and bad is None:
                k = next((i for i in range(min(len(o), len(exp))) if o[i] != exp[i]), min(len(o), len(exp)))
                bad = f"{what} {str(inp)[:160]}: at char {k}: model ...{o[max(0,k-30):k+30]} impl ...{exp[max(0,k-30):k+30]}"
        for (what, inp, exp, h2), o in zip(m2, out[len(l1):]):
            o2, raw = mask_model(o)
            if exp.startswith("exc"):
                continue  # outside the modelled part of read_from (counted above)
            if o2 != exp and bad is None:
                k = next((i for i in range(min(len(o2), len(exp))) if o2[i] != exp[i]), min(len(o2), len(exp)))
                bad = f"{what}: at char {k}: model ...{o2[max(0,k-40):k+40]} impl ...{exp[max(0,k-40):k+40]} input {inp['data'][:80]}"
            if raw and h2 is not None:
                doy, year, _ = raw
                try:
                    d = date(year, 1, 1) + timedelta(doy - 1)
                except ValueError:
                    d = None
                if h2.creation_date != d and bad is None:
                    bad = f"{what}: creation date {h2.creation_date} vs (year {year}, day {doy})"
    ck.oblige("correspondence codec/header: model encodeHdr/decodeHdr == LasHeader.write_to/read_from (legal and damaged headers)",
              "correspondence", bad is None, bad or "")
    date_layer(ck)
    compat_layer(ck)
    ck.failures.sort(key=lambda f: len(str(f["input"])))
    if ck.tier == "thorough":
        ck.leanchecker(["LasModel.Props.C07"])
