"""C06 — appending is equivalent to having written the concatenation."""
import io
import logging

import numpy as np

from .. import fileio as fio
from . import c03, c04, c08

THEOREMS = ["appendAll_form", "statsOfHdr_final", "append_sameEnc", "C06_bytes", "C06_format", "C06_sessions"]
hx = c08.hx


def append_session(data, las_chunks, closefd=False):
    """real LasAppender on a BytesIO holding `data`; returns the resulting bytes"""
    import laspy
    buf = io.BytesIO(data)
    buf.seek(0)
    with laspy.open(buf, mode="a", closefd=False) as ap:
        for ch in las_chunks:
            ap.append_points(ch)
    return buf.getvalue()


def rec_of(las, raw):
    import laspy
    arr = np.frombuffer(bytearray(raw), dtype=las.header.point_format.dtype()).copy()
    return laspy.PackedPointRecord(arr, las.header.point_format)


def run(ck):
    logging.getLogger("laspy").setLevel(logging.CRITICAL)
    import laspy
    from laspy.errors import LaspyException
    ck.rule = ("originals written by laspy for every legal (version, format) pair with 0..n points, with/without VLRs and "
               "EVLRs, typed extra dimensions; 1-3 successive append sessions of 0..4 chunks each (empty chunks included) of "
               "random record bytes given as plain records, and as scale-aware records with equal or different scaling "
               "(dyadic and decimal); compared: appended file == one-shot file of the concatenation written by real laspy "
               "(bytes), == the model's appendSession (bytes); statistics recomputed; VLRs/EVLRs preserved and relocated; "
               "records of another format refused with the file untouched. non-trivial = at least one point appended")
    ck.regen()
    ck.lean_props("C06", THEOREMS)
    q = ck.tier == "quick"
    lines, meta = [], []
    for ci in range(110 if q else 2500):
        minor, fmt = fio.PAIRS[ci % len(fio.PAIRS)] if ci < 2 * len(fio.PAIRS) else ck.rng.choice(fio.PAIRS)
        n0 = ck.rng.choice([0, 0, 1, 2, 5, 12])
        params = fio.rand_extra_params(ck.rng, 2, scaled_ok=False) if ck.rng.random() < 0.3 else []
        evlrs = fio.rand_vlrs(ck.rng, True) if (minor >= 4 and ck.rng.random() < 0.6) else None
        sc = [ck.rng.choice([0.01, 0.5, 0.25, 1.0]) for _ in range(3)]
        of = [ck.rng.choice([0.0, 1000.0, -12.25, 1.0]) for _ in range(3)]
        las = fio.make_las(ck.rng, minor, fmt, n0, params, vlrs=fio.rand_vlrs(ck.rng, False, 1), evlrs=evlrs, scales=sc, offsets=of)
        size = las.header.point_format.size
        buf = io.BytesIO()
        las.write(buf)
        data = buf.getvalue()
        all_raw = las.points.array.tobytes()
        sessions = []
        cur = data
        ok = True
        for si in range(ck.rng.choice([1, 1, 2, 3])):
            raws = [fio.raw_records(ck.rng, size, ck.rng.choice([0, 0, 1, 2, 6])) for _ in range(ck.rng.randrange(0, 5))]
            inp = {"kind": "append", "minor": minor, "fmt": fmt, "n0": n0, "sessions": sessions + [[len(r) // size for r in raws]],
                   "evlrs": None if evlrs is None else len(evlrs), "extra": [p.name for p in params], "scales": sc, "offsets": of,
                   "raw0": all_raw.hex()[:300], "finding_key": "C06:" + ("empty_chunk" if any(len(r) == 0 for r in raws) else "") + ("empty_original" if (len(all_raw) == 0 and any(raws)) else "")}
            ck.case(("c06", minor, fmt, all_raw, tuple(raws)), nontrivial=any(len(r) for r in raws))
            ck.count("chunks=%d" % len(raws))
            ck.count("empty_chunks", sum(1 for r in raws if not r))
            ck.count("original_empty" if not all_raw else "original_nonempty")
            try:
                after = append_session(cur, [rec_of(las, r) for r in raws])
            except Exception as e:
                ck.fail(f"append session {si} raised {type(e).__name__}: {e}", inp)
                ok = False
                break
            lines.append("file append " + hx(cur) + " " + " ".join(fio.op_points(fmt, size, r) for r in raws))
            meta.append((inp, "ok " + hx(after)))
            all_raw += b"".join(raws)
            sessions.append([len(r) // size for r in raws])
            # one-shot file of the concatenation, by real laspy
            las2 = fio.make_las(ck.rng, minor, fmt, len(all_raw) // size, params, raw=all_raw, vlrs=[], evlrs=None, scales=sc, offsets=of)
            las2.header._vlrs = las.header._vlrs
            las2.header.evlrs = las.header.evlrs
            one = io.BytesIO()
            las2.write(one)
            if after != one.getvalue():
                k0 = next((i for i in range(min(len(after), len(one.getvalue()))) if after[i] != one.getvalue()[i]), -1)
                ck.fail(f"appended file differs from the one-shot file of the concatenation (first difference at byte {k0}; sizes {len(after)}/{len(one.getvalue())})", inp)
            arr = np.frombuffer(all_raw, dtype=las.header.point_format.dtype())
            c03.check_file(ck, after, las, arr, las.evlrs if minor >= 4 else None, inp, f"after append session {si}")
            try:
                back = laspy.read(io.BytesIO(after))
                if back.points.array.tobytes() != all_raw:
                    ck.fail("point sequence after append is not original + appended", inp)
                if [c08.canon(v) for v in back.vlrs] != [c08.canon(v) for v in las.vlrs]:
                    ck.fail("VLRs changed by appending", inp)
                if [c08.canon(v) for v in (back.evlrs or [])] != fio.expected_evlrs([(u.decode(), r, d.decode('latin-1'), p) for (u, r, d, p) in (c08.canon(v) for v in (las.evlrs or []))]):
                    ck.fail("EVLRs not preserved by appending", inp)
            except Exception as e:
                ck.fail(f"reading the appended file raised {type(e).__name__}: {e}", inp)
            cur = after
        if ok and len(ck.samples) < 3:
            ck.sample({k: v for k, v in inp.items() if k != "raw0"})
    # ---- foreign point format: refused, file untouched
    for _ in range(30 if q else 400):
        minor, fmt = ck.rng.choice(fio.PAIRS)
        variant = ck.rng.choice(["other_id", "same_id_extra_dims", "same_id_extra_type", "one_respect", "one_respect"])
        mine, theirs, xvariant = fio.foreign_extra_dims(ck.rng) if variant == "one_respect" else ((), (), None)
        las = fio.make_las(ck.rng, minor, fmt, ck.rng.choice([0, 3]), mine, evlrs=fio.rand_vlrs(ck.rng, True) if minor >= 4 else None)
        buf = io.BytesIO()
        las.write(buf)
        data = buf.getvalue()
        if variant == "one_respect":
            variant = xvariant
        ck.count("foreign:" + variant)
        if xvariant is not None:
            # same id, extra dimensions that differ in one respect only (scale, offset, name, element type of equal width, one more, one less)
            ofmt = fmt
            opf = laspy.PointFormat(fmt)
            for p_ in theirs:
                opf.add_extra_dimension(p_)
        elif variant == "other_id":
            ofmt = ck.rng.choice([x for x in range(11) if x != fmt])
            opf = laspy.PointFormat(ofmt)
        else:
            # same point format id, different extra dimensions: another point format (another record layout)
            ofmt = fmt
            opf = laspy.PointFormat(fmt)
            opf.add_extra_dimension(laspy.ExtraBytesParams("other", "u1" if variant == "same_id_extra_dims" else "f8"))
        other = laspy.PackedPointRecord.zeros(2, opf)
        b2 = io.BytesIO(data)
        inp = {"kind": "foreign", "minor": minor, "fmt": fmt, "other": ofmt, "variant": variant}
        ck.case(("foreign", minor, fmt, ofmt, variant, data), nontrivial=True)
        try:
            ap = laspy.open(b2, mode="a", closefd=False)
            try:
                ap.append_points(other)
                ck.fail(f"records of point format {ofmt} were accepted by an appender on a format {fmt} file", inp)
            except LaspyException:
                pass
            ap.close()
        except Exception as e:
            ck.fail(f"appender raised {type(e).__name__}: {e}", inp)
            continue
        if b2.getvalue() != data:
            ck.fail("a refused append changed the file", inp)
    rescale_layer(ck, 60 if q else 1500)
    refused_inside_session_layer(ck, 20 if q else 400)
    refused_rescale_layer(ck, 12 if q else 240)
    trailing_bytes_layer(ck, 12 if q else 240)
    large_evlr_layer(ck, 6 if q else 60)
    encoding_errors_layer(ck, 8 if q else 100)
    compressed_layer(ck, 25 if q else 500)
    out = ck.driver(lines)
    bad = None
    if out is None or len(out) != len(lines):
        bad = "driver did not run"
    else:
        for (inp, exp), o in zip(meta, out):
            if o != exp and bad is None:
                k = next((i for i in range(min(len(o), len(exp))) if o[i] != exp[i]), min(len(o), len(exp)))
                bad = f"{({k_: v for k_, v in inp.items() if k_ != 'raw0'})}: at char {k}: model ...{o[max(0,k-30):k+30]} impl ...{exp[max(0,k-30):k+30]}"
    ck.oblige("correspondence fileio/append: model appendSession == real LasAppender session bytes", "correspondence", bad is None, bad or "")
    ck.failures.sort(key=lambda f: (len(str(f["input"].get("sessions", ""))), len(str(f["input"]))))
    if ck.tier == "thorough":
        ck.leanchecker(["LasModel.Props.C06"])


def compressed_layer(ck, n_cases):
    """append sessions on compressed files (conforming backend double): same point sequence, statistics, VLRs and
    EVLRs as the file written at once"""
    import laspy
    try:
        import lazrs
        from laspy import LazBackend
    except ImportError:
        ck.count("compressed_layer_skipped_no_backend_double")
        return
    from . import c01
    for ci in range(n_cases):
        lazrs.CHUNK_SIZE = ck.rng.choice([3, 5, 7])
        minor, fmt = ck.rng.choice(fio.PAIRS)
        n0 = ck.rng.choice([0, 1, lazrs.CHUNK_SIZE, lazrs.CHUNK_SIZE + 1, 11])
        evlrs = fio.rand_vlrs(ck.rng, True, 2) if minor >= 4 and ck.rng.random() < 0.7 else None
        las = fio.make_las(ck.rng, minor, fmt, n0, vlrs=fio.rand_vlrs(ck.rng, False, 1), evlrs=evlrs)
        size = las.header.point_format.size
        extra = [fio.raw_records(ck.rng, size, ck.rng.choice([0, 1, lazrs.CHUNK_SIZE, 6])) for _ in range(ck.rng.randrange(1, 4))]
        bk = ck.rng.choice([LazBackend.Lazrs, LazBackend.LazrsParallel])
        inp = {"kind": "compressed_append", "minor": minor, "fmt": fmt, "n0": n0, "appended": [len(e) // size for e in extra],
               "chunk_size": lazrs.CHUNK_SIZE, "backend": bk.name, "evlrs": None if evlrs is None else len(evlrs)}
        ck.case(("c06laz", minor, fmt, n0, tuple(inp["appended"]), lazrs.CHUNK_SIZE, bk.name, las.points.array.tobytes()), nontrivial=True)
        ck.count("compressed_append")
        try:
            comp = io.BytesIO()
            las.write(comp, do_compress=True, laz_backend=bk)
            comp = io.BytesIO(comp.getvalue())
            with laspy.open(comp, mode="a", closefd=False, laz_backend=bk) as ap:
                for r in extra:
                    ap.append_points(rec_of(las, r))
            got = laspy.read(io.BytesIO(comp.getvalue()), laz_backend=bk)
            whole = fio.make_las(ck.rng, minor, fmt, 0, raw=las.points.array.tobytes() + b"".join(extra), vlrs=[c08.canon(v) and (v.user_id, v.record_id, v.description, bytes(v.record_data_bytes())) for v in las.vlrs],
                                 evlrs=None if evlrs is None else evlrs)
            ref = io.BytesIO()
            whole.write(ref)
            want = laspy.read(io.BytesIO(ref.getvalue()))
        except Exception as e:
            ck.fail(f"compressed append session raised {type(e).__name__}: {e}", inp)
            continue
        a, b = c01.canon_read(got).split(" "), c01.canon_read(want).split(" ")
        a[10] = str(int(a[10]) & 0x3F)
        a[16] = b[16] = "EVLRSTART"
        if a != b:
            k0 = next((i for i in range(min(len(a), len(b))) if a[i] != b[i]), -1)
            ck.fail(f"compressed file after append reads differently from the file written at once (field #{k0}: {a[k0][:60]} vs {b[k0][:60]})", inp)
    lazrs.CHUNK_SIZE = 5


def encoding_errors_layer(ck, n_cases):
    """a file whose header text is not decodable as ASCII/UTF-8 (written by other software), opened for appending with
    encoding_errors='ignore' as it must be for reading: the session appends and closes like any other"""
    import laspy
    for ci in range(n_cases):
        minor, fmt = ck.rng.choice(fio.PAIRS)
        n0 = ck.rng.choice([0, 3])
        las = fio.make_las(ck.rng, minor, fmt, n0)
        size = las.header.point_format.size
        b0 = io.BytesIO()
        las.write(b0)
        data = bytearray(b0.getvalue())
        data[26:30] = b"\xff\xfeAB"          # system identifier with undecodable bytes
        extra = fio.raw_records(ck.rng, size, 2)
        inp = {"kind": "encoding_errors", "minor": minor, "fmt": fmt, "n0": n0}
        ck.case(("encerr", minor, fmt, n0, bytes(data[:300])), nontrivial=True)
        ck.count("append_with_encoding_errors_ignore")
        buf = io.BytesIO(bytes(data))
        try:
            with laspy.open(buf, mode="a", closefd=False, encoding_errors="ignore") as ap:
                ap.append_points(rec_of(las, extra))
            back = laspy.open(io.BytesIO(buf.getvalue()), encoding_errors="ignore").read()
        except Exception as e:
            ck.fail(f"append session opened with encoding_errors='ignore' on a file with undecodable header text raised {type(e).__name__}: {e}", inp)
            continue
        if back.points.array.tobytes() != las.points.array.tobytes() + extra or back.header.point_count != n0 + 2:
            ck.fail(f"append with encoding_errors='ignore': the file holds {back.header.point_count} / {len(back.points)} points, expected {n0 + 2} (old followed by new)", inp)


def refused_inside_session_layer(ck, n_cases):
    """a with-session that appends valid chunks and is then left by the exception of a refused record (another point
    format): the file is the one-shot file of the original and the chunks that were accepted"""
    import laspy
    for ci in range(n_cases):
        minor, fmt = ck.rng.choice(fio.PAIRS)
        n0 = ck.rng.choice([0, 2, 5])
        evlrs = fio.rand_vlrs(ck.rng, True, 2) if minor >= 4 and ck.rng.random() < 0.7 else None
        las = fio.make_las(ck.rng, minor, fmt, n0, evlrs=evlrs)
        size = las.header.point_format.size
        good = [fio.raw_records(ck.rng, size, ck.rng.choice([1, 3])) for _ in range(ck.rng.choice([1, 2]))]
        ofmt = ck.rng.choice([x for x in range(11) if x != fmt])
        foreign = laspy.PackedPointRecord.zeros(2, laspy.PointFormat(ofmt))
        inp = {"kind": "refused_inside_session", "minor": minor, "fmt": fmt, "n0": n0, "accepted": [len(g) // size for g in good], "foreign_fmt": ofmt,
               "evlrs": None if evlrs is None else len(evlrs)}
        ck.case(("refused_in_session", minor, fmt, n0, tuple(inp["accepted"]), ofmt, las.points.array.tobytes()), nontrivial=True)
        ck.count("refused_inside_session")
        def decorate(x):
            if ci % 2 == 0:
                # whatever the seed: texts that end in blanks (header, a VLR's description, an EVLR's): an append session keeps them as they are
                x.header.system_identifier = "ends in blanks  "
                x.header.generating_software = "x "
                x.vlrs.append(laspy.VLR("verif", 21, "padded description   ", b"p"))
                if minor >= 4 and x.evlrs is not None:
                    x.evlrs.append(laspy.VLR("verif", 22, "padded too ", b"q"))
        decorate(las)
        b0 = io.BytesIO()
        las.write(b0)
        buf = io.BytesIO(b0.getvalue())
        raised = None
        try:
            with laspy.open(buf, mode="a", closefd=False) as ap:
                for g in good:
                    ap.append_points(rec_of(las, g))
                ap.append_points(foreign)
        except Exception as e:
            raised = type(e).__name__
        if raised is None:
            ck.fail("a record of another point format was accepted by the appender", inp)
            continue
        whole = fio.make_las(ck.rng, minor, fmt, 0, raw=las.points.array.tobytes() + b"".join(good), evlrs=evlrs)
        decorate(whole)
        ref = io.BytesIO()
        whole.write(ref)
        if buf.getvalue() != ref.getvalue():
            a, b = buf.getvalue(), ref.getvalue()
            k0 = next((i for i in range(min(len(a), len(b))) if a[i] != b[i]), min(len(a), len(b)))
            ck.fail(f"session left by the refusal of a foreign record after {inp['accepted']} accepted points: the file differs from the one-shot file of "
                    f"what was accepted (first difference at byte {k0}; sizes {len(a)}/{len(b)})", inp)


def refused_rescale_layer(ck, n_cases):
    """a with-session in which a scale-aware chunk cannot be represented in the file's scaling (OverflowError): the chunk is refused, the caller's
    record is as it was, and the file left by the session is the one-shot file of the original and the chunks accepted before - in particular
    an empty original stays an empty cloud with zero extrema"""
    import laspy
    for ci in range(n_cases):
        minor, fmt = ck.rng.choice(fio.PAIRS)
        n0 = [0, 0, 2][ci % 3]
        k_good = [0, 1, 0, 2][ci % 4]
        fs = [ck.rng.choice([1e-6, 1e-5]) for _ in range(3)]
        fo = [0.0, 0.0, 0.0]
        evlrs = fio.rand_vlrs(ck.rng, True, 2) if minor >= 4 and ck.rng.random() < 0.5 else None
        las = fio.make_las(ck.rng, minor, fmt, n0, scales=fs, offsets=fo, evlrs=evlrs)
        size = las.header.point_format.size
        good = [fio.raw_records(ck.rng, size, ck.rng.choice([1, 3])) for _ in range(k_good)]
        bad_axis = ci % 3
        rec = laspy.ScaleAwarePointRecord.zeros(2, point_format=las.header.point_format, scales=np.array([1.0, 1.0, 1.0]), offsets=np.array([0.0, 0.0, 0.0]))
        for ax, d in enumerate("XYZ"):
            rec.array[d] = np.array([10**6, 2 * 10**6] if ax == bad_axis else [1, 2], dtype="i4")   # 1e6 / 1e-6 does not fit in 32 bits
        snap = (rec.array.tobytes(), tuple(rec.scales.tolist()), tuple(rec.offsets.tolist()))
        inp = {"kind": "refused_rescale", "minor": minor, "fmt": fmt, "n0": n0, "accepted": [len(g) // size for g in good], "file_scales": fs,
               "axis": bad_axis, "evlrs": None if evlrs is None else len(evlrs)}
        ck.case(("refused_rescale", minor, fmt, n0, tuple(inp["accepted"]), tuple(fs), bad_axis, las.points.array.tobytes()), nontrivial=True)
        ck.count("refused_rescale")
        b0 = io.BytesIO()
        las.write(b0)
        buf = io.BytesIO(b0.getvalue())
        raised = None
        try:
            with laspy.open(buf, mode="a", closefd=False) as ap:
                for g in good:
                    ap.append_points(rec_of(las, g))
                ap.append_points(rec)
        except OverflowError:
            raised = "OverflowError"
        except Exception as e:
            ck.fail(f"a chunk that does not fit the file's scaling raised {type(e).__name__}: {e} (OverflowError expected)", inp)
            continue
        if raised is None:
            ck.fail("a chunk whose coordinates do not fit in 32 bits under the file's scaling was accepted (wrapped)", inp)
            continue
        if (rec.array.tobytes(), tuple(rec.scales.tolist()), tuple(rec.offsets.tolist())) != snap:
            ck.fail("a refused append modified the caller's records", inp)
        whole = fio.make_las(ck.rng, minor, fmt, 0, raw=las.points.array.tobytes() + b"".join(good), scales=fs, offsets=fo, evlrs=evlrs)
        ref = io.BytesIO()
        whole.write(ref)
        if buf.getvalue() != ref.getvalue():
            a, b = buf.getvalue(), ref.getvalue()
            k0 = next((i for i in range(min(len(a), len(b))) if a[i] != b[i]), min(len(a), len(b)))
            try:
                hb = laspy.read(io.BytesIO(a)).header
                desc = f"header: {hb.point_count} points, mins {hb.mins.tolist()}, maxs {hb.maxs.tolist()}"
            except Exception as e:
                desc = f"reading it raises {type(e).__name__}"
            ck.fail(f"session on a {n0}-point file left by the refusal (OverflowError) of a chunk after {inp['accepted']} accepted points: the file differs "
                    f"from the one-shot file of what was accepted (first difference at byte {k0}; {desc})", inp)


def trailing_bytes_layer(ck, n_cases):
    """the original file carries bytes after its last point record that are not EVLRs (padding written by other software, the records an
    interrupted session stored without counting them): the appended points follow the last COUNTED record"""
    import laspy
    for ci in range(n_cases):
        minor, fmt = fio.PAIRS[(3 * ci + 1) % len(fio.PAIRS)]
        n0 = [0, 2, 5][ci % 3]
        las = fio.make_las(ck.rng, minor, fmt, n0)
        size = las.header.point_format.size
        extra = fio.raw_records(ck.rng, size, ck.rng.choice([1, 3]))
        junk_len = [7, size, len(extra) + 11, 2 * len(extra)][ci % 4]
        junk = bytes(ck.rng.getrandbits(8) for _ in range(junk_len))
        b0 = io.BytesIO()
        las.write(b0)
        data = b0.getvalue() + junk
        inp = {"kind": "trailing_bytes", "minor": minor, "fmt": fmt, "n0": n0, "appended": len(extra) // size, "trailing_bytes": junk_len, "record_size": size}
        ck.case(("trailing", minor, fmt, n0, junk_len, las.points.array.tobytes(), extra), nontrivial=True)
        ck.count("original_with_trailing_bytes")
        try:
            after = append_session(data, [rec_of(las, extra)])
            back = laspy.read(io.BytesIO(after))
        except Exception as e:
            ck.fail(f"appending to a file with {junk_len} bytes after its last point record raised {type(e).__name__}: {e}", inp)
            continue
        want = las.points.array.tobytes() + extra
        if back.points.array.tobytes() != want or back.header.point_count != n0 + len(extra) // size:
            off = las.header.offset_to_point_data
            where = after.find(extra, off)
            ck.fail(f"appending {len(extra) // size} points to a {n0}-point file with {junk_len} bytes after its last record: the file reads {len(back.points)} points that are "
                    f"{'' if back.points.array.tobytes() == want else 'not '}the original points followed by the appended ones (the appended records start at byte "
                    f"{where}, the last counted record ends at byte {off + n0 * size})", inp)


def large_evlr_layer(ck, n_cases):
    """originals whose EVLRs are larger than a VLR may be (payloads of 65536 bytes and more): the append session relocates them after the new
    points like any other"""
    import laspy
    pairs4 = [pr for pr in fio.PAIRS if pr[0] == 4]
    for ci in range(n_cases):
        minor, fmt = pairs4[ci % len(pairs4)]
        n0 = [0, 3][ci % 2]
        big = [65536, 70001, 65535][ci % 3]
        evlrs = [("verif_big", 77, "larger than a VLR may be", bytes((i * 7 + ci) & 0xFF for i in range(big)))]
        if ci % 2:
            evlrs.append(("verif", 78, "after it", b"tail"))
        las = fio.make_las(ck.rng, minor, fmt, n0, evlrs=evlrs)
        size = las.header.point_format.size
        extra = fio.raw_records(ck.rng, size, ck.rng.choice([1, 4]))
        inp = {"kind": "large_evlr", "minor": minor, "fmt": fmt, "n0": n0, "appended": len(extra) // size, "evlr_payloads": [len(e[3]) for e in evlrs]}
        ck.case(("large_evlr", minor, fmt, n0, big, las.points.array.tobytes(), extra), nontrivial=True)
        ck.count("original_with_evlr>=65535")
        try:
            b0 = io.BytesIO()
            las.write(b0)
            after = append_session(b0.getvalue(), [rec_of(las, extra)])
        except Exception as e:
            ck.fail(f"writing / appending to a file with an EVLR of {big} bytes raised {type(e).__name__}: {e}", inp)
            continue
        whole = fio.make_las(ck.rng, minor, fmt, 0, raw=las.points.array.tobytes() + extra, evlrs=evlrs)
        ref = io.BytesIO()
        whole.write(ref)
        if after != ref.getvalue():
            a, b = after, ref.getvalue()
            k0 = next((i for i in range(min(len(a), len(b))) if a[i] != b[i]), min(len(a), len(b)))
            ck.fail(f"appended file (EVLR of {big} bytes) differs from the one-shot file of the concatenation (first difference at byte {k0}; sizes {len(a)}/{len(b)})", inp)


def rescale_layer(ck, n_cases):
    """scale-aware records whose scaling differs from the file's keep their real-world coordinates"""
    import laspy
    for _ in range(n_cases):
        minor, fmt = ck.rng.choice(fio.PAIRS)
        dy = ck.rng.random() < 0.6
        if dy:
            fs = [ck.rng.choice([0.5, 0.25, 0.125, 1.0]) for _ in range(3)]
            fo = [float(ck.rng.choice([0, 1, -8, 100])) for _ in range(3)]
            rs = [ck.rng.choice([0.5, 0.25, 0.0625, 2.0]) for _ in range(3)]
            ro = [float(ck.rng.choice([0, 1, 3, -50])) for _ in range(3)]
        else:
            fs = [ck.rng.choice([0.01, 0.001, 0.1]) for _ in range(3)]
            fo = [ck.rng.choice([0.0, 1000.0, -250.5]) for _ in range(3)]
            rs = [ck.rng.choice([0.01, 0.002, 0.05]) for _ in range(3)]
            ro = [ck.rng.choice([0.0, 10.0, -3.0]) for _ in range(3)]
        variant = ck.rng.choice(["same", "both", "both", "only_scales", "only_offsets", "one_axis", "nearby_offsets", "nearby_scales"])
        same = variant == "same"
        big = False
        if variant == "nearby_offsets":
            # large offsets that differ by less than a millionth of their size - and by many steps
            dy = False
            fs = rs = [0.01, 0.01, 0.001]
            fo = [500000.0, 4000000.0, 1000.0]
            ro = [500000.5, 4000000.25, 1000.0]
        elif variant == "nearby_scales":
            # scales that differ in the sixth digit: many steps for large stored integers
            dy = False
            fs, fo, ro = [0.01, 0.001, 0.01], [0.0, 0.0, 0.0], [0.0, 0.0, 0.0]
            rs = [0.01 * (1 + 4e-6), 0.001 * (1 - 4e-6), 0.01]
            big = True
        elif same:
            rs, ro = fs, fo
        elif variant == "only_scales":
            ro = fo
        elif variant == "only_offsets":
            rs = fs
        elif variant == "one_axis":
            ax = ck.rng.randrange(3)
            rs = [rs[i] if i == ax else fs[i] for i in range(3)]
            ro = list(fo)
        ck.count("rescale_variant:" + variant)
        las = fio.make_las(ck.rng, minor, fmt, ck.rng.choice([0, 2]), scales=fs, offsets=fo)
        for d in "XYZ":
            las.points.array[d] = np.array([ck.rng.randrange(-10**5, 10**5) for _ in range(len(las.points))], dtype="i4")
        las.update_header()
        buf = io.BytesIO()
        las.write(buf)
        m = ck.rng.choice([1, 3])
        rec = laspy.ScaleAwarePointRecord.zeros(m, point_format=las.header.point_format, scales=np.array(rs), offsets=np.array(ro))
        for d in "XYZ":
            rec.array[d] = np.array([ck.rng.randrange(-10**4, 10**4) if not big else ck.rng.choice([-1, 1]) * ck.rng.randrange(10**8, 2 * 10**8)
                                     for _ in range(m)], dtype="i4")
        want = [np.array(rec.x), np.array(rec.y), np.array(rec.z)]
        snap = (rec.array.tobytes(), tuple(rec.scales.tolist()), tuple(rec.offsets.tolist()))
        inp = {"kind": "rescale", "minor": minor, "fmt": fmt, "file_scales": fs, "file_offsets": fo, "rec_scales": rs, "rec_offsets": ro,
               "X": rec.array["X"].tolist(), "Y": rec.array["Y"].tolist(), "Z": rec.array["Z"].tolist(), "dyadic": dy,
               "finding_key": "C06:rescale" if not same else "C06:samescale"}
        ck.case(("rescale", minor, fmt, tuple(fs), tuple(fo), tuple(rs), tuple(ro), rec.array.tobytes()), nontrivial=True)
        ck.count("rescale:" + ("same" if same else "dyadic" if dy else "decimal"))
        try:
            after = append_session(buf.getvalue(), [rec])
            back = laspy.read(io.BytesIO(after))
        except Exception as e:
            ck.fail(f"appending scale-aware records raised {type(e).__name__}: {e}", inp)
            continue
        n0 = len(las.points)
        got = [np.array(back.x)[n0:], np.array(back.y)[n0:], np.array(back.z)[n0:]]
        for ax in range(3):
            err = np.abs(got[ax] - want[ax])
            tol = fs[ax] / 2 * (1 + 1e-9) + 1e-12
            if len(err) != m or np.any(err > tol):
                ck.fail(f"appended scale-aware records do not keep their coordinates on axis {ax}: given {want[ax].tolist()} stored {got[ax].tolist()} (file scale {fs[ax]})", inp)
                break
        if (rec.array.tobytes(), tuple(rec.scales.tolist()), tuple(rec.offsets.tolist())) != snap:
            ck.fail("appending modified the caller's records", inp)
        # the header describes what was stored (extrema recomputed from the records read back, same formula)
        hb = back.header
        if len(back.points):
            for ax, d in enumerate("XYZ"):
                col = back.points.array[d]
                emax, emin = float(col.max() * hb.scales[ax] + hb.offsets[ax]), float(col.min() * hb.scales[ax] + hb.offsets[ax])
                if fio.dbits(hb.maxs[ax]) != fio.dbits(emax) or fio.dbits(hb.mins[ax]) != fio.dbits(emin):
                    ck.fail(f"after appending scale-aware records: header extrema on axis {ax} [{float(hb.mins[ax])}, {float(hb.maxs[ax])}] != "
                            f"those of the stored records [{emin}, {emax}]", dict(inp, finding_key="C06:rescale:extrema"))
                    break
