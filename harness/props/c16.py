"""C16 — COPC HTTP fetching is schedule-independent and always terminates."""
import io
import logging
import threading
import time
import warnings

import numpy as np

from .. import copc as C
from .. import sched as SC

THEOREMS_X = ["X_measure", "xinv_init", "xinv_step", "xinv_run", "X_terminal", "X_bound", "C16_executor"]
THEOREMS = ["C16_measure", "inv_init", "inv_step", "inv_run", "C16_terminal", "C16_joined", "C16_result", "C16_bound",
            "C16_schedule_independent", "C16_sorted", "D16_old_shape_deadlock"]

QUERY_TIMEOUT_S = 15

OPMAP = {"get_nowait": "top", "empty": "top", "get": "get", "task_done": "taskdone"}


def controlled_run(offsets, fails, threads, choose, max_steps=2000, strategy="queue"):
    """http_queue_strategy on real threads under the deterministic scheduler.
    Returns dict(states, schedule, outcome, stuck, leak)"""
    import laspy.copc as lc
    S = SC.Scheduler()
    size = 10
    top = max(offsets) + size
    data = bytearray(top)
    for idx, o in enumerate(offsets):
        data[o:o + size] = bytes([idx + 1]) * size
    ranges = [(o, size) for o in offsets]
    out = bytearray(size * len(ranges))
    last_off = {}
    saved = (lc.Queue, lc.SimpleQueue, lc.requests_retry_session, lc.HttpFetcherThread.start, lc.HttpFetcherThread.run, lc.HttpFetcherThread.join)
    saved_pool = lc.ThreadPoolExecutor
    workers = []

    class Sess(SC.FakeSession):
        def get(self, url, headers=None, **kw):
            a = int(headers["Range"].split("=")[1].split("-")[0])
            last_off[S.me()] = a
            return super().get(url, headers=headers, **kw)

    def start(self):
        tid = S.next_worker
        S.next_worker += 1
        self._verif_tid = tid
        workers.append(self)
        S.announce(tid)
        saved[3](self)

    def run(self):
        S.adopt(self._verif_tid)
        try:
            saved[4](self)
        except SC.Abort:
            pass
        finally:
            S.finish()

    def join(self, timeout=None):
        S.park("joinT", lambda: S.actors[self._verif_tid].state == "finished", detail=str(self._verif_tid - 1))
        saved[5](self, timeout)
    result = {}
    old_hook = threading.excepthook
    threading.excepthook = lambda args: None if issubclass(args.exc_type, SC.Abort) else old_hook(args)
    try:
        queues = []

        def mkq(cls):
            def make(*a, **k):
                qobj = cls(S)
                queues.append(qobj)
                return qobj
            return make
        lc.Queue = mkq(SC.SQueue)
        lc.SimpleQueue = mkq(SC.SSimpleQueue)
        lc.requests_retry_session = lambda *a, **k: Sess(bytes(data), fails, S, fail_kind=lambda off: ["http", "protocol", "http416", "http404", "http", "http503"][(off // 50) % 6])
        lc.HttpFetcherThread.start, lc.HttpFetcherThread.run, lc.HttpFetcherThread.join = start, run, join
        lc.ThreadPoolExecutor = lambda max_workers=None, **k: SC.XPool(S, max_workers)
        source = lc.HttpRangeStream("http://verif.invalid/file.copc.laz")

        def main_actor():
            S.adopt(0)
            try:
                (lc.http_queue_strategy if strategy == "queue" else lc.http_thread_executor_strategy)(source, ranges, out, threads)
                blocks = [out[i * size] for i in range(len(ranges))]
                result["out"] = "data:" + ",".join(str(offsets[b - 1]) if 0 < b <= len(offsets) else "?" for b in blocks)
            except SC.Abort:
                result["out"] = "abort"
            except Exception as e:
                result["out"] = "raised"
                result["exc"] = type(e).__name__
            finally:
                S.finish()
        S.announce(0)
        th = threading.Thread(target=main_actor)
        th.start()
        states, schedule, stuck, leak, keys = [], [], None, None, []
        for step in range(max_steps):
            if not S.wait_quiescent():
                stuck = "a thread neither parked nor finished within 10 s"
                break

            def show(tid):
                a = S.actors[tid]
                if a.state == "finished":
                    return result.get("out", "?") if tid == 0 else ("done" if strategy == "queue" else "exited")
                if strategy == "executor":
                    if tid == 0:
                        return {"wait": "wait" + a.detail, "shutdown": "exiting", "joinP": "joining"}.get(a.op, a.op)
                    return {"take": "idle", "request": f"run@{a.detail}"}.get(a.op, a.op)
                if tid == 0:
                    return a.op + (a.detail if a.op == "joinT" else "")
                if a.op == "request":
                    return f"fetch@{a.detail}"
                if a.op == "put":
                    return f"put@{last_off.get(tid, '?')}/{1 if a.detail == 'ok' else 0}"
                return OPMAP.get(a.op, a.op)
            en = S.enabled()
            wt = sorted(t for t in S.actors if t != 0)
            states.append(f"{show(0)}|{','.join(show(t) for t in wt)}|{','.join(str(t) for t in en)}")
            keys.append(states[-1] + "|" + "/".join(f"{len(qo.items)}:{getattr(qo, 'unfinished', '-')}" for qo in queues))
            if S.actors[0].state == "finished" and leak is None:
                alive = [t for t in wt if S.actors[t].state != "finished"]
                if alive:
                    leak = f"the caller has {'raised' if result.get('out') == 'raised' else 'returned'} while worker(s) {alive} have not finished ({[S.actors[t].op for t in alive]})"
            if not en:
                blocked = [t for t, a in S.actors.items() if a.state == "parked"]
                if blocked:
                    stuck = f"thread(s) {blocked} blocked forever in {[S.actors[t].op for t in blocked]}"
                break
            t = choose(en, step, S)
            schedule.append(t)
            S.release(t)
        else:
            stuck = f"still running after {max_steps} steps"
        S.abort()
        th.join(5)
        for w in workers:
            saved[5](w, 5)
        return {"states": states, "schedule": schedule, "outcome": result.get("out"), "stuck": stuck, "leak": leak, "keys": keys}
    finally:
        lc.Queue, lc.SimpleQueue, lc.requests_retry_session = saved[0], saved[1], saved[2]
        lc.ThreadPoolExecutor = saved_pool
        lc.HttpFetcherThread.start, lc.HttpFetcherThread.run, lc.HttpFetcherThread.join = saved[3], saved[4], saved[5]
        threading.excepthook = old_hook


def policy(rng, kind, fixed=None):
    """scheduling policies: uniform random, sticky (run one thread as long as possible), round robin,
    a fixed schedule (replay)"""
    state = {"cur": None, "rr": 0}

    def choose(en, step, S):
        if fixed is not None:
            if step < len(fixed) and fixed[step] in en:
                return fixed[step]
            return en[0]
        if kind == "random":
            return rng.choice(en)
        if kind == "sticky":
            if state["cur"] in en and rng.random() < 0.8:
                return state["cur"]
            state["cur"] = rng.choice(en)
            return state["cur"]
        if kind == "workers_first":
            w = [t for t in en if t != 0]
            return rng.choice(w) if w and rng.random() < 0.9 else rng.choice(en)
        # round robin over the enabled threads
        state["rr"] += 1
        return en[state["rr"] % len(en)]
    return choose


def explore_all(ck, offsets, fails, threads, lines, meta, limit):
    """every enabled choice from every distinct state the real threads can reach (under the doubles), by re-running the
    implementation along each schedule prefix: exhaustive for the configuration, used to validate the model against the
    code (the statement for all configurations and schedules is the theorem)"""
    seen, frontier, runs, want = set(), [[]], 0, ("raised" if fails else "data:" + ",".join(map(str, offsets)))
    while frontier and runs < limit:
        prefix = frontier.pop()
        r = controlled_run(offsets, fails, threads, policy(None, "fixed", fixed=prefix))
        runs += 1
        inp = {"kind": "schedule", "ranges": offsets, "workers": threads, "fails": fails, "policy": "exhaustive", "schedule": r["schedule"]}
        ck.case(("c16x", tuple(offsets), threads, tuple(fails), tuple(r["schedule"])), nontrivial=True)
        if r["stuck"]:
            ck.fail(f"{r['stuck']} (ranges {offsets}, {threads} workers)", inp)
        if r["leak"]:
            ck.fail(r["leak"], inp)
        if r["outcome"] != want and not r["stuck"]:
            ck.fail(f"outcome {r['outcome']}, expected {want}", inp)
        lines.append(f"ht run 1 1 {','.join(map(str, offsets))} {','.join(map(str, fails)) or '-'} {threads} {','.join(map(str, r['schedule'])) or '-'}")
        meta.append((inp, " ".join(r["states"])))
        # expand: from every state along this run, every enabled choice not yet taken from that state
        for i, key in enumerate(r["keys"]):
            en = [int(t) for t in key.split("|")[2].split(",") if t]
            for t in en:
                if (key, t) not in seen:
                    seen.add((key, t))
                    if i < len(r["schedule"]) and r["schedule"][i] == t:
                        continue            # this run took that choice here
                    frontier.append(r["schedule"][:i] + [t])
    ck.count(f"exhaustive:{len(offsets)}ranges_{threads}workers_{len(fails)}fail:runs", runs)
    ck.count(f"exhaustive:{len(offsets)}ranges_{threads}workers_{len(fails)}fail:transitions", len(seen))
    if frontier:
        ck.count("exhaustive_truncated_at_limit")


def run(ck):
    logging.getLogger("laspy").setLevel(logging.CRITICAL)
    warnings.simplefilter("ignore")
    import laspy.copc as lc
    from laspy.copc import Bounds, CopcReader
    ck.rule = ("(a) the real HttpFetcherThread / http_queue_strategy / HttpRangeStream / ChunkIter on real threads under a deterministic "
               "scheduler (queue and session doubles park every queue operation and request completion): 1..5 ranges x 1..4 workers x "
               "failing subsets x scheduling policies (uniform, sticky, round robin, workers first); the state after every step "
               "(caller's position, each worker's position, enabled set) and the outcome are compared with the Lean transition system "
               "driven by the same schedule; a quiescent state with a live thread, a caller that returns before its workers finished, "
               "misplaced or missing blocks are searched for directly. (b) whole CopcReader queries over an in-process HTTP transport "
               "(both strategies, 1..6 workers, failing requests, completion order inverted by delays) compared with the local-file "
               "query, threading.enumerate() checked after return. distinct by case")
    ck.regen()
    ck.lean_props("C16", THEOREMS, keep_lock=True)
    ck.lean_props("C16X", THEOREMS_X)
    q = ck.tier == "quick"
    lines, meta = [], []
    # ------------------------------------------------------------------ (a) controlled schedules
    nruns = 120 if q else 2500
    for ri in range(nruns):
        n = ck.rng.choice([1, 2, 2, 3, 3, 4, 5])
        threads = ck.rng.choice([1, 2, 2, 3, 4])
        offsets = sorted(ck.rng.sample(range(100, 2000, 50), n))
        fails = sorted(o for o in offsets if ck.rng.random() < (0.25 if ri % 3 == 0 else 0.0))
        kind = ["random", "sticky", "rr", "workers_first"][ri % 4]
        inp = {"kind": "schedule", "ranges": offsets, "workers": threads, "fails": fails, "policy": kind}
        r = controlled_run(offsets, fails, threads, policy(ck.rng, kind))
        inp["schedule"] = r["schedule"]
        ck.case(("c16", tuple(offsets), threads, tuple(fails), tuple(r["schedule"])), nontrivial=n > 1 and threads > 1)
        ck.count(f"ranges:{n}")
        ck.count(f"workers:{min(n, threads)}")
        ck.count("with_failure" if fails else "no_failure")
        if r["stuck"]:
            ck.fail(f"{r['stuck']} (ranges {offsets}, {threads} workers)", inp)
        if r["leak"]:
            ck.fail(r["leak"], inp)
        want = "raised" if fails else "data:" + ",".join(map(str, offsets))
        if r["outcome"] != want and not r["stuck"]:
            ck.fail(f"outcome {r['outcome']}, expected {want}", inp)
        lines.append(f"ht run 1 1 {','.join(map(str, offsets))} {','.join(map(str, fails)) or '-'} {threads} {','.join(map(str, r['schedule'])) or '-'}")
        meta.append((inp, " ".join(r["states"])))
        lines.append(f"ht mu {n} {threads}")
        meta.append((dict(inp, kind="bound"), ("mu", len(r["schedule"]))))
        # the same configuration under the executor strategy (pool double: FIFO work queue, futures read in order)
        rx = controlled_run(offsets, fails, threads, policy(ck.rng, kind), strategy="executor")
        inpx = dict(inp, strategy="executor", schedule=rx["schedule"])
        ck.case(("c16x", tuple(offsets), threads, tuple(fails), tuple(rx["schedule"])), nontrivial=n > 1 and threads > 1)
        ck.count("executor_runs")
        if rx["stuck"]:
            ck.fail(f"executor strategy: {rx['stuck']} (ranges {offsets}, {threads} workers)", inpx)
        if rx["leak"]:
            ck.fail("executor strategy: " + rx["leak"], inpx)
        if rx["outcome"] != want and not rx["stuck"]:
            ck.fail(f"executor strategy: outcome {rx['outcome']}, expected {want}", inpx)
        lines.append(f"ht xrun {','.join(map(str, offsets))} {','.join(map(str, fails)) or '-'} {threads} {','.join(map(str, rx['schedule'])) or '-'}")
        meta.append((inpx, " ".join(rx["states"])))
        if ri < 3:
            ck.sample(inp)
    # ------------------------------------------------------------------ (a') all schedules of small configurations
    configs = [([100, 200], [], 2), ([100, 200], [200], 2)] if q else \
        [([100, 200], [], 2), ([100, 200], [200], 2), ([100], [], 3), ([100, 200, 300], [], 2), ([100, 200, 300], [100], 2),
         ([100, 200], [], 3), ([100, 200, 300], [], 3)]
    for offs, fl, th in configs:
        explore_all(ck, offs, fl, th, lines, meta, 400 if q else 20000)
    # ------------------------------------------------------------------ (b) whole queries over HTTP
    import lazrs  # noqa: F401  (the backend double)
    nq = 12 if q else 150
    saved_session = lc.requests_retry_session
    saved_init = lc.HttpFetcherThread.__init__

    def daemon_init(self, *a, **k):
        saved_init(self, *a, **k)
        self.daemon = True          # harness only: a leaked worker must not hang the interpreter at exit
    lc.HttpFetcherThread.__init__ = daemon_init
    saved_seek = lc.HttpRangeStream.seek
    main_ident = threading.get_ident()

    def slow_seek(self, pos, whence=io.SEEK_SET):
        # schedule perturbation only: a worker is preempted between its seek() and its read()
        r = saved_seek(self, pos, whence)
        if threading.get_ident() != main_ident and hasattr(self, "_verif_jitter"):
            time.sleep(self._verif_jitter * ((pos % 7) + 1))
        return r
    lc.HttpRangeStream.seek = slow_seek
    hung = False
    try:
        for qi in range(nq):
            t = C.gen_tree(ck.rng, depth=ck.rng.randrange(1, 4), p_child=0.6)
            C.assign_pages(ck.rng, t, p_owner=0.8 if qi % 4 == 0 else 0.3)
            data = C.build(ck.rng, t)
            strategy = ["queue", "executor"][(qi // 4) % 2 if qi % 4 == 0 else qi % 2]
            workers = ck.rng.choice([1, 2, 3, 6])
            local = CopcReader(io.BytesIO(data))
            captured = []
            orig = local._fetch_all_chunks

            def spy(groups, _orig=orig, _cap=captured):
                _cap.extend((g[0].offset, sum(nn.byte_size for nn in g)) for g in groups)
                return _orig(groups)
            local._fetch_all_chunks = spy
            box = None
            if qi % 3 == 1:
                lo = [t.root_grid[i] * t.scale + t.offsets[i] for i in range(3)]
                box = Bounds(np.array(lo), np.array([v + t.G * t.scale * 0.6 for v in lo]))
            level = range(0, 3) if qi % 4 == 2 else None
            want = local.query(bounds=box, level=level)
            real_ranges = [c for c in captured if c[1] > 0]
            fails = sorted({c[0] for c in real_ranges if ck.rng.random() < 0.3}) if qi % 3 == 2 else []
            page_fail = None
            subpages = sorted(loc[0] for pid, loc in t.page_loc.items() if pid != 0 and loc[1] > 0)
            if qi % 4 == 0 and subpages and box is None and level is None:
                # the request for a hierarchy page (not for a chunk) fails: the query cannot know the subtree, so it must raise, not return less
                page_fail = ck.rng.choice(subpages)
                fails = [page_fail]
                ck.count("failing_hierarchy_page_request")
            inp = {"kind": "http_query", "strategy": strategy, "workers": workers, "ranges": len(captured), "fails": fails,
                   "nodes": len(t.nodes), "box": box is not None, "level": None if level is None else "0,3,1"}
            ck.case(("c16q", qi, strategy, workers, tuple(fails), hash(data)), nontrivial=len(real_ranges) > 1)
            ck.count("strategy:" + strategy)
            hi = max([c[0] for c in captured] + [1])
            lc.requests_retry_session = lambda *a, _d=data, _f=fails, _hi=hi, **k: SC.FakeSession(
                _d, _f, delay=lambda off, _hi=_hi: time.sleep(max(0.0, 0.002 * (1.0 - off / (_hi + 1.0)))),
                fail_kind=lambda off: ["http", "protocol", "http416", "http403", "http416", "http429"][off % 6])
            before = {th.ident for th in threading.enumerate()}
            rd = CopcReader(lc.HttpRangeStream("http://verif.invalid/f.copc.laz"), http_num_threads=workers, _http_strategy=strategy)
            lc.HttpRangeStream._verif_jitter = 0.0008 if qi % 2 else 0.0
            box_ = {}

            def do_query():
                try:
                    box_["got"] = rd.query(bounds=box, level=level)
                except Exception as e:
                    box_["exc"] = e
            qt = threading.Thread(target=do_query, daemon=True)
            qt.start()
            qt.join(QUERY_TIMEOUT_S)
            if qt.is_alive():
                ck.fail(f"the HTTP query neither returned nor raised within {QUERY_TIMEOUT_S} s ({strategy} strategy, {workers} workers, "
                        f"{len(real_ranges)} ranges, failing requests {fails})", inp)
                hung = True
                continue
            got, exc = box_.get("got"), box_.get("exc")
            left = [th for th in threading.enumerate() if th.ident not in before and th.is_alive()]
            if left:
                time.sleep(0.05)
                still = [th for th in left if th.is_alive()]
                ck.fail(f"{len(left)} thread(s) started by the query are alive when it {'raises' if exc else 'returns'}"
                        + (f" ({len(still)} still alive 50 ms later)" if still else ""), inp)
            if page_fail is not None:
                if exc is None:
                    ck.fail(f"the request for the hierarchy page at byte {page_fail} failed; the query returned {len(got)} points (the local file gives {len(want)}) "
                            f"instead of raising", dict(inp, failing_page=page_fail))
            elif fails and real_ranges and any(f in [c[0] for c in real_ranges] for f in fails):
                if exc is None:
                    ck.fail("a failed range request did not surface as an exception", inp)
            elif exc is not None:
                ck.fail(f"HTTP query raised {type(exc).__name__}: {exc}", inp)
            elif got.array.tobytes() != want.array.tobytes():
                ck.fail("HTTP query returns different records than the local-file query", inp)
    finally:
        lc.requests_retry_session = saved_session
        lc.HttpFetcherThread.__init__ = saved_init
        lc.HttpRangeStream.seek = saved_seek
    # ------------------------------------------------------------------ model vs implementation
    out = ck.driver(lines)
    bad = None
    if out is None or len(out) != len(lines):
        bad = "driver did not run"
    else:
        for (inp, exp), o in zip(meta, out):
            if isinstance(exp, tuple):
                if exp[1] > int(o):
                    ck.fail(f"a schedule of {exp[1]} steps exceeds the proved bound mu = {o}", inp, source="correspondence")
                    bad = bad or f"bound {inp}"
                continue
            if o.strip() != exp.strip():
                if bad is None:
                    a, b = o.split(), exp.split()
                    k = next((i for i in range(min(len(a), len(b))) if a[i] != b[i]), min(len(a), len(b)))
                    bad = f"{inp}: at step {k}: model '{' '.join(a[k:k + 2])}' impl '{' '.join(b[k:k + 2])}'"
    ck.oblige("correspondence http: model transition system == real HttpFetcherThread/http_queue_strategy under the same schedules (state after every step, enabled sets, outcome)",
              "correspondence", bad is None, bad or "")
    ck.failures.sort(key=lambda f: (len(f["input"].get("schedule", [])), len(str(f["input"]))))
    if ck.tier == "thorough":
        ck.leanchecker(["LasModel.Props.C16"])
