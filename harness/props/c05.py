"""C05 — the reader is a faithful cursor over the file's point sequence."""
import io
import itertools
import logging

import numpy as np

from .. import fileio as fio
from . import c08

THEOREMS = ["seek_spec", "step_refines", "C05_refines", "C05_read", "C05_seek", "C05_bound", "C05_bytes", "readPoints_generated"]


def rand_op(rng, count):
    k = rng.random()
    big = rng.choice([10**6, -10**6, 2**40, -(2**40)])
    if k < 0.4:
        n = rng.choice([rng.randrange(-count - 3, count + 4), 0, 1, -1, big])
        return ("r", n)
    if k < 0.75:
        pos = rng.choice([rng.randrange(-count - 3, count + 4), 0, -1, count, count - 1, -count, big])
        return ("s", pos, rng.choice([0, 1, 2, 0, 1, 2, 3, 7]))
    if k < 0.95:
        return ("n", rng.choice([1, 1, 2, 3, count + 2, max(1, count)]))
    return ("a",)


def tok(op):
    return ":".join(str(x) for x in op)


class SpecCursor:
    """plain-Python statement of the property (oracle)"""

    def __init__(self, count):
        self.count, self.c = count, 0

    def apply(self, op):
        if op[0] in ("r", "a", "n"):
            n = -1 if op[0] == "a" else op[1]
            rest = self.count - self.c
            m = rest if n < 0 else min(n, rest)
            start = self.c
            self.c += m
            if op[0] == "n" and m == 0:
                return "stop"
            return f"slice:{start}:{m}"
        _, pos, whence = op
        if whence not in (0, 1, 2):
            return "ValueError"
        target = pos if whence == 0 else self.c + pos if whence == 1 else self.count + pos
        if 0 <= target < self.count:
            self.c = target
            return f"cursor:{target}"
        return "IndexError"


def run_impl(data, ops, full_bytes, size):
    """drive a real LasReader; every returned record block is located in the file's full point array"""
    import laspy
    outs = []
    with laspy.open(io.BytesIO(data), laz_backend=() if data[104] & 0x80 else None) as rd:
        iters = {}
        for op in ops:
            try:
                if op[0] == "r":
                    pts = rd.read_points(op[1])
                elif op[0] == "a":
                    pts = rd.read().points
                elif op[0] == "n":
                    it = iters.setdefault(op[1], rd.chunk_iterator(op[1]))
                    pts = next(it)
                else:
                    c = rd.seek(op[1], op[2])
                    outs.append(f"cursor:{c}")
                    continue
            except StopIteration:
                outs.append("stop")
                continue
            except IndexError:
                outs.append("IndexError")
                continue
            except ValueError:
                outs.append("ValueError")
                continue
            got = pts.array.tobytes()
            outs.append(("blk", got, len(pts), pts))
        cur = rd.points_read
        # every returned record set is kept until the end of the history: what a step returned must not be altered by later steps
        for i, o in enumerate(outs):
            if isinstance(o, tuple):
                later = o[3].array.tobytes()
                outs[i] = ("blk", o[1], o[2]) if later == o[1] else ("blk", later, o[2], "altered")
    return outs, cur


def run(ck):
    logging.getLogger("laspy").setLevel(logging.CRITICAL)
    ck.rule = ("seeded operation sequences (length 1..40; thorough also all sequences of length <= 3 over a small alphabet on a "
               "3-point file) over {read_points(n), seek(pos, SET|CUR|END|invalid), next(chunk_iterator(k)) with iterators kept "
               "alive and partially consumed, read()} on real LasReader objects over files with 0, 1, many points of every legal "
               "(version, format) pair, with trailing EVLRs; n and pos drawn from [-count-3, count+3] and huge magnitudes. "
               "Each returned block must be exactly full[start:start+len] as predicted by the model and by the Python cursor "
               "oracle. non-trivial = sequence with at least one read and one seek; distinct by (file, sequence)")
    ck.regen()
    ck.lean_props("C05", THEOREMS)
    q = ck.tier == "quick"
    jobs = []
    for _ in range(150 if q else 4000):
        count = ck.rng.choice([0, 1, 2, 3, 10, 37])
        ops = [rand_op(ck.rng, count) for _ in range(ck.rng.randrange(1, 41))]
        jobs.append((count, ops))
    alphabet = [("r", 1), ("r", -1), ("r", 5), ("s", 0, 0), ("s", 2, 0), ("s", 3, 0), ("s", -1, 2), ("s", 1, 1), ("s", -1, 1), ("n", 2), ("a",)]
    if not q:
        for L in (1, 2, 3):
            for seq in itertools.product(alphabet, repeat=L):
                jobs.append((3, list(seq)))
    else:
        for seq in itertools.product(alphabet, repeat=2):
            jobs.append((3, list(seq)))
    # reads whose byte size is an exact multiple of the internal block sizes (64 KiB, 1 MiB): 2**16 and 2**15 points at once,
    # from the start and after a seek, on a file with a few hundred points more than that and EVLRs behind them
    big = 2 ** 16 + 300
    for ops in ([("r", 2 ** 16), ("r", 50), ("r", -1)], [("n", 2 ** 15), ("n", 2 ** 15), ("n", 2 ** 15), ("n", 2 ** 15)],
                [("s", 25, 0), ("r", 2 ** 16), ("r", 7)], [("r", 2 ** 14), ("r", 2 ** 14), ("s", 0, 0), ("r", 3 * 2 ** 14), ("a",)]):
        jobs.append((big, ops))
    lines, meta = [], []
    files = {}
    for count, ops in jobs:
        key = (count, 0) if count > 10000 else (count, ck.rng.randrange(4))
        if key not in files:
            if count > 10000:
                import laspy as _l
                minor, fmt = ck.rng.choice([(2, 0), (4, 6), (2, 1)])
                evlrs = [("verif", 1, "after the points", bytes(range(200)))] if minor >= 4 else None
                rawb = np.random.RandomState(ck.rng.randrange(2 ** 31)).bytes(count * _l.PointFormat(fmt).size)
                las = fio.make_las(ck.rng, minor, fmt, count, raw=rawb, evlrs=evlrs)
            else:
                minor, fmt = ck.rng.choice(fio.PAIRS)
                evlrs = fio.rand_vlrs(ck.rng, True) if minor >= 4 else None
                las = fio.make_las(ck.rng, minor, fmt, count, evlrs=evlrs)
            buf = io.BytesIO()
            if count == 0 and key[1] == 3:
                # no point, flagged compressed (LasZip record among the VLRs): nothing has to be decompressed to read it
                las = fio.make_las(ck.rng, minor, fmt, 0, evlrs=None, vlrs=[("laszip encoded", 22204, "", bytes(34))])
                las.write(buf)
                flagged = bytearray(buf.getvalue())
                flagged[104] |= 0x80
                buf = io.BytesIO(bytes(flagged))
                ck.count("empty_file_flagged_compressed")
            else:
                las.write(buf)
            files[key] = (buf.getvalue(), las.points.array.tobytes(), las.header.point_format.size, minor, fmt)
        data, full, size, minor, fmt = files[key]
        inp = {"kind": "history", "count": count, "minor": minor, "fmt": fmt, "ops": [tok(o) for o in ops]}
        ck.case(("c05", key, tuple(map(tok, ops))), nontrivial=any(o[0] == "s" for o in ops) and any(o[0] != "s" for o in ops))
        for o in ops:
            ck.count("op:" + o[0])
        try:
            outs, cur = run_impl(data, ops, full, size)
        except Exception as e:
            ck.fail(f"the reader raised {type(e).__name__}: {e}", inp)
            continue
        spec = SpecCursor(count)
        canon = []
        for i, (op, o) in enumerate(zip(ops, outs)):
            want = spec.apply(op)
            if isinstance(o, tuple):
                if len(o) == 4:
                    ck.fail(f"step {i} ({tok(op)}): the records it returned were altered by later calls on the reader", inp)
                _, got, n = o[:3]
                if want.startswith("slice"):
                    _, a, l = want.split(":")
                    a, l = int(a), int(l)
                    if got != full[a * size:(a + l) * size]:
                        ck.fail(f"step {i} ({tok(op)}): returned {n} records that are not records [{a}, {a + l}) of the file", inp)
                    canon.append(f"slice:{a}:{n}")
                    if n != l:
                        ck.fail(f"step {i} ({tok(op)}): returned {n} records, the cursor model predicts {l}", inp)
                    ck.count("read_len=0" if l == 0 else "read_len>0")
                else:
                    ck.fail(f"step {i} ({tok(op)}): returned records where the cursor model predicts {want}", inp)
                    canon.append("slice:?")
            else:
                canon.append(o)
                if o != want:
                    ck.fail(f"step {i} ({tok(op)}): {o}, the cursor model predicts {want}", inp)
                ck.count("out:" + o.split(":")[0])
        if cur != spec.c:
            ck.fail(f"final cursor {cur} != {spec.c}", inp)
        lines.append(f"rd run {count} " + " ".join(tok(o) for o in ops))
        meta.append((inp, " ".join(canon) + f" | {cur}"))
        if len(ck.samples) < 3:
            ck.sample(inp)
    out = ck.driver(lines)
    bad = None
    if out is None or len(out) != len(lines):
        bad = "driver did not run"
    else:
        for (inp, exp), o in zip(meta, out):
            if o != exp and bad is None:
                bad = f"{inp}: model '{o[:200]}' impl '{exp[:200]}'"
    ck.oblige("correspondence fileio/cursor: model run (generated seek + read_points) == real LasReader on operation sequences", "correspondence", bad is None, bad or "")
    ck.failures.sort(key=lambda f: len(f["input"].get("ops", [])))
    if ck.tier == "thorough":
        ck.leanchecker(["LasModel.Props.C05"])
