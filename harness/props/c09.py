"""C09 — bit-packed sub-fields are exact and isolated."""
import numpy as np

THEOREMS = ["C09_bits_of_the_dimension", "C09_masks_cover", "C09_bytes_in_layout", "C09_lsb_correct", "C09_disjoint", "C09_get_set",
            "C09_isolated", "getBits_of_clear_eq", "C09_siblings", "C09_range", "scatter_frame",
            "scatter_spec", "C09_frame", "C09_addressed", "C09_history"]

INT_DTYPES = ["u1", "i1", "u2", "i2", "u4", "i4", "u8", "i8"]


def subfields(fmt):
    from laspy.point import dims
    res = []
    for cname, subs in dims.COMPOSED_FIELDS[fmt].items():
        for s in subs:
            res.append((cname, s.name, int(s.mask)))
    return res


# the bits of each named dimension as the ASPRS tables give them: (byte name, dimension, lowest bit, width)
SPEC_BITS_05 = [("bit_fields", "return_number", 0, 3), ("bit_fields", "number_of_returns", 3, 3), ("bit_fields", "scan_direction_flag", 6, 1),
                ("bit_fields", "edge_of_flight_line", 7, 1), ("raw_classification", "classification", 0, 5), ("raw_classification", "synthetic", 5, 1),
                ("raw_classification", "key_point", 6, 1), ("raw_classification", "withheld", 7, 1)]
SPEC_BITS_610 = [("bit_fields", "return_number", 0, 4), ("bit_fields", "number_of_returns", 4, 4), ("classification_flags", "synthetic", 0, 1),
                 ("classification_flags", "key_point", 1, 1), ("classification_flags", "withheld", 2, 1), ("classification_flags", "overlap", 3, 1),
                 ("classification_flags", "scanner_channel", 4, 2), ("classification_flags", "scan_direction_flag", 6, 1),
                 ("classification_flags", "edge_of_flight_line", 7, 1)]


def spec_bits_layer(ck):
    """assigning the largest value to a named dimension of an all-zero record sets exactly the bits the layout gives that dimension"""
    from laspy import PackedPointRecord, PointFormat
    for fmt in range(11):
        for cname, name, lsb, width in (SPEC_BITS_05 if fmt <= 5 else SPEC_BITS_610):
            rec = PackedPointRecord.zeros(3, PointFormat(fmt))
            mx = (1 << width) - 1
            inp = {"kind": "spec_bits", "fmt": fmt, "field": name, "value": mx}
            ck.evaluations += 1
            ck.case(("spec_bits", fmt, name))
            try:
                rec[name][:] = mx
                raw = bytes(rec.array.tobytes())
            except Exception as e:
                ck.fail(f"fmt {fmt}: {name}[:] = {mx} raised {type(e).__name__}: {e}", inp)
                continue
            size = rec.array.dtype.itemsize
            exp = bytearray(3 * size)
            try:
                off = rec.array.dtype.fields[cname][1]
            except KeyError:
                ck.fail(f"fmt {fmt}: the record has no packed byte {cname!r} for {name}", inp)
                continue
            for p in range(3):
                exp[p * size + off] = mx << lsb
            if raw != bytes(exp):
                got = raw[off]
                ck.fail(f"fmt {fmt}: {name}[:] = {mx} on zero bytes gives 0x{got:02x} in {cname}, the LAS layout puts that dimension at 0x{mx << lsb:02x}", inp)


def lsb_of(mask):
    return (mask & -mask).bit_length() - 1


def hexs(arr):
    b = bytes(bytearray(int(x) & 0xFF for x in arr))
    return b.hex() if b else "-"


def new_record(fmt, n, rng):
    from laspy import PackedPointRecord, PointFormat
    pf = PointFormat(fmt)
    raw = bytes(rng.getrandbits(8) for _ in range(n * pf.size))
    arr = np.frombuffer(bytearray(raw), dtype=pf.dtype()).copy()
    return PackedPointRecord(arr, pf)


def expected_image(before, rec_size, off, mask, idxs, vals):
    """plain-Python statement of the property on raw record bytes"""
    img = bytearray(before)
    lsb = lsb_of(mask)
    for i, v in zip(idxs, vals):
        p = i * rec_size + off
        img[p] = (img[p] & ~mask & 0xFF) | ((v << lsb) & 0xFF)
    return bytes(img)


def do_assign(rec, name, key, value):
    """returns (error enum or None)"""
    try:
        if key is None:
            rec[name] = value
        else:
            rec[name][key] = value
        return None
    except OverflowError:
        return "Overflow"
    except Exception as e:  # outside the property (loud failures): reported to caller
        return "Other:" + type(e).__name__


def single_byte_layer(ck):
    """every format x sub-field x 256 prior bytes x values -3..max+3 and huge magnitudes"""
    lines, meta = [], []
    from laspy.point import dims
    for fmt in sorted(dims.POINT_FORMAT_DIMENSIONS.keys()):
        for cname, name, mask in subfields(fmt):
            mx = mask >> lsb_of(mask)
            values = list(range(-3, mx + 4)) + [2**31, -(2**31), 2**63 - 1, 255, 256, -128]
            for v in values:
                rec = new_record(fmt, 256, ck.rng)
                rec.array[cname] = np.arange(256, dtype="u1")
                before = rec.array.tobytes()
                err = do_assign(rec, name, slice(None), v)
                after = rec.array.tobytes()
                off = rec.array.dtype.fields[cname][1]
                size = rec.array.dtype.itemsize
                inr = 0 <= v <= mx
                ck.case(("single", fmt, name, v), nontrivial=True)
                ck.count("single_in_range" if inr else "single_out_of_range")
                # direct oracle
                if inr:
                    exp = expected_image(before, size, off, mask, range(256), [v] * 256)
                    if err is not None or after != exp:
                        bad = next((b for b in range(256) if after[b * size:(b + 1) * size] != exp[b * size:(b + 1) * size]), None)
                        ck.fail(f"fmt {fmt} {name}[:] = {v}: " + (f"raised {err}" if err else f"prior byte {bad:#04x} became {after[bad*size+off]:#04x}, expected {exp[bad*size+off]:#04x} (or another byte of the record changed)"),
                                {"kind": "single", "fmt": fmt, "name": name, "value": v, "finding_key": f"C09:single:{name}:{'neg' if v < 0 else 'pos'}"})
                    got = list(np.array(rec[name]))
                    if err is None and got != [v] * 256:
                        ck.fail(f"fmt {fmt} {name}[:] = {v}: reads back {sorted(set(got))[:4]}",
                                {"kind": "single", "fmt": fmt, "name": name, "value": v})
                else:
                    if err != "Overflow" or after != before:
                        b0 = next((b for b in range(256) if after[b * size:(b + 1) * size] != before[b * size:(b + 1) * size]), None)
                        ck.fail(f"fmt {fmt} {name}[:] = {v} (out of range 0..{mx}): " + (f"no OverflowError (got {err})" if err != "Overflow" else "raised but modified data")
                                + (f"; packed byte {b0:#04x} became {after[b0*size+off]:#04x}" if b0 is not None else ""),
                                {"kind": "single", "fmt": fmt, "name": name, "value": v, "finding_key": f"C09:single:{name}:{'neg' if v < 0 else 'big'}"})
                lines.append(f"sf sweep {mask} {v}")
                col = np.frombuffer(after, dtype=rec.array.dtype)[cname]
                meta.append((fmt, name, v, "EE" * 256 if err == "Overflow" else hexs(col), err))
    out = ck.driver(lines)
    bad = None
    if out is None:
        bad = "driver did not run"
    else:
        for (fmt, name, v, exp, err), o in zip(meta, out):
            if o != exp and bad is None:
                k = next((i for i in range(256) if o[2 * i:2 * i + 2] != exp[2 * i:2 * i + 2]), 0)
                bad = f"fmt {fmt} {name}[:]={v} prior byte {k:#04x}: model {o[2*k:2*k+2]} impl {exp[2*k:2*k+2]} ({err})"
    ck.oblige("correspondence bits/subfield-single: model assignCol == SubFieldView.__setitem__ on every format x sub-field x 256 bytes x values",
              "correspondence", bad is None, bad or "")
    ck.sample({"layer": "single", "example": "fmt 3 classification[:] = 5 on bytes 0..255", "cases": len(lines)})
    ck.evaluations += len(lines) * 255  # each line covers 256 prior bytes


def gen_key(rng, n):
    kind = rng.choice(["whole", "slice", "mask", "list", "int", "list_dup", "empty"])
    if kind == "whole":
        return kind, slice(None)
    if kind == "slice":
        a = rng.randrange(-n - 1, n + 2)
        b = rng.randrange(-n - 1, n + 2)
        st = rng.choice([1, 1, 2, 3, -1, -2])
        return kind, slice(a, b, st)
    if kind == "mask":
        return kind, np.array([rng.random() < 0.5 for _ in range(n)], dtype=bool)
    if kind == "list":
        k = rng.randrange(0, n + 1)
        return kind, rng.sample(range(-n, n), k) if n else []
    if kind == "list_dup":
        return kind, [rng.randrange(-n, n) for _ in range(rng.randrange(1, n + 3))] if n else []
    if kind == "int":
        return kind, rng.randrange(-n, n) if n else 0
    return kind, slice(0, 0)


def gen_value(rng, mx, count, force_bad=None, scalar_only=False):
    """returns (flavour, value object, list of python ints broadcast to `count`)"""
    bad = rng.random() < 0.2 if force_bad is None else force_bad
    flavour = rng.choice(["int", "npscalar"] if scalar_only else ["int", "bool", "list", "nparr", "npscalar", "arr1"])
    if flavour == "bool" and bad:
        flavour = "int"

    def one():
        return rng.randrange(0, mx + 1)

    def badv(signed_ok=True):
        c = [mx + 1, mx + 2, 255]
        if signed_ok:
            c += [-1, -2, -128]
        return rng.choice(c)

    if flavour == "int":
        v = badv() if bad else one()
        return flavour, v, [v] * count
    if flavour == "bool":
        # booleans are the in-range values 0 and 1 of every field, also of the multi-bit ones
        if count and rng.random() < 0.6:
            bs = [rng.random() < 0.5 for _ in range(count)]
            return flavour, np.array(bs, dtype=bool), [int(b) for b in bs]
        v = rng.random() < 0.5
        return flavour, np.array([v] * max(count, 1), dtype=bool)[:count] if count else v, [int(v)] * count
    if flavour == "npscalar":
        dt = rng.choice(INT_DTYPES)
        v = badv(signed_ok=dt.startswith("i")) if bad else one()
        if v > np.iinfo(dt).max:
            v = one()
        return flavour + ":" + dt, np.dtype(dt).type(v), [int(v)] * count
    if flavour == "arr1":
        v = badv() if bad else one()
        return flavour, np.array([v]), [v] * count
    vals = [one() for _ in range(count)]
    if bad and count:
        vals[rng.randrange(count)] = badv(signed_ok=True)
    if flavour == "list":
        return flavour, list(vals), vals
    dt = rng.choice(INT_DTYPES)
    if any(v < 0 for v in vals) and dt.startswith("u"):
        dt = "i" + dt[1:]
    vals = [min(v, int(np.iinfo(dt).max)) for v in vals]
    return "nparr:" + dt, np.array(vals, dtype=dt), vals


def array_layer(ck, n_hist):
    from laspy.point import dims
    fmts = sorted(dims.POINT_FORMAT_DIMENSIONS.keys())
    lines, meta = [], []
    skipped = 0
    for h in range(n_hist):
        fmt = ck.rng.choice(fmts)
        n = ck.rng.choice([0, 1, 2, 3, 5, 8, 13, 40])
        rec = new_record(fmt, n, ck.rng)
        size = rec.array.dtype.itemsize
        steps = ck.rng.randrange(1, 6)
        hist = []
        for _ in range(steps):
            cname, name, mask = ck.rng.choice(subfields(fmt))
            mx = mask >> lsb_of(mask)
            off = rec.array.dtype.fields[cname][1]
            kkind, key = gen_key(ck.rng, n)
            try:
                idxs = np.arange(n)[key]
            except IndexError:
                continue
            idxs = [int(idxs)] if np.ndim(idxs) == 0 else [int(i) for i in idxs]
            whole_attr = kkind == "whole" and ck.rng.random() < 0.5 and n > 0
            flav, value, vals = gen_value(ck.rng, mx, len(idxs), scalar_only=(kkind == "int"))
            if whole_attr and not hasattr(value, "__len__"):
                value, flav = [vals[0]] * n, "list"
            if whole_attr and len(value) != n:
                value, flav, vals = list(vals), "list", vals
            before = rec.array.tobytes()
            colb = rec.array[cname].copy()
            err = do_assign(rec, name, None if whole_attr else key, value)
            after = rec.array.tobytes()
            inr = all(0 <= v <= mx for v in vals)
            desc = {"fmt": fmt, "n": n, "field": name, "key_kind": kkind, "key": repr(key)[:80], "value_kind": flav, "values": vals[:8], "in_range": inr}
            hist.append(desc)
            ck.count("key:" + kkind)
            ck.count("val:" + flav.split(":")[0])
            ck.count("array_in_range" if inr else "array_out_of_range")
            if err is not None and err.startswith("Other"):
                # outside the property (e.g. a scalar given where a sized value is needed)
                skipped += 1
                ck.count("skipped:" + err)
                if after != before:
                    ck.count("skipped_but_modified")
                continue
            ck.case(("arr", fmt, n, name, kkind, flav, tuple(vals), before), nontrivial=len(idxs) > 0)
            fk = f"C09:array:{'neg' if any(v < 0 for v in vals) else 'big' if not inr else 'ok'}"
            inp = {"kind": "array", "fmt": fmt, "before": before.hex(), "field": name, "key": key_to_json(key), "value": vals, "value_kind": flav, "whole_attr": whole_attr, "finding_key": fk}
            if not idxs:
                # nothing addressed: nothing may change; raising for an out-of-range value is allowed
                if after != before:
                    ck.fail(f"assignment through an empty selection modified the record", inp)
                continue
            if inr:
                exp = expected_image(before, size, off, mask, idxs, vals)
                if err is not None:
                    ck.fail(f"in-range assignment {name}[{kkind}] = {vals[:5]} raised {err}", inp)
                elif after != exp:
                    ck.fail(f"{name}[{kkind}] = {vals[:5]} ({flav}): record bytes differ from the expected image", inp)
            else:
                if err != "Overflow":
                    ck.fail(f"out-of-range assignment {name}[{kkind}] = {vals[:5]} ({flav}) did not raise OverflowError", inp)
                elif after != before:
                    ck.fail(f"out-of-range assignment {name}[{kkind}] = {vals[:5]} raised but modified the record", inp)
            lines.append(f"sf assign {mask} {hexs(colb)} " + (",".join(map(str, idxs)) or "-") + " " + (",".join(map(str, vals)) or "-"))
            meta.append((desc, "err Overflow" if err == "Overflow" else "ok " + hexs(np.frombuffer(after, dtype=rec.array.dtype)[cname])))
        if hist:
            ck.sample({"layer": "array", "history": hist}, limit=4)
    out = ck.driver(lines)
    bad = None
    if out is None:
        bad = "driver did not run"
    else:
        for (desc, exp), o in zip(meta, out):
            if o != exp and bad is None:
                bad = f"{desc}: model {o[:60]} impl {exp[:60]}"
    ck.oblige("correspondence bits/subfield-array: model assignCol == real assignment for index expressions x value kinds x histories",
              "correspondence", bad is None, bad or "")
    ck.count("array_skipped_outside_property", skipped)


def key_to_json(key):
    if isinstance(key, slice):
        return {"slice": [key.start, key.stop, key.step]}
    if isinstance(key, np.ndarray):
        return {"mask": [bool(x) for x in key]}
    if isinstance(key, list):
        return {"list": key}
    return {"int": int(key)}


def key_from_json(j):
    if "slice" in j:
        return slice(*j["slice"])
    if "mask" in j:
        return np.array(j["mask"], dtype=bool)
    if "list" in j:
        return j["list"]
    return j["int"]


def replay(inp):
    from laspy import PackedPointRecord, PointFormat
    from laspy.point import dims
    if inp["kind"] == "spec_bits":
        fmt, name, mx = inp["fmt"], inp["field"], inp["value"]
        cname, _, lsb, width = next(r for r in (SPEC_BITS_05 if fmt <= 5 else SPEC_BITS_610) if r[1] == name)
        rec = PackedPointRecord.zeros(1, PointFormat(fmt))
        rec[name][:] = mx
        got = int(rec.array[cname][0])
        return None if got == mx << lsb else f"fmt {fmt}: {name}[:] = {mx} on a zero byte gives 0x{got:02x}, the layout says 0x{mx << lsb:02x}"
    if inp["kind"] == "single":
        fmt, name, v = inp["fmt"], inp["name"], inp["value"]
        cname, _, mask = next(s for s in subfields(fmt) if s[1] == name)
        mx = mask >> lsb_of(mask)
        import random
        rec = new_record(fmt, 256, random.Random(0))
        rec.array[cname] = np.arange(256, dtype="u1")
        before = rec.array.tobytes()
        err = do_assign(rec, name, slice(None), v)
        after = rec.array.tobytes()
        if 0 <= v <= mx:
            exp = expected_image(before, rec.array.dtype.itemsize, rec.array.dtype.fields[cname][1], mask, range(256), [v] * 256)
            return None if (err is None and after == exp) else f"{name}[:] = {v}: err={err}, image differs={after != exp}"
        return None if (err == "Overflow" and after == before) else f"{name}[:] = {v} out of range: err={err}, modified={after != before}"
    if inp["kind"] == "array":
        pf = PointFormat(inp["fmt"])
        before = bytes.fromhex(inp["before"])
        rec = PackedPointRecord(np.frombuffer(bytearray(before), dtype=pf.dtype()).copy(), pf)
        cname, _, mask = next(s for s in subfields(inp["fmt"]) if s[1] == inp["field"])
        key = key_from_json(inp["key"])
        n = len(rec.array)
        idxs = np.arange(n)[key]
        idxs = [int(idxs)] if np.ndim(idxs) == 0 else [int(i) for i in idxs]
        vals = inp["value"]
        value = vals[0] if (inp["value_kind"] in ("int",) and vals) else np.array(vals) if vals else []
        err = do_assign(rec, inp["field"], None if inp.get("whole_attr") else key, value)
        after = rec.array.tobytes()
        mx = mask >> lsb_of(mask)
        if all(0 <= v <= mx for v in vals):
            exp = expected_image(before, pf.size, rec.array.dtype.fields[cname][1], mask, idxs, vals)
            return None if (err is None and after == exp) else f"err={err}, image differs={after != exp}"
        return None if (err == "Overflow" and after == before) else f"out of range: err={err}, modified={after != before}"
    return "RERUN"


def alias_and_size_layer(ck, n_cases):
    """values that are live views of the field being assigned (the right-hand side must be evaluated before the
    left-hand side is modified), and arrays longer than any internal block size (range check before any write)"""
    from laspy.point import dims
    fmts = sorted(dims.POINT_FORMAT_DIMENSIONS.keys())
    for ci in range(n_cases):
        fmt = ck.rng.choice(fmts)
        cname, name, mask = ck.rng.choice(subfields(fmt))
        mx = mask >> lsb_of(mask)
        lsb = lsb_of(mask)
        n = ck.rng.choice([2, 5, 9, 33])
        rec = new_record(fmt, n, ck.rng)
        off = rec.array.dtype.fields[cname][1]
        size = rec.array.dtype.itemsize
        before = rec.array.tobytes()
        cur = [(b >> lsb) & mx for b in rec.array[cname].tolist()]
        how = ck.rng.choice(["self", "shift_right", "shift_left", "reverse", "view_roundtrip"])
        inp = {"kind": "alias", "fmt": fmt, "field": name, "n": n, "how": how, "before": before.hex()[:400]}
        ck.case(("alias", fmt, name, n, how, before), nontrivial=True)
        ck.count("alias:" + how)
        try:
            v = rec[name]
            if how == "self":
                v[:] = v
                idxs, vals = list(range(n)), cur
            elif how == "shift_right":
                v[1:] = v[:-1]
                idxs, vals = list(range(1, n)), cur[:-1]
            elif how == "shift_left":
                v[:-1] = v[1:]
                idxs, vals = list(range(n - 1)), cur[1:]
            elif how == "reverse":
                v[:] = v[::-1]
                idxs, vals = list(range(n)), cur[::-1]
            else:
                c = rec[name]
                c[:] = mx
                rec[name] = c
                idxs, vals = list(range(n)), [mx] * n
        except Exception as e:
            ck.fail(f"{name}: assigning a view of the same field ({how}) raised {type(e).__name__}: {e}", inp)
            continue
        exp = expected_image(before, size, off, mask, idxs, vals)
        if rec.array.tobytes() != exp:
            got = [(b >> lsb) & mx for b in rec.array[cname].tolist()]
            ck.fail(f"{name}: after assigning a view of the same field ({how}) the field reads {got[:8]}, the values assigned were {vals[:8]} "
                    f"(or other bits changed)", inp)
    # the record's array is replaced (resize) between a first use of the field and the assignment: the assignment must
    # address the record's current array
    for ci in range(n_cases):
        fmt = ck.rng.choice(fmts)
        cname, name, mask = ck.rng.choice(subfields(fmt))
        mx = mask >> lsb_of(mask)
        n = ck.rng.choice([1, 4, 9])
        rec = new_record(fmt, n, ck.rng)
        off = rec.array.dtype.fields[cname][1]
        size = rec.array.dtype.itemsize
        m = ck.rng.choice([n + 3, max(1, n - 1), 2 * n, n])
        inp = {"kind": "resize", "fmt": fmt, "field": name, "n": n, "resized_to": m}
        ck.case(("resize", fmt, name, n, m, rec.array.tobytes()), nontrivial=True)
        ck.count("resize_between_use_and_assignment")
        try:
            first = np.array(rec[name]).tolist()
            _ = rec[name] < 1
            rec.resize(m)
            before2 = rec.array.tobytes()
            vals = [ck.rng.randrange(0, mx + 1) for _ in range(m)]
            if ck.rng.random() < 0.5:
                rec[name][:] = np.array(vals)
            else:
                rec[name] = np.array(vals)
        except Exception as e:
            ck.fail(f"{name}: assignment after resizing the record raised {type(e).__name__}: {e}", inp)
            continue
        exp = expected_image(before2, size, off, mask, list(range(m)), vals)
        if rec.array.tobytes() != exp:
            got = [(b >> lsb_of(mask)) & mx for b in rec.array[cname].tolist()]
            ck.fail(f"{name}: used, then the record resized {n} -> {m}, then assigned {vals[:6]}: the record's field reads {got[:6]} (or other bits changed)", inp)
    # the value is the view of the same-named field of another record, of a point format where that field has another width or
    # position (return_number: 3 bits in formats 0-5, 4 bits in 6-10; classification: 5 bits vs a whole byte ...)
    import laspy
    for ci in range(n_cases):
        names_ = ["return_number", "number_of_returns", "classification", "scan_direction_flag", "edge_of_flight_line", "synthetic", "withheld", "key_point"]
        pairs_ = [(1, 6), (6, 1), (3, 7), (0, 6), (8, 2), (6, 7)]
        name = names_[ci % len(names_)]                       # every field with every pair of formats in turn, whatever the seed
        fa, fb = pairs_[(ci // len(names_)) % len(pairs_)]
        n = ck.rng.choice([3, 8])
        src, dst = new_record(fa, n, ck.rng), new_record(fb, n, ck.rng)
        if name not in [x[1] for x in subfields(fa)] or name not in [x[1] for x in subfields(fb)]:
            continue
        cname, _, mask = next(x for x in subfields(fb) if x[1] == name)
        mx = mask >> lsb_of(mask)
        vals = [int(v) for v in np.array(src[name]).tolist()]
        before = dst.array.tobytes()
        off = dst.array.dtype.fields[cname][1]
        size = dst.array.dtype.itemsize
        inp = {"kind": "view_of_other_format", "field": name, "from_fmt": fa, "to_fmt": fb, "values": vals, "before": before.hex()[:300]}
        ck.case(("otherfmt", name, fa, fb, tuple(vals), before), nontrivial=True)
        ck.count("value_is_view_of_other_format")
        how = ck.rng.choice(["record_setitem", "view_setitem"])
        try:
            if how == "record_setitem":
                dst[name] = src[name]
            else:
                dst[name][:] = src[name]
            err = None
        except OverflowError:
            err = "Overflow"
        except Exception as e:
            err = "Other:" + type(e).__name__
        if all(v <= mx for v in vals):
            exp = expected_image(before, size, off, mask, list(range(n)), vals)
            if err is not None:
                ck.fail(f"{name} (format {fb}) = view of {name} of a format-{fa} record, values {vals}: raised {err}", inp)
            elif dst.array.tobytes() != exp:
                got = [(b >> lsb_of(mask)) & mx for b in dst.array[cname].tolist()]
                ck.fail(f"{name} (format {fb}) = view of {name} of a format-{fa} record ({how}): assigned {vals}, the field reads {got} (or other bits changed)", inp)
        else:
            if err != "Overflow":
                ck.fail(f"{name} (format {fb}, max {mx}) = view holding {vals}: no OverflowError ({err})", inp)
            elif dst.array.tobytes() != before:
                ck.fail(f"{name} (format {fb}) = out-of-range view: OverflowError raised but the record was modified", inp)
    # long arrays: 70000 points, one out-of-range value late in the array -> OverflowError and nothing modified
    for ci in range(2 if n_cases <= 40 else 8):
        fmt = ck.rng.choice(fmts)
        cname, name, mask = ck.rng.choice(subfields(fmt))
        mx = mask >> lsb_of(mask)
        n = 70000
        import laspy
        rec = laspy.PackedPointRecord.zeros(n, laspy.PointFormat(fmt))
        rec.array[cname] = np.frombuffer(bytes(ck.rng.getrandbits(8) for _ in range(256)) * (n // 256 + 1), dtype="u1")[:n]
        before = rec.array.tobytes()
        vals = np.array([ck.rng.randrange(0, mx + 1) for _ in range(64)] * (n // 64 + 1), dtype="i8")[:n]
        badpos = ck.rng.choice([65536, 65537, n - 1, 69000])
        bad = vals.copy()
        bad[badpos] = ck.rng.choice([mx + 1, -1])
        inp = {"kind": "long", "fmt": fmt, "field": name, "n": n, "bad_index": badpos, "bad_value": int(bad[badpos])}
        ck.case(("long", fmt, name, badpos, int(bad[badpos])), nontrivial=True)
        ck.count("long_array")
        err = do_assign(rec, name, slice(None), bad)
        if err != "Overflow":
            ck.fail(f"{name}[:] = 70000 values with {int(bad[badpos])} at index {badpos} did not raise OverflowError ({err})", inp)
        elif rec.array.tobytes() != before:
            ck.fail(f"{name}[:] = 70000 values with {int(bad[badpos])} at index {badpos}: OverflowError raised but the record was modified", inp)
        err = do_assign(rec, name, slice(None), vals)
        lsb = lsb_of(mask)
        if err is not None or [(b >> lsb) & mx for b in rec.array[cname][:200].tolist()] != vals[:200].tolist() or \
                [(b >> lsb) & mx for b in rec.array[cname][-200:].tolist()] != vals[-200:].tolist():
            ck.fail(f"{name}[:] = 70000 in-range values: {err or 'values read back differ'}", inp)


def siblings_and_multi_layer(ck, n_cases):
    """(1) through a LasData: a bit-packed dimension assigned the (un-copied) view of another bit-packed dimension of the same object - a sibling in
    the same byte, a field of another byte, itself; (2) several names at once, `obj[[a, b, ...]] = matrix` with one column per name, also when
    the matrix is square: every named field reads its column, every other bit of the records is as before"""
    import laspy
    for ci in range(n_cases):
        fmt = [1, 6, 3, 7, 0, 8][ci % 6]
        subs = subfields(fmt)
        n = ck.rng.choice([2, 3, 5])
        hdr = laspy.LasHeader(point_format=fmt, version="1.4" if fmt >= 6 else "1.2")
        las = laspy.LasData(hdr)
        rec0 = new_record(fmt, n, ck.rng)
        las.points = laspy.ScaleAwarePointRecord(rec0.array, hdr.point_format, hdr.scales, hdr.offsets)
        if ci % 2 == 0:
            # ---- (1)
            (cs, src, ms), (cd, dst, md) = ck.rng.choice(subs), ck.rng.choice(subs)
            if ci % 4 == 0:       # a sibling of the same byte, every other time
                same = [x for x in subs if x[0] == cs]
                (cd, dst, md) = ck.rng.choice(same)
            how = ck.rng.choice(["attribute", "item", "points_item"])
            vals = [int(v) for v in np.array(las[src]).tolist()]
            mxd = md >> lsb_of(md)
            before = las.points.array.tobytes()
            size, off = las.points.array.dtype.itemsize, las.points.array.dtype.fields[cd][1]
            inp = {"kind": "sibling_view", "fmt": fmt, "src": src, "dst": dst, "how": how, "values": vals, "before": before.hex()[:300]}
            ck.case(("sibling_view", fmt, src, dst, how, before), nontrivial=True)
            ck.count("value_is_view_of_sibling" if cs == cd and src != dst else "value_is_view_of_itself" if src == dst else "value_is_view_of_other_byte")
            try:
                if how == "attribute":
                    setattr(las, dst, getattr(las, src))
                elif how == "item":
                    las[dst] = las[src]
                else:
                    las.points[dst] = las.points[src]
                err = None
            except OverflowError:
                err = "Overflow"
            except Exception as e:
                err = "Other:" + type(e).__name__
            after = las.points.array.tobytes()
            if all(v <= mxd for v in vals):
                exp = expected_image(before, size, off, md, list(range(n)), vals)
                if err is not None:
                    ck.fail(f"fmt {fmt}: {dst} = (view of) {src} of the same object ({how}), values {vals}: raised {err}", inp)
                elif after != exp:
                    got = [(b >> lsb_of(md)) & mxd for b in las.points.array[cd].tolist()]
                    ck.fail(f"fmt {fmt}: {dst} = (view of) {src} of the same object ({how}): assigned {vals}, {dst} reads {got} (or other bits changed)", inp)
            elif err != "Overflow":
                ck.fail(f"fmt {fmt}: {dst} (max {mxd}) = view of {src} holding {vals}: no OverflowError ({err})", inp)
            elif after != before:
                ck.fail(f"fmt {fmt}: {dst} = out-of-range view of {src}: OverflowError raised but the records were modified", inp)
        else:
            # ---- (2)
            k = ck.rng.choice([2, 3])
            names = []
            for c_, nm, m_ in ck.rng.sample(subs, len(subs)):
                if len(names) < k:
                    names.append((c_, nm, m_))
            n2 = k if ci % 4 == 1 else n          # square every other time
            rec = new_record(fmt, n2, ck.rng)
            target = ck.rng.choice(["record", "lasdata"])
            mat = [[ck.rng.randrange(0, (m_ >> lsb_of(m_)) + 1) for (_, _, m_) in names] for _ in range(n2)]
            if n2 == k and all(mat[i][j] == mat[j][i] for i in range(k) for j in range(k)):
                mat[0][k - 1] = (mat[0][k - 1] + 1) % ((names[k - 1][2] >> lsb_of(names[k - 1][2])) + 1)
            before = rec.array.tobytes()
            size = rec.array.dtype.itemsize
            inp = {"kind": "multi_names", "fmt": fmt, "names": [x[1] for x in names], "matrix": mat, "target": target, "before": before.hex()[:300]}
            ck.case(("multi_names", fmt, tuple(x[1] for x in names), str(mat), target, before), nontrivial=True)
            ck.count("multi_name_assignment:" + ("square" if n2 == k else "tall"))
            try:
                if target == "record":
                    rec[[x[1] for x in names]] = np.array(mat, dtype=ck.rng.choice(["u1", "i8", "u2"]))
                    arr = rec.array
                else:
                    hdr2 = laspy.LasHeader(point_format=fmt, version="1.4" if fmt >= 6 else "1.2")
                    l2 = laspy.LasData(hdr2)
                    l2.points = laspy.ScaleAwarePointRecord(rec.array, hdr2.point_format, hdr2.scales, hdr2.offsets)
                    l2[[x[1] for x in names]] = np.array(mat, dtype="u1")
                    arr = l2.points.array
            except Exception as e:
                ck.fail(f"fmt {fmt}: obj[{[x[1] for x in names]}] = {mat} ({target}) raised {type(e).__name__}: {e}", inp)
                continue
            exp = before
            for j, (c_, nm, m_) in enumerate(names):
                exp = expected_image(exp, size, arr.dtype.fields[c_][1], m_, list(range(n2)), [row[j] for row in mat])
            if arr.tobytes() != exp:
                got = {nm: [(b >> lsb_of(m_)) & (m_ >> lsb_of(m_)) for b in arr[c_].tolist()] for (c_, nm, m_) in names}
                ck.fail(f"fmt {fmt}: obj[{[x[1] for x in names]}] = {mat} (one column per name, {target}): the fields read {got} (or other bits changed)", inp)


def growth_layer(ck, n_cases):
    """assigning MORE values than the record has points grows the record: the new points hold the assigned values in that field and zeros everywhere
    else (every sibling sub-field, every other dimension), the old points keep everything but the assigned field"""
    import laspy
    for ci in range(n_cases):
        fmt = [0, 6, 3, 7, 1, 8][ci % 6]
        cname, name, mask = ck.rng.choice(subfields(fmt))
        mx = mask >> lsb_of(mask)
        n0 = [1, 3, 2][ci % 3]
        rec = new_record(fmt, n0, ck.rng)
        rec.array[cname] = 0xFF                       # the old points have every sibling bit set: a copied tail would show
        m = n0 + ck.rng.choice([1, 2, 4])
        vals = [ck.rng.randrange(0, mx + 1) for _ in range(m)]
        before = rec.array.tobytes()
        size, off = rec.array.dtype.itemsize, rec.array.dtype.fields[cname][1]
        how = ["record_setitem", "lasdata_attr"][ci % 2]
        inp = {"kind": "growth", "fmt": fmt, "field": name, "n0": n0, "assigned": vals, "how": how, "before": before.hex()[:300]}
        ck.case(("growth", fmt, name, n0, tuple(vals), how, before), nontrivial=True)
        ck.count("assignment_grows_the_record")
        try:
            if how == "record_setitem":
                rec[name] = np.array(vals, dtype="u1")
                arr = rec.array
            else:
                hdr = laspy.LasHeader(point_format=fmt, version="1.4" if fmt >= 6 else "1.2")
                las = laspy.LasData(hdr)
                las.points = laspy.ScaleAwarePointRecord(rec.array, hdr.point_format, hdr.scales, hdr.offsets)
                setattr(las, name, np.array(vals, dtype="u1"))
                arr = las.points.array
        except Exception as e:
            ck.fail(f"fmt {fmt}: {name} = {m} values on a record of {n0} points ({how}) raised {type(e).__name__}: {e}", inp)
            continue
        exp = expected_image(before + bytes((m - n0) * size), size, off, mask, list(range(m)), vals)
        if len(arr) != m or arr.tobytes() != exp:
            tail = arr.tobytes()[n0 * size:]
            nz = sum(1 for b in tail if b)
            ck.fail(f"fmt {fmt}: {name} = {m} values on a record of {n0} points ({how}): the record has {len(arr)} points; the {m - n0} new points hold {nz} non-zero bytes "
                    f"besides what was assigned (expected zeros everywhere but in {name})" if len(arr) == m else
                    f"fmt {fmt}: {name} = {m} values on a record of {n0} points ({how}): the record has {len(arr)} points", inp)


def run(ck):
    ck.rule = ("single-byte layer (exhaustive, both tiers): every point format x every sub-field x all 256 prior bytes x values "
               "-3..max+3 and large magnitudes, through rec[name][:] = v on a real PackedPointRecord with random other bytes; "
               "array layer: seeded histories of assignments over index kinds {whole, slice, mask, list, list with duplicates, "
               "int, empty} x value kinds {int, bool, list, numpy array/scalar of 8 integer dtypes}; non-trivial = at least one "
               "record addressed; distinct by (format, field, key, values, prior bytes)")
    ck.regen()
    ck.lean_props("C09", THEOREMS)
    spec_bits_layer(ck)
    single_byte_layer(ck)
    array_layer(ck, 300 if ck.tier == "quick" else 6000)
    alias_and_size_layer(ck, 48 if ck.tier == "quick" else 600)
    siblings_and_multi_layer(ck, 48 if ck.tier == "quick" else 1200)
    growth_layer(ck, 18 if ck.tier == "quick" else 400)
    ck.failures.sort(key=lambda f: (f["input"]["kind"] != "single", abs(f["input"].get("value", 0)) if isinstance(f["input"].get("value"), int) else 0))
    if ck.tier == "thorough":
        ck.leanchecker(["LasModel.Props.C09"])
