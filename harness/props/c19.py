"""C19 — interrupted writes and truncated files never yield points that were not written."""
import io
import logging
import signal

import numpy as np

from .. import fileio as fio
from . import c04, c06, c08

THEOREMS = ["C19_torn_counter", "C19_truncated_counter", "splitRecs_prefix", "C19_records_prefix", "image_single",
            "decInts_getD", "parseHdr_fields", "mix_slice", "encForm_slices", "C19_header_rewrite",
            "C19_rewrite_session", "C19_short_file", "image_seq", "C19_writer_crash", "C19_intact_header",
            "image_over", "C19_appender_crash", "C19_truncated", "C19_rewrite_session_cut", "C19_writer_crash_torn",
            "C19_appender_crash_torn", "C19_count_after_write", "C19_retry", "readFile_form_tail",
            "C19_retry_read"]
hx = c08.hx


class Recorder(io.BytesIO):
    """BytesIO that logs every low-level write (position, data)"""

    def __init__(self, initial=b""):
        super().__init__(initial)
        self.log = []

    def write(self, data):
        data = bytes(data)
        self.log.append((self.tell(), data))
        return super().write(data)


class FaultyRecorder(io.BytesIO):
    """a destination whose `fail_at`-th write stores only a fraction of the data and raises OSError (disk full, EIO);
    later writes succeed again, as when the caller's clean-up runs after the failure"""

    def __init__(self, initial, fail_at, frac):
        super().__init__(initial)
        self.fail_at, self.frac, self.calls = fail_at, frac, 0

    def write(self, data):
        data = bytes(data)
        k = self.calls
        self.calls += 1
        if k == self.fail_at:
            super().write(data[:int(len(data) * self.frac)])
            raise OSError(28, "No space left on device (injected)")
        return super().write(data)


class FaultyFile(io.FileIO):
    """the same fault on a real file (truncate, seek past the end etc. behave as the operating system's)"""

    def __init__(self, path, initial, fail_at, frac):
        with open(path, "wb") as f:
            f.write(initial)
        super().__init__(path, "r+b")
        self.fail_at, self.frac, self.calls = fail_at, frac, 0

    def write(self, data):
        data = bytes(data)
        k = self.calls
        self.calls += 1
        if k == self.fail_at:
            super().write(data[:int(len(data) * self.frac)])
            raise OSError(28, "No space left on device (injected)")
        return super().write(data)


def apply_prefix(initial, log, k):
    """destination content after the first k bytes of the write stream"""
    buf = bytearray(initial)
    for pos, data in log:
        if k <= 0:
            break
        part = data[:k]
        if len(buf) < pos:
            buf.extend(b"\0" * (pos - len(buf)))
        buf[pos:pos + len(part)] = part
        k -= len(part)
    return bytes(buf)


class Timeout(Exception):
    pass


def _alarm(signum, frame):
    raise Timeout()


HANG_S = 5.0


def safe_read(data):
    """('ok', point bytes, n) / ('err', exception name) / ('hang',)"""
    import laspy
    signal.signal(signal.SIGALRM, _alarm)
    signal.setitimer(signal.ITIMER_REAL, HANG_S)
    try:
        try:
            las = laspy.read(io.BytesIO(data))
            return ("ok", las.points.array.tobytes(), len(las.points))
        except Timeout:
            raise
        except Exception as e:
            first = type(e).__name__
        # laspy.read also parses the EVLRs; through the stale pointer of an interrupted session they may be garbage and
        # raise. The property constrains the points: read them without the EVLRs
        try:
            with laspy.open(io.BytesIO(data), read_evlrs=False) as rd:
                pts = rd.read_points(-1)
            return ("ok", pts.array.tobytes(), len(pts), "evlr_error:" + first)
        except Timeout:
            raise
        except Exception:
            return ("err", first)
    except Timeout:
        return ("hang",)
    finally:
        signal.setitimer(signal.ITIMER_REAL, 0)


def cut_points(log, tier, rng, header_len):
    """crash points as numbers of bytes of the write stream"""
    total = sum(len(d) for _, d in log)
    if tier == "thorough" and total <= 6000:
        return list(range(total + 1))
    pts = {0, total}
    acc = 0
    for pos, d in log:
        pts.add(acc)
        # inside header (re)writes: every byte
        if pos < header_len and len(d) <= 400:
            pts.update(range(acc, acc + len(d) + 1))
        elif len(d) > 1:
            pts.add(acc + rng.randrange(1, len(d)))
        acc += len(d)
    return sorted(pts)


class TooManyHangs(Exception):
    pass


HANGS = [0]


def check_image(ck, img, intended, size, inp, what, lines, meta):
    r = safe_read(img)
    ck.count("verdict:" + r[0] + (":" + r[1] if r[0] == "err" else ""))
    if r[0] == "ok" and len(r) > 3:
        ck.count("points_read_without_evlrs_after_" + r[3])
    if r[0] == "hang":
        ck.fail(f"{what}: reading did not terminate within {HANG_S:.0f} s", inp)
        HANGS[0] += 1
        if HANGS[0] >= 3:
            raise TooManyHangs()       # every further image would cost the watchdog's time: the violation is established
        return
    if r[0] == "ok":
        got = r[1]
        if not intended.startswith(got) or len(got) % max(size, 1):
            k0 = next((i for i in range(min(len(got), len(intended))) if got[i] != intended[i]), min(len(got), len(intended)))
            ck.fail(f"{what}: read returned {r[2]} records that are not a prefix of the points being stored "
                    f"(first foreign byte at record {k0 // max(size, 1)})", inp)
        ck.count("returned_records>0" if r[2] else "returned_records=0")
    lines.append("file readpts " + hx(img))
    meta.append((what, inp, ("err:text" if r[1] == "UnicodeDecodeError" else "err") if r[0] == "err" else f"ok {r[2]} {hx(r[1])}"))


def run(ck):
    logging.getLogger("laspy").setLevel(logging.CRITICAL)
    import laspy
    from laspy.laswriter import LasWriter
    ck.rule = ("recording stream under real LasData.write, chunked LasWriter sessions and LasAppender sessions (point counts "
               "above 255 so that multi-byte counters tear), versions 1.1-1.4, with/without VLRs and EVLRs; crash images at "
               "every write-call boundary, one random byte inside every data write and every byte inside header (re)writes "
               "(thorough: every byte prefix for streams up to 6000 bytes); truncations of the complete files (quick: stride "
               "and all lengths up to the header end; thorough: every length for small files). Each image is read with real "
               "laspy.read under a watchdog: it must raise or return a prefix of the intended points; the model's readFile "
               "verdict and returned bytes are compared. non-trivial = image differs from both the initial and final content")
    ck.regen()
    ck.lean_props("C19", THEOREMS)
    q = ck.tier == "quick"
    lines, meta = [], []
    n_sessions = 12 if q else 90
    HANGS[0] = 0
    try:
        explore(ck, q, n_sessions, lines, meta)
        foreign_records_layer(ck, 16 if q else 160, lines, meta)
        big_vlr_block_layer(ck, lines, meta)
        late_points_layer(ck, 6 if q else 60, lines, meta)
        shrinking_vlr_append_layer(ck, 6 if q else 60, lines, meta)
    except TooManyHangs:
        ck.count("exploration_stopped_after_hangs")
    finish(ck, lines, meta)


def explore(ck, q, n_sessions, lines, meta):
    import laspy
    from laspy.laswriter import LasWriter
    for si in range(n_sessions):
        minor, fmt = fio.PAIRS[si % len(fio.PAIRS)]
        kind = ["oneshot", "chunked", "append"][si % 3]
        n = ck.rng.choice([0, 1, 3, 260, 300]) if not q else ck.rng.choice([0, 3, 260])
        evlrs = fio.rand_vlrs(ck.rng, True, 1) if (minor >= 4 and ck.rng.random() < 0.6) else None
        if kind == "chunked" and (si // 3) % 2 == 1:
            # filtered copy on 1.4 with EVLR bytes after the points long enough to be taken for the missing records
            minor, fmt = ck.rng.choice([pr for pr in fio.PAIRS if pr[0] == 4])
            n = ck.rng.choice([3, 5, 260])
            evlrs = [("verif", 9, "after the points", bytes(ck.rng.getrandbits(8) for _ in range(400)))]
        if kind == "append" and (si // 3) % 2 == 0:
            # every other append session works on a 1.4 file that has points and EVLRs after them: the appender writes the new
            # points over the old EVLRs, the window in which a stale header would expose them as points
            minor, fmt = ck.rng.choice([pr for pr in fio.PAIRS if pr[0] == 4])
            n = ck.rng.choice([2, 3, 260])
            while not evlrs:
                evlrs = fio.rand_vlrs(ck.rng, True, 2)
            ck.count("append_over_evlrs")
        vl = fio.rand_vlrs(ck.rng, False, 1)
        if si == 0:
            # whatever the seed: the first session is a one-shot write of a small LAS 1.4 cloud with an EVLR (the points reach the destination between
            # the header and the EVLRs; every one of its few writes is torn in turn further down)
            minor, fmt, n = 4, 6, 3
            evlrs = [("verif", 9, "after the points", bytes(range(40)))]
        las = fio.make_las(ck.rng, minor, fmt, n, vlrs=vl, evlrs=evlrs, scales=[0.01, 0.5, 1.0], offsets=[0.0, -100.0, 7.5])
        size = las.header.point_format.size
        intended = las.points.array.tobytes()
        initial = b""
        rec = Recorder()
        session = None
        if kind == "oneshot":
            def session(dest, las=las):
                las.write(dest)
            session(rec)
        elif kind == "chunked":
            # every other chunked session is a filtered copy: the header handed to the writer advertises more points
            # (the source's count) than the session writes
            keep = n if (si // 3) % 2 == 0 or n == 0 else ck.rng.choice([n - 1, n - 2, ck.rng.randrange(0, n)])
            if keep != n:
                ck.count("chunked_filtered_copy")
                intended = las.points.array[:keep].tobytes()
            parts_ = c04.rand_partition(ck.rng, keep)

            def session(dest, las=las, parts_=parts_, minor=minor):
                with LasWriter(dest, las.header, closefd=False) as w:
                    pos = 0
                    for p in parts_:
                        w.write_points(las.points[pos:pos + p])
                        pos += p
                    if minor >= 4 and las.evlrs is not None:
                        w.write_evlrs(las.evlrs)
            session(rec)
        else:
            b0 = io.BytesIO()
            las.write(b0)
            initial = b0.getvalue()
            rec = Recorder(initial)
            rec.log = []
            rec.seek(0)
            m = ck.rng.choice([1, 2, 270])
            extra = fio.raw_records(ck.rng, size, m)
            def session(dest, las=las, extra=extra, m=m, size=size):
                with laspy.open(dest, mode="a", closefd=False) as ap:
                    half = (m // 2) * size
                    for part in (extra[:half], extra[half:]):
                        ap.append_points(c06.rec_of(las, part))
            session(rec)
            intended = intended + extra
        final = rec.getvalue()
        # the write stream has the shape the crash theorems assume (Crash.writerLog / appenderLog): one sequential
        # stream, then exactly one rewrite at position 0 of at most the header's length
        merged = []
        for pos, d in rec.log:
            if not d:
                continue
            if merged and merged[-1][0] + len(merged[-1][1]) == pos:
                merged[-1] = (merged[-1][0], merged[-1][1] + d)
            else:
                merged.append((pos, d))
        off0 = int.from_bytes(final[96:100], "little")
        start = 0 if kind != "append" else off0 + n * size
        shape_ok = (len(merged) == 2 and merged[0][0] == start and merged[1][0] == 0 and len(merged[1][1]) <= off0) or \
                   (len(merged) == 1 and merged[0][0] == 0 and kind != "append")
        if kind == "append" and len(merged) == 1:
            shape_ok = merged[0][0] == 0 and len(merged[0][1]) <= off0      # nothing appended: only the header rewrite
        if kind != "append" and merged and merged[0][0] == 0 and len(merged[0][1]) >= 375:
            first = merged[0][1]
            c0 = int.from_bytes(first[247:255], "little") if first[25] >= 4 else int.from_bytes(first[107:111], "little")
            if c0 != 0:
                # premise of the crash theorem (C19_writer_crash: the header in place while points stream advertises none)
                ck.fail(f"{kind} session: the header written before the points advertises {c0} points, not 0",
                        {"kind": kind, "minor": minor, "fmt": fmt, "n": n, "what": "initial-header-count"}, source="correspondence")
        if not shape_ok:
            ck.fail(f"{kind} session: the write stream is not 'sequential data from {start}, then one header rewrite at 0': "
                    f"{[(p_, len(d_)) for p_, d_ in merged][:6]}", {"kind": kind, "minor": minor, "fmt": fmt, "n": n, "what": "log-shape"}, source="correspondence")
        hlen = las.header.offset_to_point_data if las.header.offset_to_point_data else 400
        inp0 = {"kind": kind, "minor": minor, "fmt": fmt, "n": n, "evlrs": None if evlrs is None else len(evlrs), "writes": len(rec.log)}
        cuts = cut_points(rec.log, ck.tier, ck.rng, max(hlen, 375))
        for k in cuts:
            img = apply_prefix(initial, rec.log, k)
            inp = dict(inp0, cut=k, what="crash")
            ck.case(("crash", si, k), nontrivial=img not in (initial, final))
            check_image(ck, img, intended, size, inp, f"{kind} session interrupted after {k} bytes of its writes", lines, meta)
        # truncations of the complete file
        L = len(final)
        if q:
            lens = sorted(set(list(range(0, min(L, hlen + 3))) + list(range(hlen, L, max(7, L // 40))) + [L - 1, L]))
        else:
            lens = list(range(L + 1)) if L <= 4000 else sorted(set(list(range(0, hlen + 3)) + list(range(hlen, L, 13)) + [L - 1, L]))
        for t in lens:
            if t < 0:
                continue
            inp = dict(inp0, truncate=t, what="truncate")
            ck.case(("trunc", si, t), nontrivial=0 < t < L)
            check_image(ck, final[:t], intended, size, inp, f"{kind} file truncated to {t} of {L} bytes", lines, meta)
        # a write that fails (storing none, some or nearly all of its bytes) and raises, after which the caller's clean-up runs
        # (the with-block closes the session): what is left must still read as a prefix of the points being stored, or fail
        if session is not None and rec.log:
            biggest = max(range(len(rec.log)), key=lambda i_: len(rec.log[i_][1]))      # the (largest) write of point records
            plan = [(fa, ck.rng.choice([0.0, 0.4, 0.99]), ck.rng.random() < 0.5)
                    for fa in sorted({0, len(rec.log) - 1, ck.rng.randrange(len(rec.log)), ck.rng.randrange(len(rec.log))})]
            plan += [(biggest, 0.4, True), (biggest, 0.99, False)]
            if len(rec.log) <= 6:
                # short write streams (one-shot writes, small sessions): every write in turn is the one that is torn
                plan += [(i_, 0.4, False) for i_ in range(len(rec.log))]
            if kind == "chunked" and len(rec.log) >= 4:
                # whatever the seed: the FIRST write of point records of a session that has more chunks to write
                plan += [(1, 0.4, False), (1, 0.0, True)]
            for fail_at, frac, on_disk in plan:
                if on_disk:
                    import os
                    import tempfile
                    tdir = tempfile.mkdtemp(prefix="verif_c19_")
                    dest = FaultyFile(os.path.join(tdir, "f.las"), initial, fail_at, frac)
                else:
                    dest = FaultyRecorder(initial, fail_at, frac)
                dest.seek(0)
                try:
                    session(dest)
                    outcome = "completed"
                except OSError:
                    outcome = "OSError"
                except Exception as e:
                    outcome = type(e).__name__
                ck.count("failed_write_then_cleanup:" + outcome + (":file" if on_disk else ":memory"))
                if outcome == "completed" and dest.calls > fail_at:
                    ck.fail(f"{kind} session whose write #{fail_at} raised OSError went on as if nothing had happened (the caller never learns that the write failed)",
                            dict(inp0, what="failed-write-not-reported", failing_write=fail_at, stored_fraction=frac))
                if on_disk:
                    try:
                        dest.close()
                    except Exception:
                        pass
                    with open(os.path.join(tdir, "f.las"), "rb") as f_:
                        left = f_.read()
                    import shutil
                    shutil.rmtree(tdir, ignore_errors=True)
                else:
                    left = dest.getvalue()
                inp = dict(inp0, what="failed-write", failing_write=fail_at, stored_fraction=frac, session_outcome=outcome, destination="file" if on_disk else "memory")
                ck.case(("fault", si, fail_at, frac, on_disk), nontrivial=True)
                where = "a real file" if on_disk else "a memory stream"
                check_image(ck, left, intended, size, inp,
                            f"{kind} session on {where} whose write #{fail_at} stored {int(frac * 100)}% of its bytes and raised OSError, then was closed by its with-block", lines, meta)
                # the user tries again: a second, undisturbed append session on what the failed one left
                r1 = safe_read(left)
                if r1[0] == "ok" and len(r1[1]) % max(size, 1) == 0 and intended.startswith(r1[1]):
                    try:
                        extra2 = fio.raw_records(ck.rng, size, ck.rng.choice([1, 3]))
                        b2 = io.BytesIO(left)
                        with laspy.open(b2, mode="a", closefd=False) as ap2:
                            ap2.append_points(c06.rec_of(las, extra2))
                        ck.count("append_retried_after_failed_session")
                        check_image(ck, b2.getvalue(), r1[1] + extra2, size, dict(inp, what="retry-after-failed-write"),
                                    f"append session on what the failed {kind} session left", lines, meta)
                        r2 = safe_read(b2.getvalue())
                        if r2[0] == "ok" and r2[1] != r1[1] + extra2:
                            ck.fail(f"append session on what the failed {kind} session left: {r2[2]} records read, not the {len(r1[1]) // size} that were "
                                    f"readable followed by the {len(extra2) // size} appended", dict(inp, what="retry-after-failed-write"))
                    except Exception as e:
                        ck.count("retry_raised:" + type(e).__name__)
        if si < 3:
            ck.sample(dict(inp0, crash_points=len(cuts), truncations=len(lens), stream_bytes=sum(len(d) for _, d in rec.log)))


def foreign_records_layer(ck, n_cases, lines, meta):
    """a session that is handed, after some valid chunks, records of another point format (same id; the extra dimensions differ in one
    respect, or one list is a strict prefix of the other) and is then closed: whatever the session did with them - refuse, or fail - the
    file it leaves must read as a prefix of the points that were being stored, never as records re-cut at the wrong length"""
    import laspy
    for ci in range(n_cases):
        minor, fmt = fio.PAIRS[(3 * ci) % len(fio.PAIRS)]
        kind = ["append", "chunked"][ci % 2]
        mine, theirs, variant = fio.foreign_extra_dims(ck.rng)
        if ci % 4 == 3:
            mine, variant = [], "file_has_none"
        las = fio.make_las(ck.rng, minor, fmt, 3, mine)
        size = las.header.point_format.size
        good = [fio.raw_records(ck.rng, size, ck.rng.choice([1, 2])) for _ in range(ck.rng.choice([0, 1]))]
        pf = laspy.PointFormat(fmt)
        for p_ in theirs:
            pf.add_extra_dimension(p_)
        foreign = laspy.PackedPointRecord.zeros(3, pf)
        foreign.array[:] = np.frombuffer(fio.raw_records(ck.rng, pf.size, 3), dtype=pf.dtype())
        inp = {"what": "foreign-records", "kind": kind, "minor": minor, "fmt": fmt, "variant": variant, "record_size": size, "foreign_record_size": pf.size,
               "accepted_before": [len(g) // size for g in good]}
        ck.case(("foreign_records", kind, minor, fmt, variant, las.points.array.tobytes()), nontrivial=True)
        ck.count("foreign_records:" + variant)
        intended = (las.points.array.tobytes() if kind == "append" else b"") + b"".join(good)
        outcome = "accepted"
        try:
            if kind == "append":
                b0 = io.BytesIO()
                las.write(b0)
                dest = io.BytesIO(b0.getvalue())
                with laspy.open(dest, mode="a", closefd=False) as ap:
                    for g in good:
                        ap.append_points(c06.rec_of(las, g))
                    ap.append_points(foreign)
            else:
                dest = io.BytesIO()
                with laspy.open(dest, mode="w", header=las.header, closefd=False) as w:
                    for g in good:
                        w.write_points(c06.rec_of(las, g))
                    w.write_points(foreign)
        except Exception as e:
            outcome = type(e).__name__
        ck.count("foreign_records_outcome:" + outcome)
        check_image(ck, dest.getvalue(), intended, size, dict(inp, session_outcome=outcome),
                    f"{kind} session handed records of another point format ({variant}; {pf.size}-byte records into a {size}-byte file; outcome {outcome})", lines, meta)


def big_vlr_block_layer(ck, lines, meta):
    """valid files whose VLR block is larger than 64 KiB (the offset to point data needs all its four bytes), complete and cut at a few places
    inside the VLR block, at the first point and inside the records: a prefix of the points or an exception, never VLR bytes as points"""
    for ci, (minor, fmt) in enumerate([(2, 0), (4, 6), (3, 1)]):
        vl = [("verif_big", 1, "first half", bytes((i * 5 + ci) & 0xFF for i in range(40000))), ("verif_big", 2, "second half", bytes((i * 7) & 0xFF for i in range(40000)))]
        las = fio.make_las(ck.rng, minor, fmt, 6, vlrs=vl, scales=[0.01, 0.5, 1.0], offsets=[0.0, -100.0, 7.5])
        size = las.header.point_format.size
        intended = las.points.array.tobytes()
        b0 = io.BytesIO()
        las.write(b0)
        data = b0.getvalue()
        off = int.from_bytes(data[96:100], "little")
        cuts = sorted({len(data), off, off + size, off + 3 * size + 5, off - 1, off - 1000, 65536 + 300, 65535, 70000, 40500, len(data) - 1})
        for k in cuts:
            inp = {"what": "big-vlr-block", "minor": minor, "fmt": fmt, "offset_to_point_data": off, "file_bytes": len(data), "cut_at": k}
            ck.case(("bigvlr", minor, fmt, k), nontrivial=True)
            ck.count("big_vlr_block_images")
            check_image(ck, data[:k], intended, size, inp, f"file with {off} bytes of header and VLRs cut at {k} of {len(data)} bytes", [], [])


def late_points_layer(ck, n_cases, lines, meta):
    """a writer session that is handed more points after its EVLRs were written (and then closed): whether the late chunk is refused or not, the
    file must read as a prefix of the points handed over - never EVLR bytes as points"""
    import laspy
    from laspy.vlrs.vlrlist import VLRList
    pairs4 = [pr for pr in fio.PAIRS if pr[0] == 4]
    for ci in range(n_cases):
        minor, fmt = pairs4[ci % len(pairs4)]
        las = fio.make_las(ck.rng, minor, fmt, 5)
        size = las.header.point_format.size
        ev = VLRList([laspy.VLR("verif", 9, "between the chunks", bytes(ck.rng.getrandbits(8) for _ in range([3, 400, 70][ci % 3])))])
        a, b = las.points[:3], las.points[3:]
        outcome = "accepted"
        dest = io.BytesIO()
        try:
            with laspy.open(dest, mode="w", header=las.header, closefd=False) as w:
                w.write_points(a)
                w.write_evlrs(ev)
                w.write_points(b)
        except Exception as e:
            outcome = type(e).__name__
        inp = {"what": "points-after-evlrs", "minor": minor, "fmt": fmt, "evlr_payload": len(ev[0].record_data), "late_chunk_outcome": outcome}
        ck.case(("late_points", minor, fmt, ci % 3, las.points.array.tobytes()), nontrivial=True)
        ck.count("late_points_outcome:" + outcome)
        check_image(ck, dest.getvalue(), las.points.array.tobytes(), size, inp,
                    f"writer session: 3 points, EVLRs, then 2 more points ({outcome}), closed", lines, meta)


def shrinking_vlr_append_layer(ck, n_cases, lines, meta):
    """append sessions on files with a WKT record whose payload is padded with several NULs: parsed and written again it is shorter, so the appender's
    header no longer has the size it has in the file. Whether the session refuses to rewrite the header or not, what it leaves reads as a prefix of
    old followed by new points - never records taken from a shifted position"""
    import laspy
    for ci in range(n_cases):
        minor, fmt = fio.PAIRS[(5 * ci + 2) % len(fio.PAIRS)]
        vl = [("verif", 3, "before", b"abc"), ("LASF_Projection", 2112, "padded WKT", b'GEOGCS["verif"]' + b"\0" * [5, 2, 9][ci % 3])]
        las = fio.make_las(ck.rng, minor, fmt, [3, 0, 260][ci % 3], vlrs=vl, scales=[0.01, 0.5, 1.0], offsets=[0.0, -100.0, 7.5])
        size = las.header.point_format.size
        b0 = io.BytesIO()
        las.write(b0)
        extra = fio.raw_records(ck.rng, size, 2)
        dest = io.BytesIO(b0.getvalue())
        outcome = "closed"
        try:
            with laspy.open(dest, mode="a", closefd=False) as ap:
                ap.append_points(c06.rec_of(las, extra))
        except Exception as e:
            outcome = type(e).__name__
        inp = {"what": "append-over-shrinking-vlr", "minor": minor, "fmt": fmt, "n0": len(las.points), "session_outcome": outcome}
        ck.case(("shrinking_vlr", minor, fmt, ci % 3, las.points.array.tobytes(), extra), nontrivial=True)
        ck.count("append_on_file_with_a_shrinking_vlr:" + outcome)
        check_image(ck, dest.getvalue(), las.points.array.tobytes() + extra, size, inp,
                    f"append session ({outcome}) on a file whose VLR block is shorter when written again", lines, meta)


def finish(ck, lines, meta):
    out = ck.driver(lines)
    bad = None
    gaps = 0
    if out is None or len(out) != len(lines):
        bad = "driver did not run"
    else:
        for (what, inp, exp), o in zip(meta, out):
            o2 = "err" if o.startswith("err") else o
            if exp == "err:text":
                # VLR/EVLR user-id text decoding (UnicodeDecodeError) is not part of the byte-level model
                ck.count("skipped:impl_raised_UnicodeDecodeError")
                continue
            if o2 != exp:
                gaps += 1
                if bad is None:
                    bad = f"{what} {inp}: model '{o[:80]}' impl '{exp[:80]}'"
    ck.count("model_impl_verdict_differences", gaps)
    ck.oblige("correspondence fileio/crash: model readFile verdict and returned point bytes == laspy.read on every crash image and truncation",
              "correspondence", bad is None, bad or "")
    ck.failures.sort(key=lambda f: (f["input"].get("n", 0), f["input"].get("cut", f["input"].get("truncate", 0))))
    if ck.tier == "thorough":
        ck.leanchecker(["LasModel.Props.C19", "LasModel.Props.C19Retry"])
