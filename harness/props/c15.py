"""C15 — COPC queries return exactly the points the octree stores in the box and levels."""
import io
import logging
import math
import signal
import warnings
from fractions import Fraction

import numpy as np

from .. import copc as C

THEOREMS = ["lookup_deep", "C15_reachable", "loop_collect", "mem_collect", "anc_path", "C15_nodes_partial",
            "C15_malformed_revisit", "C15_malformed_undefined", "C15_outcomes", "C15_child_inside", "mono_range",
            "C15_range_cut", "C15_inside_kept", "C15_kept_near", "C15_2d", "C15_resolution", "lazy_collect",
            "C15_nodes_paged", "loop_succeeds", "C15_nodes", "groupNodes_spec", "C15_fetch"]

WATCHDOG_S = 8


class Watchdog(Exception):
    pass


def _alarm(signum, frame):
    raise Watchdog()


def guarded(fn):
    """run fn() under a wall-clock watchdog; returns ('ok', value) | ('exc', name, text) | ('loop',)"""
    old = signal.signal(signal.SIGALRM, _alarm)
    signal.setitimer(signal.ITIMER_REAL, WATCHDOG_S)
    try:
        return ("ok", fn())
    except Watchdog:
        return ("loop",)
    except Exception as e:
        return ("exc", type(e).__name__, str(e))
    finally:
        signal.setitimer(signal.ITIMER_REAL, 0)
        signal.signal(signal.SIGALRM, old)


def rand_box(rng, t, dims=None):
    """faces on quarter steps of the integer grid (exact in float: the geometry is dyadic)"""
    dims = dims or rng.choice([3, 3, 2])
    kind = rng.choice(["inside", "straddle", "enclose", "disjoint", "huge", "inf", "thin", "tie"])
    lo, hi = [], []
    for ax in range(dims):
        g0, G = t.root_grid[ax], t.G
        if kind == "inside":
            a = g0 + rng.randrange(0, G)
            b = rng.randrange(a, g0 + G + 1)
        elif kind == "straddle":
            a = g0 - rng.randrange(0, G)
            b = g0 + rng.randrange(0, G + 1)
        elif kind == "enclose":
            a, b = g0 - rng.randrange(0, 5), g0 + G + rng.randrange(0, 5)
        elif kind == "disjoint":
            a = g0 + G + rng.randrange(1, 9)
            b = a + rng.randrange(0, 9)
        elif kind == "thin":
            a = g0 + rng.randrange(0, G + 1)
            b = a
        elif kind == "tie":
            a = g0 + rng.randrange(0, G)
            b = rng.randrange(a, g0 + G + 1)
        else:
            a = b = 0
        q0, q1 = (rng.choice([0, 1, 3]), rng.choice([0, 1, 3])) if kind != "tie" else (2, 2)
        if kind == "huge":
            l, h = rng.choice([-1e20, -3e9, -1e300]), rng.choice([1e20, 3e9, 1e300])
        elif kind == "inf":
            l, h = float("-inf"), float("inf")
        else:
            l = (a + q0 / 4.0) * t.scale + t.offsets[ax]
            h = (b + q1 / 4.0) * t.scale + t.offsets[ax]
            if h < l:
                l, h = h, l
        lo.append(l)
        hi.append(h)
    if kind in ("inside", "straddle", "enclose") and rng.random() < (0.7 if dims == 2 else 0.3):
        # faces on whole numbers (callers then often pass integers)
        import math
        lo = [float(math.floor(v)) for v in lo]
        hi = [float(math.ceil(v)) for v in hi]
        kind += "_whole"
    return kind, lo, hi


def rand_level(rng, depth):
    k = rng.random()
    if k < 0.3:
        return rng.randrange(-1, depth + 3)
    if k < 0.8:
        a = rng.randrange(-1, depth + 2)
        b = rng.randrange(-1, depth + 3)
        step = rng.choice([1, 1, 1, 2, 3])
        return range(a, b, step)
    a = rng.randrange(0, depth + 3)
    return range(a, rng.randrange(-2, a + 1), rng.choice([-1, -1, -2]))


def level_tok(level):
    if level is None:
        return "-"
    if isinstance(level, int):
        return f"{level},{level + 1},1"
    return f"{level.start},{level.stop},{level.step}"


def run(ck):
    logging.getLogger("laspy").setLevel(logging.CRITICAL)
    warnings.simplefilter("ignore")
    import laspy
    import lazrs
    from laspy.copc import Bounds, CopcReader, VoxelKey, load_octree_for_query
    from .. import streams as st
    ck.rule = ("real CopcReader.query / spatial_query / level_query / load_octree_for_query on synthetic COPC files built on the LAZ "
               "backend double: random octrees (depth 0..4, any sparsity, empty nodes, points on cube faces), hierarchy split over "
               "random pages in random order, chunks in random file order with gaps; boxes inside / straddling / enclosing / disjoint / "
               "thin / on rounding ties / huge (1e20, 1e300) / infinite, 2-D and 3-D; level ints, ranges with steps, empty and "
               "descending ranges; resolutions; malformed page references (self reference incl. the root, page that does not define "
               "the key, two pages re-referencing each other) under a watchdog; sources with and without readinto; several queries "
               "on one reader. The model's node list (exact order) and integer-grid faces are compared with the implementation; "
               "returned records are compared as multisets with the model's selection and with a brute-force oracle. distinct by case")
    ck.regen()
    ck.lean_props("C15", THEOREMS)
    q = ck.tier == "quick"
    lines, meta = [], []

    def add(line, inp, impl):
        lines.append(line)
        meta.append((inp, impl))
    # ---------------------------------------------------------------- small functions
    for _ in range(60 if q else 600):
        k = (ck.rng.randrange(0, 20), ck.rng.randrange(0, 2 ** 20), ck.rng.randrange(0, 2 ** 20), ck.rng.randrange(0, 2 ** 20))
        d = ck.rng.randrange(0, 8)
        vk = VoxelKey()
        vk.level, vk.x, vk.y, vk.z = k
        c = vk.child(d)
        add(f"cp child {k[0]}.{k[1]}.{k[2]}.{k[3]} {d}", {"kind": "child", "key": k, "dir": d}, f"{c.level}.{c.x}.{c.y}.{c.z}")
        if (c.level, c.x, c.y, c.z) != C.child(k, d):
            ck.fail("VoxelKey.child differs from the COPC key rule", {"kind": "child", "key": k, "dir": d})
        a, b, s, l = ck.rng.randrange(-3, 8), ck.rng.randrange(-3, 9), ck.rng.choice([1, 2, 3, -1, -2]), ck.rng.randrange(0, 9)
        add(f"cp inrange {a} {b} {s} {l}", {"kind": "inrange", "range": [a, b, s], "level": l}, str(int(l in range(a, b, s))))
    for _ in range(40 if q else 400):
        sp = ck.rng.choice([1.0, 2.0, 0.5, 8.0, 3.0, 10.0])
        e = ck.rng.randrange(-6, 7)
        res = ck.rng.choice([sp / 2.0 ** e, sp / 2.0 ** e * 1.25, sp / 2.0 ** e * 0.75, 50.0])
        impl = max(1, math.ceil(math.log2(sp / res)) + 1)
        add(f"cp res {C.frac(sp)} {C.frac(res)}", {"kind": "res", "spacing": sp, "resolution": res}, str(impl))
        # the property's wording, directly: first level whose spacing is at most the resolution
        L = 0
        while sp / 2 ** L > res:
            L += 1
        if impl - 1 != L:
            ck.fail(f"resolution {res} with spacing {sp}: levels 0..{impl - 1}, the first level with spacing <= resolution is {L}",
                    {"kind": "res", "spacing": sp, "resolution": res})
    # ---------------------------------------------------------------- queries
    ntrees = 25 if q else 400
    for ti in range(ntrees):
        depth = ck.rng.randrange(0, 5)
        ordered = ti % 3 == 1
        if ordered:
            depth = max(depth, 2)
        t = C.gen_tree(ck.rng, depth=depth)
        for _try in range(60 if ordered else 0):
            lv1 = [k for k in t.nodes if k[0] == 1]
            lv2 = [k for k in t.nodes if k[0] == 2]
            if len(t.nodes[(0, 0, 0, 0)]) and lv1 and lv2 and all(len(t.nodes[k]) for k in lv1) and any(len(t.nodes[k]) for k in lv2):
                break
            t = C.gen_tree(ck.rng, depth=depth, p_child=0.5)
        C.assign_pages(ck.rng, t, p_owner=0.9 if ordered else ck.rng.choice([0.0, 0.3, 0.6]))
        malform = None
        if ti % 5 == 4:
            keys = sorted(t.nodes)
            kind = ck.rng.choice(["self", "empty", "cycle", "self_root"])
            if kind == "self_root":
                malform = ("self", (0, 0, 0, 0))
            elif kind == "cycle":
                sib = [(a, b) for a in keys for b in keys if a < b and a[0] == b[0] and a[0] > 0
                       and (a[1] >> 1, a[2] >> 1, a[3] >> 1) == (b[1] >> 1, b[2] >> 1, b[3] >> 1)]
                malform = ("cycle",) + ck.rng.choice(sib) if sib else ("self", ck.rng.choice(keys))
            else:
                malform = (kind, ck.rng.choice(keys))
        data = C.build(ck.rng, t, malform=malform, ordered=ordered)
        root_tok, pages_tok = C.model_pages(t)
        mins = [t.root_grid[i] * t.scale + t.offsets[i] for i in range(3)]
        geo_tok = ",".join(C.frac(v) for v in mins + [t.G * t.scale])
        item = t.nodes[(0, 0, 0, 0)].dtype.itemsize
        by_loc = {t.node_loc[k]: k for k in t.nodes if len(t.nodes[k])}
        shared = CopcReader(io.BytesIO(data))
        hdr = shared.header
        if ordered and malform is None:
            # one reader asked level after level on a file whose chunks lie level by level without gaps and whose deeper levels sit in pages of their
            # own: each answer is what a fresh reader gives (the source's position after one query - and after the page loads of the next - is nobody's business)
            ck.count("one_reader_level_after_level")
            seq_reader = CopcReader(io.BytesIO(data))
            for L in range(0, depth + 1):
                a_ = guarded(lambda: seq_reader.query(level=L))
                b_ = guarded(lambda: CopcReader(io.BytesIO(data)).query(level=L))
                ok_ = (a_[0] == b_[0] == "ok") and sorted(bytes(r) for r in a_[1].array) == sorted(bytes(r) for r in b_[1].array) if a_[0] == "ok" and b_[0] == "ok" else a_[0] == b_[0]
                ck.evaluations += 1
                if not ok_:
                    ck.fail(f"one reader asked level after level: its answer for level {L} ({a_[0]}, {len(a_[1]) if a_[0] == 'ok' else '-'} points) is not what a fresh reader "
                            f"returns ({b_[0]}, {len(b_[1]) if b_[0] == 'ok' else '-'} points; same count, other records)" , {"kind": "level_after_level", "tree": ti, "depth": depth, "level": L, "fmt": t.fmt})
                    break
        if ti % 2 == 0:
            # the shared reader first serves a query that stops one or two levels above the deepest one: what it keeps of the lazily loaded
            # pages must not depend on that (every later query on it is compared with a fresh reader's answer)
            ck.count("shared_reader_primed_with_a_coarse_query")
            guarded(lambda: shared.query(level=max(0, depth - 1)) if ti % 4 == 0 else shared.query(resolution=t.spacing / 2.0 ** max(0, depth - 2)))
        nq = 9 if q else 14
        for qi in range(nq):
            mode = ck.rng.choice(["all", "level", "box", "box", "both", "res", "resbox"]) if qi else "all"
            level = rand_level(ck.rng, depth) if mode in ("level", "both") else None
            box = rand_box(ck.rng, t) if mode in ("box", "both", "resbox") else None
            res = None
            if qi == 2:
                # on every tree: the whole XY extent as a 2-D box with whole-number faces, given as integers
                mode = "box"
                lo2 = [float(math.floor(t.root_grid[i] * t.scale + t.offsets[i]) - 1) for i in range(2)]
                hi2 = [float(math.ceil((t.root_grid[i] + t.G) * t.scale + t.offsets[i]) + 1) for i in range(2)]
                box = ("enclose_whole", lo2, hi2)
                level = None
            if qi == 1:
                mode = "res"        # on every tree: a resolution that is exactly the spacing of one of its levels
            if qi in (6, 7):
                # on every tree: level ranges with a step (skipped levels must stay out) and ranges that select nothing
                mode = "level" if qi == 6 or ti % 2 else "both"
                forms = [range(0, depth + 2, 2), range(1, depth + 2, 2), range(depth, -1, -2), range(0, depth + 1, 3)] if qi == 6 else \
                        [range(1, 1), range(0, 0), range(depth, depth - 1), range(depth + 1, 0, -2)]
                level = forms[ti % 4]
                box = rand_box(ck.rng, t) if mode == "both" else None
            if qi == 0 and ti % 2 == 1:
                # on every other tree the first query ("everything") is asked with a box without bounds: infinite on all faces, on the upper faces only
                # (3-D), or in 2-D - every stored point is inside
                inf_ = float("inf")
                kind_ = ["inf_3d", "upper_faces_inf", "inf_2d", "astronomic"][(ti // 2) % 4]
                if kind_ == "inf_3d":
                    box = (kind_, [-inf_] * 3, [inf_] * 3)
                elif kind_ == "upper_faces_inf":
                    box = (kind_, [(t.root_grid[i] - 1) * t.scale + t.offsets[i] for i in range(3)], [inf_] * 3)
                elif kind_ == "inf_2d":
                    box = (kind_, [-inf_] * 2, [inf_] * 2)
                else:
                    box = (kind_, [-1e300] * 3, [1e300] * 3)
                mode = "box"
            if qi in (4, 5) and nq > 5:
                # on every tree: (4) a box one of whose faces lies three quarters of a step beyond a stored point (the point is outside by more than half a
                # step: min face for qi 4 on even trees, max face on odd ones); (5) a box drawn tightly (a quarter step) around a stored point of the
                # deepest occupied level (only that point's cell, far from the root's origin, overlaps it)
                deep = [k for k in sorted(t.nodes, key=lambda k_: (-k_[0], k_)) if len(t.nodes[k])]
                if deep:
                    kk = deep[0] if qi == 5 else deep[len(deep) // 2]
                    pt = t.nodes[kk][0]
                    g = [int(pt["X"]), int(pt["Y"]), int(pt["Z"])]
                    mode = "box"
                    level = None
                    if qi == 5:
                        lo_ = [(g[i] - 0.25) * t.scale + t.offsets[i] for i in range(3)]
                        hi_ = [(g[i] + 0.25) * t.scale + t.offsets[i] for i in range(3)]
                        box = ("tight_around_deep_point", lo_, hi_)
                    else:
                        lo_ = [(t.root_grid[i] - 1) * t.scale + t.offsets[i] for i in range(3)]
                        hi_ = [(t.root_grid[i] + t.G + 1) * t.scale + t.offsets[i] for i in range(3)]
                        ax_ = ti % 3
                        if ti % 2 == 0:
                            lo_[ax_] = (g[ax_] + 0.75) * t.scale + t.offsets[ax_]
                        else:
                            hi_[ax_] = (g[ax_] - 0.75) * t.scale + t.offsets[ax_]
                        box = ("face_three_quarters_beyond_a_point", lo_, hi_)
            if qi == 3:
                mode = "res"        # on every tree: a resolution coarser than the root level's spacing (levels 0..0: the root node's points)
            if mode in ("res", "resbox"):
                res = t.spacing / 2.0 ** ck.rng.randrange(-2, 6) * ck.rng.choice([1.0, 1.25, 0.75])
                if qi == 1:
                    res = t.spacing / 2.0 ** ck.rng.randrange(0, depth + 1)
                    level, box = None, None
                if qi == 3:
                    res = t.spacing * [2.0, 4.0, 2.5, 100.0][ti % 4]
                    res = int(res) if ti % 8 >= 4 and float(res).is_integer() else res
                    level, box = None, None
            inp = {"kind": "query", "tree": ti, "depth": depth, "nodes": len(t.nodes), "pages": len(t.entries), "malform": malform,
                   "level": None if level is None else level_tok(level), "box": None if box is None else [box[0], [repr(v) for v in box[1]], [repr(v) for v in box[2]]],
                   "resolution": res, "fmt": t.fmt}
            ck.case(("c15", mode, level_tok(level), str(box), res, hash(data)), nontrivial=len(t.nodes) > 1)
            ck.count("mode:" + mode)
            if box:
                ck.count("box:" + box[0] + (":2d" if len(box[1]) == 2 else ""))
            if malform:
                ck.count("malformed:" + malform[0])
            bounds = Bounds(np.array(box[1]), np.array(box[2])) if box else None
            if box and all(float(v).is_integer() and abs(v) < 2 ** 31 for v in box[1] + box[2]) and (qi == 2 or ck.rng.random() < 0.7):
                # the same box given with integer faces (an integer array): the result must not depend on the dtype of the faces
                ck.count("box_given_as_integers" + (":2d" if len(box[1]) == 2 else ""))
                inp["box_dtype"] = "int"
                bounds = Bounds(np.array([int(v) for v in box[1]]), np.array([int(v) for v in box[2]]))
            # --- model's view
            if box:
                lo = list(box[1]) + [float(hdr.mins[2])] * (3 - len(box[1]))
                hi = list(box[2]) + [float(hdr.maxs[2])] * (3 - len(box[2]))
                box_tok = ",".join(C.frac(v) for pair in zip(lo, hi) for v in pair)
            else:
                box_tok, lo, hi = "-", None, None
            if res is not None:
                lm = max(1, math.ceil(math.log2(t.spacing / res)) + 1)
                lvl_for_model = range(0, lm)
            else:
                lvl_for_model = level
            line = f"cp load {geo_tok} {box_tok} {level_tok(lvl_for_model)} {root_tok} {pages_tok}"
            # --- implementation: node list on a fresh reader, then the query itself
            fresh = CopcReader(io.BytesIO(data))

            def nodes_fn():
                b3 = bounds.ensure_3d(fresh.header.mins, fresh.header.maxs) if bounds is not None else None
                lr = lvl_for_model
                if isinstance(lr, int):
                    lr = range(lr, lr + 1)
                return load_octree_for_query(fresh.source, fresh.copc_info, fresh.root_page, query_bounds=b3, level_range=lr)
            r = guarded(nodes_fn)
            if r[0] == "ok":
                impl_nodes = "ok " + " ".join(f"{n.key.level}.{n.key.x}.{n.key.y}.{n.key.z}:{n.offset}:{n.byte_size}:{n.point_count}" for n in r[1])
            elif r[0] == "loop":
                impl_nodes = "loop"
                ck.fail(f"load_octree_for_query did not return within {WATCHDOG_S}s (malformed page reference {malform})", inp)
            else:
                impl_nodes = "err malformed" if r[1] == "LaspyException" else f"exc:{r[1]}"
            add(line, inp, impl_nodes if impl_nodes != "ok" else "ok ")
            if box:
                for ax in range(3):
                    add(f"cp grid {C.frac(t.scale)} {C.frac(t.offsets[ax])} {C.frac(lo[ax])} {C.frac(hi[ax])} 0", dict(inp, axis=ax), ("grid", ax))
            # --- the query through the public API (another fresh reader, one without readinto every other time)
            src = io.BytesIO(data) if qi % 2 == 0 else st.NoReadintoStream(data)
            rd = CopcReader(src)
            fetched = {}
            orig_fetch = rd._fetch_all_chunks

            def spy(groups, _o=orig_fetch, _f=fetched):
                _f["queries"] = ",".join(f"{g[0].offset}:{sum(nn.byte_size for nn in g)}" for g in groups)
                res = _o(groups)
                _f["table"] = ",".join(f"{c}:{sz}" for (c, sz) in res[2])
                return res
            rd._fetch_all_chunks = spy

            def query_fn():
                if mode == "box" and qi % 3 == 0:
                    return rd.spatial_query(bounds)
                if mode == "level" and qi % 3 == 0:
                    return rd.level_query(level)
                return rd.query(bounds=bounds, level=level, resolution=res)
            r2 = guarded(query_fn)
            meta[-1 if not box else -4] = (inp, impl_nodes if impl_nodes != "ok" else "ok ", r2, lo, hi, t, item, by_loc)
            if r2[0] == "ok" and "queries" in fetched and impl_nodes.startswith("ok"):
                # read requests and chunk table: the model groups the model-order node list
                toks = impl_nodes.split()[1:]
                lines.append("cp fetch " + (",".join(toks) or "-"))
                meta.append(("fetch", inp, fetched["queries"] + " | " + fetched["table"]))
            # --- brute-force oracle (independent of the model)
            reached_bad = malform is not None and mode == "all"
            if r2[0] == "loop":
                ck.fail(f"query did not return within {WATCHDOG_S}s (malformed page reference {malform})", inp)
                continue
            if reached_bad:
                if r2[0] != "exc":
                    ck.fail(f"a hierarchy that breaks the page-reference rule ({malform}) did not make the full query fail", inp)
                continue
            if r2[0] == "exc":
                if malform is None:
                    ck.fail(f"query raised {r2[1]}: {r2[2]}", inp)
                continue
            got = sorted(r2[1].array.tobytes()[i:i + item] for i in range(0, len(r2[1]) * item, item))
            if malform is None:
                if res is not None:
                    L = 0
                    while t.spacing / 2 ** L > res:
                        L += 1
                    sel_levels = lambda l: l <= L
                elif level is None:
                    sel_levels = lambda l: True
                elif isinstance(level, int):
                    sel_levels = lambda l: l == level
                else:
                    sel_levels = lambda l: l in level
                must, may = [], []
                for k, arr in t.nodes.items():
                    if not sel_levels(k[0]):
                        continue
                    for p in arr:
                        rec = p.tobytes()
                        if box is None:
                            must.append(rec)
                            may.append(rec)
                            continue
                        inside, near = True, True
                        for ax, name in enumerate(("X", "Y", "Z")[:len(box[1])]):
                            X = Fraction(int(p[name]))
                            l_, h_ = box[1][ax], box[2][ax]
                            fl = None if l_ == float("-inf") else (Fraction(l_) - Fraction(t.offsets[ax])) / Fraction(t.scale)
                            fh = None if h_ == float("inf") else (Fraction(h_) - Fraction(t.offsets[ax])) / Fraction(t.scale)
                            if fl is not None and X < fl or fh is not None and X > fh:
                                inside = False
                            if fl is not None and X < fl - Fraction(1, 2) or fh is not None and X > fh + Fraction(1, 2):
                                near = False
                        if inside:
                            must.append(rec)
                        if near:
                            may.append(rec)
                from collections import Counter
                cg, cmust, cmay = Counter(got), Counter(must), Counter(may)
                if cmust - cg:
                    ck.fail(f"{sum((cmust - cg).values())} stored point(s) of the selected levels inside the box are not returned ({mode})", inp)
                elif cg - cmay:
                    ck.fail(f"{sum((cg - cmay).values())} returned point(s) are not stored in the selected levels within half a step of the box ({mode})", inp)
                # the same query on the shared reader (hierarchy already partly merged by earlier queries)
                r3 = guarded(lambda: shared.query(bounds=bounds, level=level, resolution=res))
                if r3[0] != "ok":
                    ck.fail(f"the same query on a reader that served earlier queries: {r3}", inp)
                else:
                    got3 = sorted(r3[1].array.tobytes()[i:i + item] for i in range(0, len(r3[1]) * item, item))
                    if got3 != got:
                        ck.fail("the same query on a reader that served earlier queries returns different points", inp)
            if ti < 2 and qi < 2:
                ck.sample(inp)
    # ---------------------------------------------------------------- model vs implementation
    out = ck.driver(lines)
    bad = None
    if out is None or len(out) != len(lines):
        bad = "driver did not run"
    else:
        i = 0
        while i < len(lines):
            m = meta[i]
            if len(m) == 3 and m[0] == "fetch":
                if out[i].strip() != m[2].strip():
                    if bad is None:
                        bad = f"fetch {m[1]}: model '{out[i][:200]}' impl '{m[2][:200]}'"
                    ck.fail(f"read requests / chunk table differ from the model's grouping: model '{out[i][:160]}' impl '{m[2][:160]}'", m[1], source="correspondence")
                i += 1
                continue
            if len(m) == 2:
                if out[i].strip() != str(m[1]).strip() and bad is None:
                    bad = f"{m[0]}: model '{out[i][:200]}' impl '{str(m[1])[:200]}'"
                i += 1
                continue
            inp, impl_nodes, r2, lo, hi, t, item, by_loc = m
            model_nodes = out[i]
            if model_nodes.strip() != impl_nodes.strip():
                if impl_nodes != "loop" and bad is None:
                    bad = f"nodes {inp}: model '{model_nodes[:300]}' impl '{impl_nodes[:300]}'"
                if impl_nodes != "loop":
                    ck.fail(f"load_octree_for_query: nodes differ from the model's traversal: model '{model_nodes[:160]}' impl '{impl_nodes[:160]}'", inp, source="correspondence")
            nxt = i + 1
            faces = None
            if lo is not None:
                faces = [tuple(int(v) for v in out[i + 1 + ax].split()[:2]) for ax in range(3)]
                nxt = i + 4
            if r2[0] == "ok" and model_nodes.startswith("ok"):
                exp = []
                for tok in model_nodes.split()[1:]:
                    key, o, s, c = tok.split(":")
                    k = tuple(int(v) for v in key.split("."))
                    arr = t.nodes.get(k)
                    if arr is None or int(c) <= 0:
                        continue
                    for p in arr:
                        if faces is None or all(faces[ax][0] <= int(p[name]) <= faces[ax][1] for ax, name in enumerate(("X", "Y", "Z"))):
                            exp.append(p.tobytes())
                got = sorted(r2[1].array.tobytes()[j:j + item] for j in range(0, len(r2[1]) * item, item))
                if sorted(exp) != got:
                    if bad is None:
                        bad = f"points {inp}: model selects {len(exp)} records, query returned {len(got)}"
                    ck.fail(f"query returned {len(got)} records, the model's nodes and integer-grid faces {faces} select {len(exp)}", inp, source="correspondence")
            elif (r2[0] == "exc") != model_nodes.startswith("err") and r2[0] != "loop":
                if bad is None:
                    bad = f"outcome {inp}: model '{model_nodes[:80]}' impl {r2[:2]}"
            i = nxt
    ck.oblige("correspondence copc: model traversal (node list in order, errors) / integer-grid faces / level arithmetic == laspy.copc on synthetic files",
              "correspondence", bad is None, bad or "")
    ck.failures.sort(key=lambda f: (f["input"].get("nodes", 0), len(str(f["input"]))))
    if ck.tier == "thorough":
        ck.leanchecker(["LasModel.Props.C15", "LasModel.Props.C15Geo"])
