"""C13 — extra dimensions stay consistent across add/remove histories."""
import io
import logging
import struct
import warnings

import numpy as np

from .. import fileio as fio
from . import c02, c08

THEOREMS = ["typeRow_spec", "C13_descriptor", "C13_payload", "C13_reclen", "C13_add", "C13_remove_bad", "C13_remove"]
hx = c08.hx
BASES = c02.EXTRA_BASE


def dbits(x):
    return struct.unpack("<Q", struct.pack("<d", float(x)))[0]


class Dim:
    def __init__(self, name, desc, type_id, count, scaling):
        self.name, self.desc, self.type_id, self.count, self.scaling = name, desc, type_id, count, scaling

    def tok(self):
        sc = "-" if self.scaling is None else ",".join(str(dbits(x)) for x in self.scaling[0]) + ";" + ",".join(str(dbits(x)) for x in self.scaling[1])
        return f"{hx(self.name.encode())}:{hx(self.desc.encode())}:{self.type_id}:{self.count}:{sc}"

    def type_str(self):
        if self.type_id == 0:
            return f"{self.count}u1"
        base, k = c02.extra_type(self.type_id)
        return base if k == 1 else f"{k}{base}"

    def params(self):
        from laspy import ExtraBytesParams
        kw = {}
        if self.scaling is not None:
            kw["scales"] = np.array(self.scaling[0], dtype=np.float64)
            kw["offsets"] = np.array(self.scaling[1], dtype=np.float64)
            self._given = (kw["scales"], kw["offsets"])
        return ExtraBytesParams(name=self.name, type=self.type_str(), description=self.desc, **kw)

    def scribble(self):
        """the caller re-uses the arrays it passed as scales / offsets (e.g. `scales *= 10` for the next dimension): the dimension keeps its own"""
        for a in getattr(self, "_given", ()):
            a *= 7.0
            a += 3.0

    def size(self):
        if self.type_id == 0:
            return self.count
        base, k = c02.extra_type(self.type_id)
        return int(base[1:]) * k


def gen_dim(rng, used, opaque_count=None, freed=None):
    while True:
        if freed and rng.random() < 0.6:
            # a name that was used by a dimension removed earlier in this history (now with another type, usually)
            name = freed.pop(rng.randrange(len(freed)))
        else:
            name = c08.rand_text(rng, rng.choice([1, 3, 8, 31, 32]), "abcdefghijklmnopqrstuvwxyz_0123456789")
            if len(name) < 32 and rng.random() < 0.15:
                name += " "              # names and descriptions are kept as given, a trailing blank included
        if name not in used and name not in ("x", "y", "z", "X", "Y", "Z"):
            break
    used.add(name)
    desc = c08.rand_text(rng, rng.choice([0, 1, 10, 32]), "abcdefgh XYZ-.")
    if desc != desc.rstrip() and rng.random() < 0.6:
        desc = desc.rstrip() + "." if len(desc.rstrip()) < 32 else desc.rstrip()
    if opaque_count is not None or rng.random() < 0.3:
        cnt = opaque_count if opaque_count is not None else rng.choice([4, 5, 7, 8, 12, 16, 24, 28, 31, 32, 100, 231, 255, rng.randrange(4, 256)])
        return Dim(name, desc, 0, cnt, None)
    tid = rng.randrange(1, 31)
    base, k = c02.extra_type(tid)
    scaling = None
    if rng.random() < 0.4:
        scaling = ([rng.choice([0.5, 0.01, 2.0, 1.0]) for _ in range(k)], [rng.choice([0.0, 10.0, -3.5, 100.0]) for _ in range(k)])
    return Dim(name, desc, tid, 0, scaling)


def eb_payload(las):
    for v in las.vlrs:
        if type(v).__name__ == "ExtraBytesVlr":
            return bytes(v.record_data_bytes())
    return b""


def n_eb_vlrs(las):
    return sum(1 for v in las.vlrs if type(v).__name__ == "ExtraBytesVlr")


def dims_state(las):
    return [(d.name, str(d.dtype), None if d.scales is None else [dbits(x) for x in d.scales], None if d.offsets is None else [dbits(x) for x in d.offsets], d.description)
            for d in las.point_format.extra_dimensions]


def expect_state(dims):
    out = []
    for d in dims:
        dt = str(np.dtype(d.type_str()))
        out.append((d.name, dt, None if d.scaling is None else [dbits(x) for x in d.scaling[0]], None if d.scaling is None else [dbits(x) for x in d.scaling[1]], d.desc))
    return out


def partly_described_layer(ck, n_cases):
    """a file whose extra-bytes record describes only the first of its extra dimensions (the rest of each record's extra bytes is not described, as files
    of other producers have it): laspy reads it with the record length of the file, the described dimension under its name, and add / remove
    histories keep the record length equal to standard + extra bytes"""
    import laspy
    for ci in range(n_cases):
        minor, fmt = fio.PAIRS[(2 * ci + 1) % len(fio.PAIRS)]
        n = [1, 3, 4][ci % 3]
        las = fio.make_las(ck.rng, minor, fmt, n)
        t1, t2 = ck.rng.choice(["u2", "i4", "f8", "2u1"]), ck.rng.choice(["u1", "3i2", "f4", "u8"])
        las.add_extra_dims([laspy.ExtraBytesParams("kept", t1), laspy.ExtraBytesParams("undescribed", t2)])
        raw = bytes(ck.rng.getrandbits(8) for _ in range(n * las.points.array.dtype.itemsize))
        las.points.array[:] = np.frombuffer(raw, dtype=las.points.array.dtype)
        las.update_header()
        b0 = io.BytesIO()
        las.write(b0)
        data = bytearray(b0.getvalue())
        hsize, off, nvlr = int.from_bytes(data[94:96], "little"), int.from_bytes(data[96:100], "little"), int.from_bytes(data[100:104], "little")
        pos, done = hsize, False
        for _ in range(nvlr):
            ln = int.from_bytes(data[pos + 20:pos + 22], "little")
            if bytes(data[pos + 2:pos + 18]).split(b"\0")[0] == b"LASF_Spec" and int.from_bytes(data[pos + 18:pos + 20], "little") == 4 and ln == 384:
                data[pos + 20:pos + 22] = (192).to_bytes(2, "little")
                del data[pos + 54 + 192:pos + 54 + 384]
                done = True
                break
            pos += 54 + ln
        if not done:
            ck.count("partly_described:no_record_found")
            continue
        data[96:100] = (off - 192).to_bytes(4, "little")
        data = bytes(data)
        size = las.points.array.dtype.itemsize
        records = bytes(b0.getvalue()[off:off + n * size])
        inp = {"kind": "partly_described", "minor": minor, "fmt": fmt, "n": n, "described": "kept:" + t1, "not_described": t2, "record_size": size}
        ck.case(("partly_described", minor, fmt, n, t1, t2, raw), nontrivial=True)
        ck.count("partly_described_files")
        try:
            back = laspy.read(io.BytesIO(data))
        except Exception as e:
            ck.fail(f"a file whose extra-bytes record describes one of two extra dimensions could not be read: {type(e).__name__}: {e}", inp)
            continue
        if back.points.array.dtype.itemsize != size or back.header.point_format.size != size or back.points.array.tobytes() != records:
            ck.fail(f"file with partly described extra bytes: record length {back.points.array.dtype.itemsize}, point format size {back.header.point_format.size}, "
                    f"the file's records are {size} bytes; records read identical: {back.points.array.tobytes() == records}", inp)
            continue
        if "kept" not in list(back.point_format.extra_dimension_names) or np.ascontiguousarray(back["kept"]).tobytes() != np.ascontiguousarray(las["kept"]).tobytes():
            ck.fail("file with partly described extra bytes: the described dimension is not presented under its name with its values", inp)
        try:
            back.add_extra_dim(laspy.ExtraBytesParams("added", "u2"))
            if back.points.array.dtype.itemsize != back.header.point_format.size or back.points.array.dtype.itemsize != size + 2:
                ck.fail(f"after adding a dimension to it: record length {back.points.array.dtype.itemsize}, point format size {back.header.point_format.size}, expected {size + 2}", inp)
            if np.ascontiguousarray(back["kept"]).tobytes() != np.ascontiguousarray(las["kept"]).tobytes():
                ck.fail("adding a dimension changed the values of the described dimension", inp)
            b2 = io.BytesIO()
            back.write(b2)
            again = laspy.read(io.BytesIO(b2.getvalue()))
            if again.points.array.tobytes() != back.points.array.tobytes():
                ck.fail("the object read from a partly described file does not survive a write/read round trip after a dimension was added", inp)
        except Exception as e:
            ck.fail(f"editing / re-writing an object read from a partly described file raised {type(e).__name__}: {e}", inp)


def fork_and_construct_layer(ck, n_cases):
    """(1) an object derived from another one (las[mask], deepcopy of the header, the writer's private copy) is independent:
    adding or removing an extra dimension on either leaves the other consistent and unchanged; (2) a header / LasData built
    from a PointFormat that already carries extra dimensions describes them in its extra-bytes VLR and in the file"""
    import copy
    import laspy
    for ci in range(n_cases):
        minor, fmt = ck.rng.choice(fio.PAIRS)
        n = ck.rng.choice([2, 4])
        las = fio.make_las(ck.rng, minor, fmt, n)
        used = set()
        first = [gen_dim(ck.rng, used) for _ in range(ck.rng.choice([0, 1, 2]))]
        if first:
            las.add_extra_dims([d.params() for d in first])
            for d_ in first:
                d_.scribble()
        how = ["mask", "slice", "deepcopy_header", "points_reassigned_copy", "points_from_reader", "points_with_deepcopied_format"][ci % 6]
        if how == "points_reassigned_copy":
            # the same object, its points assigned again (an equal record carrying its own, equal, point format object)
            las.points = las.points.copy()
            other = las
        elif how == "points_from_reader":
            b_ = io.BytesIO()
            las.write(b_)
            with laspy.open(io.BytesIO(b_.getvalue())) as rd_:
                other = laspy.LasData(rd_.header)
                other.points = rd_.read_points(n)
        elif how == "points_with_deepcopied_format":
            rec_ = las.points.copy()
            rec_.point_format = copy.deepcopy(las.header.point_format)
            las.points = rec_
            other = las
        elif how == "mask":
            other = las[np.ones(n, dtype=bool)]
        elif how == "slice":
            other = las[0:n]
        else:
            other = laspy.LasData(copy.deepcopy(las.header), las.points.copy() if hasattr(las.points, "copy") else las.points)
        state_las = (dims_state(las), las.points.array.dtype.itemsize, las.header.point_format.size, n_eb_vlrs(las), eb_payload(las))
        new = gen_dim(ck.rng, used)
        inp = {"kind": "fork", "minor": minor, "fmt": fmt, "how": how, "first": [d.name for d in first], "added_on_the_derived_object": new.name}
        ck.case(("fork", minor, fmt, how, tuple(d.name for d in first), new.name), nontrivial=True)
        ck.count("fork:" + how)
        try:
            other.add_extra_dim(new.params())
            if first and ck.rng.random() < 0.5:
                other.remove_extra_dim(first[0].name)
                inp["removed_on_the_derived_object"] = first[0].name
        except Exception as e:
            ck.fail(f"editing the extra dimensions of an object derived by {how} raised {type(e).__name__}: {e}", inp)
            continue
        if other.header.point_format.size != other.points.array.dtype.itemsize:
            ck.fail(f"object derived by {how}: after editing its extra dimensions its point format size {other.header.point_format.size} != record length "
                    f"{other.points.array.dtype.itemsize}", inp)
        try:
            b2_ = io.BytesIO()
            other.write(b2_)
            back_ = laspy.read(io.BytesIO(b2_.getvalue()))
            if list(back_.point_format.extra_dimension_names) != list(other.point_format.extra_dimension_names) or len(back_.points) != len(other.points):
                ck.fail(f"object derived by {how}: the file written after editing its extra dimensions reads back with extra dimensions "
                        f"{list(back_.point_format.extra_dimension_names)} (object: {list(other.point_format.extra_dimension_names)})", inp)
        except Exception as e:
            ck.fail(f"object derived by {how}: writing / reading it after editing its extra dimensions raised {type(e).__name__}: {e}", inp)
        if other is las:
            continue
        now = (dims_state(las), las.points.array.dtype.itemsize, las.header.point_format.size, n_eb_vlrs(las), eb_payload(las))
        if now != state_las:
            ck.fail(f"editing the extra dimensions of an object derived by {how} changed the object it was derived from: "
                    f"extra dimensions {[d[0] for d in now[0]]} (were {[d[0] for d in state_las[0]]}), record length {now[1]}, format size {now[2]}", inp)
        if las.header.point_format.size != las.points.array.dtype.itemsize:
            ck.fail(f"after editing a derived object the original's point format size {las.header.point_format.size} != record length {las.points.array.dtype.itemsize}", inp)
    # objects made from scratch after all those edits start without extra dimensions: the history of one object is not the history of another
    for label, make in (("LasHeader()", lambda: laspy.LasHeader()), ("laspy.create()", lambda: laspy.create().header),
                        ("LasHeader(point_format=3)", lambda: laspy.LasHeader(point_format=3)), ("LasHeader(version='1.4')", lambda: laspy.LasHeader(version="1.4")),
                        ("laspy.create(point_format=6)", lambda: laspy.create(point_format=6).header)):
        for edit in ("add_on_header", "add_on_lasdata", "add_then_remove"):
            inp = {"kind": "fresh_object", "made_by": label, "edit": edit}
            ck.case(("fresh_object", label, edit), nontrivial=True)
            ck.count("fresh_object")
            try:
                first = make()
                if edit == "add_on_lasdata":
                    l_ = laspy.LasData(first)
                    l_.add_extra_dim(laspy.ExtraBytesParams("left_over", "u2"))
                else:
                    first.add_extra_dim(laspy.ExtraBytesParams("left_over", "u2"))
                    if edit == "add_then_remove":
                        first.add_extra_dim(laspy.ExtraBytesParams("second", "f8"))
                        first.remove_extra_dim("left_over")
                fresh = make()
                names = list(fresh.point_format.extra_dimension_names)
                nvlr = sum(1 for v in fresh.vlrs if type(v).__name__ == "ExtraBytesVlr")
                if names or nvlr or fresh.point_format.size != laspy.PointFormat(fresh.point_format.id).size:
                    ck.fail(f"{label} after another object made the same way was given extra dimensions ({edit}): the new object starts with extra dimensions {names}, "
                            f"{nvlr} extra-bytes VLR(s), record length {fresh.point_format.size}", inp)
            except Exception as e:
                ck.fail(f"{label} / {edit} raised {type(e).__name__}: {e}", inp)
            finally:
                # leave no trace for the rest of the run
                try:
                    for nm in list(laspy.LasHeader.DEFAULT_POINT_FORMAT.extra_dimension_names):
                        laspy.LasHeader.DEFAULT_POINT_FORMAT.remove_extra_dimension(nm)
                except Exception:
                    pass
    # built from a PointFormat that already has extra dimensions
    for ci in range(n_cases):
        minor, fmt = ck.rng.choice(fio.PAIRS)
        used = set()
        dims = [gen_dim(ck.rng, used) for _ in range(ck.rng.choice([1, 2]))]
        pf = laspy.PointFormat(fmt)
        for d in dims:
            pf.add_extra_dimension(d.params())
        how = ck.rng.choice(["create", "header_then_lasdata", "open_w"])
        inp = {"kind": "constructed", "minor": minor, "fmt": fmt, "how": how, "dims": [(d.name, d.type_str()) for d in dims]}
        ck.case(("constructed", minor, fmt, how, tuple(inp["dims"])), nontrivial=True)
        ck.count("constructed:" + how)
        try:
            buf = io.BytesIO()
            if how == "create":
                las = laspy.create(point_format=pf, file_version=f"1.{minor}")
                las.write(buf)
            elif how == "header_then_lasdata":
                las = laspy.LasData(laspy.LasHeader(point_format=pf, version=f"1.{minor}"))
                las.write(buf)
            else:
                hdr = laspy.LasHeader(point_format=pf, version=f"1.{minor}")
                with laspy.open(buf, mode="w", header=hdr, closefd=False) as w:
                    w.write_points(laspy.ScaleAwarePointRecord.zeros(2, header=hdr))
                las = laspy.LasData(hdr)
            back = laspy.read(io.BytesIO(buf.getvalue()))
        except Exception as e:
            ck.fail(f"building from a point format with extra dimensions ({how}) raised {type(e).__name__}: {e}", inp)
            continue
        if n_eb_vlrs(las) != 1 or dims_state(las) != expect_state(dims):
            ck.fail(f"object built from a point format with extra dimensions ({how}): {n_eb_vlrs(las)} extra-bytes VLRs, dimensions {dims_state(las)}", inp)
        if dims_state(back) != expect_state(dims) or n_eb_vlrs(back) != 1:
            ck.fail(f"file written from a point format with extra dimensions ({how}) reads back with {[d[0] for d in dims_state(back)]} "
                    f"({n_eb_vlrs(back)} extra-bytes VLRs), expected {[d.name for d in dims]}", inp)


def ordered_removal_layer(ck):
    """fixed cases, run on every seed: three or four extra dimensions of different widths, every pair and triple of them
    removed in every order of the names; the dimensions kept must keep their values and the record its length"""
    import itertools
    import laspy
    types = ["u1", "f8", "3i2", "u4"]
    for k in (3, 4):
        for r in (2, 3):
            for names in itertools.permutations([f"d{i}" for i in range(k)], r):
                las = laspy.create(point_format=ck.rng.choice([0, 3, 6]))
                las.add_extra_dims([laspy.ExtraBytesParams(f"d{i}", types[i]) for i in range(k)])
                n = 3
                las.points = laspy.ScaleAwarePointRecord.zeros(n, header=las.header)
                for i in range(k):
                    arr = las.points.array[f"d{i}"]
                    las.points.array[f"d{i}"] = np.frombuffer(fio.raw_records(ck.rng, 1, arr.nbytes), dtype=arr.dtype).reshape(arr.shape)
                keep = {f"d{i}": las.points.array[f"d{i}"].tobytes() for i in range(k) if f"d{i}" not in names}
                std = [las.points.array[d_].tobytes() for d_ in ("X", "Y", "Z", "intensity")]
                inp = {"kind": "ordered_removal", "dims": [(f"d{i}", types[i]) for i in range(k)], "removed_in_order": list(names)}
                ck.case(("ordered_removal", k, names), nontrivial=True)
                ck.count("ordered_removal_cases")
                try:
                    las.remove_extra_dims(list(names))
                except Exception as e:
                    ck.fail(f"removing {list(names)} raised {type(e).__name__}: {e}", inp)
                    continue
                for nm, b in keep.items():
                    if nm not in (las.points.array.dtype.names or ()) or las.points.array[nm].tobytes() != b:
                        ck.fail(f"removing {list(names)} (in that order) changed the values of the kept extra dimension {nm}", dict(inp, finding_key="C13:remove:values"))
                        break
                if list(las.point_format.extra_dimension_names) != list(keep) or [las.points.array[d_].tobytes() for d_ in ("X", "Y", "Z", "intensity")] != std:
                    ck.fail(f"removing {list(names)}: extra dimensions left {list(las.point_format.extra_dimension_names)}, expected {list(keep)} (or standard values changed)", inp)
                want_len = laspy.PointFormat(las.header.point_format.id).size + sum(np.dtype(types[int(nm[1:])]).itemsize if not types[int(nm[1:])][0].isdigit() else int(types[int(nm[1:])][0]) * np.dtype(types[int(nm[1:])][1:]).itemsize for nm in keep)
                if las.points.array.dtype.itemsize != want_len or las.header.point_format.size != want_len:
                    ck.fail(f"removing {list(names)}: record length {las.points.array.dtype.itemsize} / {las.header.point_format.size}, expected {want_len}", inp)


def run(ck):
    logging.getLogger("laspy").setLevel(logging.CRITICAL)
    warnings.simplefilter("ignore")
    import laspy
    from laspy.errors import LaspyException
    ck.rule = ("histories (<= 8 operations) of add_extra_dim(s) / remove_extra_dim(s) (incl. removing standard and unknown names) "
               "/ raw value assignment / file round trip on real LasData of every point format with random record contents, "
               "over the 30 typed element types, scaled and unscaled, and opaque byte arrays of 4..255 elements (thorough: "
               "every size once), names and descriptions of length 1..32. After every step: all other dimensions byte-equal, "
               "record length = standard + extra bytes, exactly one / zero extra-bytes VLR whose payload equals the model's "
               "descriptors, names/types/scales/offsets/descriptions as expected; write + read reproduces names, types, "
               "values. non-trivial = at least one add and one other op; distinct by history")
    ck.regen()
    ck.lean_props("C13", THEOREMS)
    q = ck.tier == "quick"
    lines, meta = [], []
    sizes = list(range(4, 256)) if not q else [4, 8, 12, 16, 24, 100, 255]
    n_hist = (60 if q else 1200) + len(sizes)
    for hi in range(n_hist):
        minor, fmt = ck.rng.choice(fio.PAIRS)
        n = ck.rng.choice([0, 1, 3, 5])
        las = fio.make_las(ck.rng, minor, fmt, n)
        std = laspy.PointFormat(fmt).size
        used, dims, freed = set(), [], []
        ops_tok, flags, hist = [], [], []
        raw0 = las.points.array.tobytes()
        forced = sizes[hi - (n_hist - len(sizes))] if hi >= n_hist - len(sizes) else None
        steps = 2 if forced is not None else ck.rng.randrange(1, 9)
        ok_history = True
        for step in range(steps):
            k = "add" if (step == 0 or forced is not None and step == 0) else ck.rng.choice(["add", "add", "remove", "remove", "remove_bad", "remove_dup", "assign", "roundtrip"])
            if forced is not None:
                k = "add" if step == 0 else "roundtrip"
            inp = {"kind": "history", "minor": minor, "fmt": fmt, "n": n, "history": hist + [k]}
            before_std = las.points.array.tobytes()
            before_vals = {d.name: las.points.array[d.name].tobytes() for d in dims}
            std_names = [nm for nm in las.points.array.dtype.names if nm not in before_vals]
            before_stdvals = {nm: las.points.array[nm].tobytes() for nm in std_names}
            fk = "C13:" + k
            try:
                if k == "add":
                    new = [gen_dim(ck.rng, used, forced if forced is not None else None, freed) for _ in range(1 if forced is not None else ck.rng.choice([1, 1, 2]))]
                    if any(d.type_id == 0 for d in new):
                        fk += ":opaque%d" % next(d.count for d in new if d.type_id == 0)
                    if dims and ck.rng.random() < 0.25:
                        # the VLRs of another file that also has extra dimensions are carried over first (las.vlrs.extend(src.vlrs)): for a moment there are
                        # two extra-bytes records next to each other; after the next edit there is exactly one again, describing this object's dimensions
                        src_ = laspy.create(point_format=fmt, file_version=f"1.{minor}")
                        src_.add_extra_dim(laspy.ExtraBytesParams("from_other_file", "u2"))
                        src_.vlrs.append(laspy.VLR("verif_src", 5, "carried over", b"xyz"))
                        where_ = ck.rng.choice(["end", "front"])
                        if where_ == "end":
                            las.vlrs.extend(src_.vlrs)
                        else:
                            las.vlrs[0:0] = list(src_.vlrs)
                        hist.append(f"vlrs of another file with extra dimensions carried over ({where_})")
                        ck.count("foreign_extra_bytes_vlr_carried_over")
                    if len(new) == 1:
                        las.add_extra_dim(new[0].params())
                        new[0].scribble()
                    else:
                        las.add_extra_dims([d.params() for d in new])
                        for d_ in new:
                            d_.scribble()
                    dims += new
                    ops_tok.append("A=" + "|".join(d.tok() for d in new))
                    flags.append("1")
                    hist.append("add " + ",".join(f"{d.name}:{d.type_str()}{'(scaled)' if d.scaling else ''}" for d in new))
                elif k == "remove" and dims:
                    victims = ck.rng.sample(dims, min(len(dims), ck.rng.choice([1, 1, 2, 2, 3])))
                    if len(victims) > 1 and ck.rng.random() < 0.5:
                        # names given in the opposite of record order (the last dimensions first)
                        victims.sort(key=lambda d: -dims.index(d))
                    ck.count("remove_%d_names" % len(victims))
                    if len(victims) == 1 and ck.rng.random() < 0.7:
                        las.remove_extra_dim(victims[0].name)
                    elif ck.rng.random() < 0.25:
                        # the names given as a one-shot iterable
                        ck.count("remove_names_as_generator")
                        las.remove_extra_dims(d.name for d in victims)
                    else:
                        las.remove_extra_dims([d.name for d in victims])
                    dims = [d for d in dims if d not in victims]
                    for d in victims:
                        before_vals.pop(d.name)
                        used.discard(d.name)
                        freed.append(d.name)
                    ops_tok.append("R=" + "|".join(hx(d.name.encode()) for d in victims))
                    flags.append("1")
                    hist.append("remove " + ",".join(d.name for d in victims))
                elif k == "remove_dup" and dims:
                    # a name given twice: either it is removed (once) or the call raises and changes nothing
                    victims = ck.rng.sample(dims, min(len(dims), ck.rng.choice([1, 2])))
                    names = [d.name for d in victims] + [victims[0].name]
                    ck.rng.shuffle(names)
                    try:
                        las.remove_extra_dims(names)
                        dims = [d for d in dims if d not in victims]
                        for d in victims:
                            before_vals.pop(d.name)
                            used.discard(d.name)
                        ck.count("remove_dup:removed")
                    except LaspyException:
                        ck.count("remove_dup:raised")
                    hist.append("remove_dup " + ",".join(names))
                    raw0 = None
                elif k == "remove_bad":
                    bad = ck.rng.choice(["X", "intensity", "classification", "no_such_dim", "gps_time"])
                    names = [bad] + ([dims[0].name] if dims and ck.rng.random() < 0.5 else [])
                    ck.rng.shuffle(names)
                    entry = ck.rng.choice(["lasdata", "lasdata", "header", "header_list", "point_format"]) if bad != "no_such_dim" else "lasdata"
                    try:
                        if entry == "lasdata":
                            las.remove_extra_dims(names)
                        elif entry == "header":
                            names = [bad]
                            las.header.remove_extra_dim(bad)
                        elif entry == "header_list":
                            names = [bad]
                            las.header.remove_extra_dims([bad])
                        else:
                            names = [bad]
                            las.point_format.remove_extra_dimension(bad)
                        ck.fail(f"removing {names} (a standard or unknown dimension) through {entry} did not raise", inp)
                    except LaspyException:
                        pass
                    ck.count("remove_bad_through:" + entry)
                    ops_tok.append("R=" + "|".join(hx(x.encode()) for x in names))
                    flags.append("0")
                    hist.append("remove_bad " + ",".join(names))
                elif k == "assign" and dims and n:
                    d = ck.rng.choice(dims)
                    arr = las.points.array[d.name]
                    new_raw = fio.raw_records(ck.rng, 1, arr.nbytes)
                    las.points.array[d.name] = np.frombuffer(new_raw, dtype=arr.dtype).reshape(arr.shape)
                    before_vals[d.name] = las.points.array[d.name].tobytes()
                    hist.append("assign " + d.name)
                    # the model history restarts from the current bytes
                    raw0 = None
                elif k == "roundtrip":
                    buf = io.BytesIO()
                    las.write(buf)
                    back = laspy.read(io.BytesIO(buf.getvalue()))
                    if dims_state(back) != dims_state(las):
                        ck.fail(f"extra dimensions after write/read {dims_state(back)} != before {dims_state(las)}", dict(inp, finding_key=fk))
                    if back.points.array.tobytes() != las.points.array.tobytes():
                        ck.fail("values changed through a write/read round trip", dict(inp, finding_key=fk))
                    if n_eb_vlrs(back) != (1 if dims else 0):
                        ck.fail(f"{n_eb_vlrs(back)} extra-bytes VLRs after reading a file with {len(dims)} extra dimensions", inp)
                    las = back
                    hist.append("roundtrip")
                else:
                    continue
            except Exception as e:
                ck.fail(f"step {step} ({k}) raised {type(e).__name__}: {e}", dict(inp, finding_key=fk))
                ok_history = False
                break
            ck.count("op:" + k)
            # ---- direct oracle after each step
            inp = {"kind": "history", "minor": minor, "fmt": fmt, "n": n, "history": hist[:]}
            for nm, b in before_stdvals.items():
                if las.points.array[nm].tobytes() != b:
                    ck.fail(f"standard dimension {nm} changed by '{hist[-1]}'", dict(inp, finding_key=fk))
            for nm, b in before_vals.items():
                if nm in las.points.array.dtype.names and las.points.array[nm].tobytes() != b:
                    ck.fail(f"extra dimension {nm} changed by '{hist[-1]}'", dict(inp, finding_key=fk + ":values"))
            want_len = std + sum(d.size() for d in dims)
            if las.header.point_format.size != want_len or las.points.array.dtype.itemsize != want_len:
                ck.fail(f"record length {las.header.point_format.size} != standard {std} + extra {want_len - std}", dict(inp, finding_key=fk))
            if n_eb_vlrs(las) != (1 if dims else 0):
                ck.fail(f"{n_eb_vlrs(las)} extra-bytes VLRs for {len(dims)} extra dimensions", dict(inp, finding_key=fk))
            if dims_state(las) != expect_state(dims):
                ck.fail(f"extra dimensions {dims_state(las)} != expected {expect_state(dims)}", dict(inp, finding_key=fk))
        if not ok_history:
            continue
        ck.case(("c13", minor, fmt, tuple(hist)), nontrivial=len(hist) > 1)
        if raw0 is not None and ops_tok:
            lines.append(f"xd hist {std} - {hx(raw0)} " + " ".join(ops_tok))
            meta.append(({"history": hist, "fmt": fmt, "n": n}, f"{''.join(flags)} {las.points.array.dtype.itemsize} {hx(las.points.array.tobytes())} {hx(eb_payload(las))}"))
        # descriptors: parse side
        if dims:
            lines.append("xd parse " + hx(eb_payload(las)))
            meta.append(({"history": hist, "what": "parse"}, " ".join(d.tok() for d in dims)))
        if len(ck.samples) < 3:
            ck.sample({"fmt": fmt, "n": n, "history": hist})
    ordered_removal_layer(ck)
    fork_and_construct_layer(ck, 25 if q else 400)
    partly_described_layer(ck, 12 if q else 200)
    out = ck.driver(lines)
    bad = None
    if out is None or len(out) != len(lines):
        bad = "driver did not run"
    else:
        for (inp, exp), o in zip(meta, out):
            if o != exp and bad is None:
                k = next((i for i in range(min(len(o), len(exp))) if o[i] != exp[i]), min(len(o), len(exp)))
                bad = f"{str(inp)[:300]}: at char {k}: model ...{o[max(0,k-30):k+30]} impl ...{exp[max(0,k-30):k+30]}"
    ck.oblige("correspondence lasdata/extradims: model addDims/removeDims/descriptor/parseDescriptor == real LasData histories (record bytes, extra-bytes VLR payload)",
              "correspondence", bad is None, bad or "")
    ck.failures.sort(key=lambda f: (len(f["input"].get("history", [])), len(str(f["input"]))))
    if ck.tier == "thorough":
        ck.leanchecker(["LasModel.Props.C13"])
