"""C20 — global-encoding flags are independent booleans."""
import io

FLAGS = [
    ("gps_time_type", 0),
    ("waveform_data_packets_internal", 1),
    ("waveform_data_packets_external", 2),
    ("synthetic_return_numbers", 3),
    ("wkt", 4),
]
THEOREMS = ["masks_spec", "set_testBit", "get_testBit", "C20_get_set", "C20_frame", "C20_independent",
            "C20_width", "C20_history", "C20_history_get", "C20_roundtrip"]


def impl_set(flag, v, b):
    from laspy.header import GlobalEncoding, GpsTimeType
    g = GlobalEncoding(v)
    if flag == "gps_time_type":
        setattr(g, flag, GpsTimeType(b))
    else:
        setattr(g, flag, bool(b))
    return g.value, int(getattr(g, flag))


def oracle_one(flag, bit, v, b):
    """direct statement of the property on the implementation"""
    new, got = impl_set(flag, v, b)
    if got != b:
        return f"after {flag}={b} on value {v} the flag reads {got}"
    if (new ^ v) & ~(1 << bit) & 0xFFFFFFFF:
        return f"{flag}={b} on value {v} changed other bits: {v:#06x} -> {new:#06x}"
    if ((new >> bit) & 1) != b:
        return f"{flag}={b} on value {v}: bit {bit} of the field is {(new >> bit) & 1}"
    return None


def replay(inp):
    if inp.get("kind") == "set":
        return oracle_one(inp["flag"], dict(FLAGS)[inp["flag"]], inp["value"], inp["target"])
    if inp.get("kind") == "header":
        return header_roundtrip(inp["value"])
    if inp.get("kind") == "history":
        return history_oracle(inp["value"], [tuple(x) for x in inp["ops"]])
    return "unknown replay kind"


def header_roundtrip(v, minor=4):
    import laspy
    from laspy.header import GlobalEncoding
    h = laspy.LasHeader(version=f"1.{minor}", point_format=6 if minor == 4 else 1)
    h.global_encoding = GlobalEncoding(v)
    buf = io.BytesIO()
    h.write_to(buf)
    raw = buf.getvalue()
    if int.from_bytes(raw[6:8], "little") != v:
        return f"global encoding {v} written as bytes {raw[6:8].hex()} at offset 6"
    h2 = laspy.LasHeader.read_from(io.BytesIO(raw))
    if h2.global_encoding.value != v:
        return f"global encoding {v} read back as {h2.global_encoding.value}"
    return None


def history_oracle(v, ops):
    from laspy.header import GlobalEncoding, GpsTimeType
    g = GlobalEncoding(v)
    expect = v
    for flag, b in ops:
        bit = dict(FLAGS)[flag]
        setattr(g, flag, GpsTimeType(b) if flag == "gps_time_type" else bool(b))
        expect = (expect & ~(1 << bit)) | (b << bit)
        if g.value != expect:
            return f"history from {v}: after {flag}={b} value is {g.value}, expected {expect}"
    return None


def lasdata_layer(ck, n_cases):
    """the field as part of a LasData: flag assignments interleaved with operations that have nothing to do with it (points
    assignment, filtering, header update, VLR edits), then a file round trip and an append session: the field is what the
    assignments made it, in memory and in the file"""
    import laspy
    import numpy as np
    from laspy.header import GlobalEncoding, GpsTimeType
    from laspy.vlrs.known import WktCoordinateSystemVlr
    for ci in range(n_cases):
        minor = [1, 2, 3, 4][ci % 4]
        fmt = ck.rng.choice([0, 1] if minor < 2 else [0, 1, 3] if minor < 4 else [1, 6, 7])
        las = laspy.create(point_format=fmt, file_version=f"1.{minor}")
        n = ck.rng.choice([2, 5, 9])
        las.x = [float(i) for i in range(n)]
        v = ck.rng.choice([0, 0xFFFF, 16, ck.rng.randrange(65536)])
        las.header.global_encoding = GlobalEncoding(v)
        expect = v
        hist = []
        for _ in range(ck.rng.randrange(1, 8)):
            op = ck.rng.choice(["flag", "flag", "points", "filter", "update", "wkt_vlr_add", "wkt_vlr_remove", "evlr_wkt", "fork", "fork"])
            if op == "flag":
                flag, bit = ck.rng.choice(FLAGS)
                b = ck.rng.randrange(2)
                setattr(las.header.global_encoding, flag, GpsTimeType(b) if flag == "gps_time_type" else bool(b))
                expect = (expect & ~(1 << bit)) | (b << bit)
                hist.append(f"{flag}={b}")
            elif op == "fork":
                # an object derived from this one (copy of the header, filtered LasData, converted LasData) gets flags of its own
                import copy
                how = ck.rng.choice(["deepcopy_header", "mask", "convert"])
                if how == "deepcopy_header":
                    other_h = copy.deepcopy(las.header)
                elif how == "mask":
                    other_h = las[np.ones(len(las.points), dtype=bool)].header
                else:
                    other_h = laspy.convert(las, point_format_id=las.header.point_format.id).header
                flag, bit = ck.rng.choice(FLAGS)
                cur = (expect >> bit) & 1
                setattr(other_h.global_encoding, flag, GpsTimeType(1 - cur) if flag == "gps_time_type" else bool(1 - cur))
                hist.append(f"{how}: derived.{flag}={1 - cur}")
                if other_h.global_encoding.value != (expect ^ (1 << bit)):
                    ck.fail(f"LAS 1.{minor}: the derived object ({how}) reads {other_h.global_encoding.value} after {flag}={1 - cur}, expected {expect ^ (1 << bit)}",
                            {"kind": "lasdata", "minor": minor, "fmt": fmt, "value": v, "history": hist[:]})
            elif op == "points":
                las.points = las.points[np.arange(len(las.points)) % 2 == 0] if len(las.points) > 1 else las.points
                hist.append("points = points[mask]")
            elif op == "filter":
                las = las[np.ones(len(las.points), dtype=bool)]
                hist.append("las = las[mask]")
            elif op == "update":
                las.update_header()
                hist.append("update_header()")
            elif op == "wkt_vlr_add":
                if not las.vlrs.get("WktCoordinateSystemVlr"):
                    las.vlrs.append(WktCoordinateSystemVlr('GEOGCS["x"]'))
                hist.append("add WKT VLR")
            elif op == "wkt_vlr_remove":
                las.vlrs = [x for x in las.vlrs if type(x).__name__ != "WktCoordinateSystemVlr"]
                hist.append("remove WKT VLR")
            elif minor >= 4:
                from laspy.vlrs.vlrlist import VLRList
                las.evlrs = VLRList([WktCoordinateSystemVlr('GEOGCS["y"]')])
                hist.append("WKT as EVLR")
            inp = {"kind": "lasdata", "minor": minor, "fmt": fmt, "value": v, "history": hist[:]}
            if las.header.global_encoding.value != expect:
                ck.fail(f"LAS 1.{minor}: after {hist[-1]} the field is {las.header.global_encoding.value}, the assignments made it {expect}", inp)
                expect = las.header.global_encoding.value
        ck.case(("lasdata", minor, fmt, v, tuple(hist)), nontrivial=True)
        ck.count("lasdata_histories")
        inp = {"kind": "lasdata", "minor": minor, "fmt": fmt, "value": v, "history": hist[:]}
        try:
            buf = io.BytesIO()
            las.write(buf)
            data = buf.getvalue()
            if int.from_bytes(data[6:8], "little") != expect:
                ck.fail(f"LAS 1.{minor}: the written file carries {int.from_bytes(data[6:8], 'little')}, the field was {expect}", dict(inp, step="write"))
            back = laspy.read(io.BytesIO(data))
            if back.header.global_encoding.value != expect:
                ck.fail(f"LAS 1.{minor}: read back {back.header.global_encoding.value}, written {expect}", dict(inp, step="read"))
            if not (minor >= 4 and las.evlrs):
                ap = io.BytesIO(data)
                with laspy.open(ap, mode="a", closefd=False) as a:
                    a.append_points(las.points)
                if int.from_bytes(ap.getvalue()[6:8], "little") != expect:
                    ck.fail(f"LAS 1.{minor}: after an append session the file carries {int.from_bytes(ap.getvalue()[6:8], 'little')}, it was {expect}", dict(inp, step="append"))
        except Exception as e:
            ck.fail(f"LAS 1.{minor}: file round trip of the field raised {type(e).__name__}: {e}", inp)
        # the same object written a second time after a flag was set in place; a copy of the written header; a flag set on the
        # writer's header before the session is closed
        try:
            import copy
            flag, bit = ck.rng.choice(FLAGS)
            b = 1 - ((expect >> bit) & 1)
            how = ["lasdata_written_twice", "header_write_to_twice", "deepcopy_of_written_header", "flag_on_writer_header"][ci % 4]
            want2 = (expect & ~(1 << bit)) | (b << bit)
            val = GpsTimeType(b) if flag == "gps_time_type" else bool(b)
            inp2 = dict(inp, step=how, then=f"{flag}={b}")
            ck.count("second_write:" + how)
            if how == "lasdata_written_twice":
                setattr(las.header.global_encoding, flag, val)
                b2 = io.BytesIO()
                las.write(b2)
                got = int.from_bytes(b2.getvalue()[6:8], "little")
            elif how == "header_write_to_twice":
                h1 = io.BytesIO()
                las.header.write_to(h1)
                setattr(las.header.global_encoding, flag, val)
                h2 = io.BytesIO()
                las.header.write_to(h2)
                got = int.from_bytes(h2.getvalue()[6:8], "little")
            elif how == "deepcopy_of_written_header":
                hc = copy.deepcopy(las.header)
                setattr(hc.global_encoding, flag, val)
                h2 = io.BytesIO()
                hc.write_to(h2)
                got = int.from_bytes(h2.getvalue()[6:8], "little")
                if las.header.global_encoding.value != expect:
                    ck.fail(f"LAS 1.{minor}: a flag set on a copy of the header changed the original's field to {las.header.global_encoding.value}", inp2)
            else:
                b2 = io.BytesIO()
                with laspy.open(b2, mode="w", header=las.header, closefd=False) as w:
                    w.write_points(las.points)
                    setattr(w.header.global_encoding, flag, val)
                got = int.from_bytes(b2.getvalue()[6:8], "little")
            if got != want2:
                ck.fail(f"LAS 1.{minor}: {how}: after {flag}={b} the bytes written carry {got:#06x}, the field is {want2:#06x}", inp2)
        except Exception as e:
            ck.fail(f"LAS 1.{minor}: second write of the field raised {type(e).__name__}: {e}", inp)


def two_objects_layer(ck):
    """two objects made from scratch side by side: a flag set on one does not show on the other, nor on an object made afterwards"""
    import laspy
    from laspy.header import GpsTimeType
    makers = {"LasHeader()": lambda: laspy.LasHeader(), "LasHeader(version='1.4', point_format=6)": lambda: laspy.LasHeader(version="1.4", point_format=laspy.PointFormat(6)),
              "laspy.create()": lambda: laspy.create().header, "laspy.create(point_format=7)": lambda: laspy.create(point_format=7, file_version="1.4").header}
    for label, make in makers.items():
        for flag, bit in FLAGS:
            a, b = make(), make()
            va, vb = a.global_encoding.value, b.global_encoding.value
            cur = (va >> bit) & 1
            setattr(a.global_encoding, flag, GpsTimeType(1 - cur) if flag == "gps_time_type" else bool(1 - cur))
            c = make()
            inp = {"kind": "two_objects", "made_by": label, "flag": flag}
            ck.case(("two_objects", label, flag), nontrivial=True)
            ck.count("two_objects")
            if b.global_encoding.value != vb or c.global_encoding.value != vb:
                ck.fail(f"{label}: {flag}={1 - cur} on one object changed the field of another one made the same way from {vb:#06x} to {b.global_encoding.value:#06x} "
                        f"(an object made afterwards starts with {c.global_encoding.value:#06x})", inp)
            try:
                out = io.BytesIO()
                b.write_to(out)
                if int.from_bytes(out.getvalue()[6:8], "little") != vb:
                    ck.fail(f"{label}: the untouched object is written with field {int.from_bytes(out.getvalue()[6:8], 'little'):#06x}, it was {vb:#06x}", inp)
            except Exception as e:
                ck.fail(f"{label}: writing the untouched header raised {type(e).__name__}: {e}", inp)
            # leave the field of the first object as it was, in case it is shared
            setattr(a.global_encoding, flag, GpsTimeType(cur) if flag == "gps_time_type" else bool(cur))


def run(ck):
    ck.rule = ("exhaustive: all 65,536 field values x 5 flags x 2 targets on the real GlobalEncoding class "
               "(direct oracle) and on the generated Lean functions (translation validation); seeded assignment "
               "histories; header round trips. non-trivial = the assignment changes the field or the field has "
               "other bits set; distinct by (flag, target, value) / history")
    ck.exhaustive = True
    ck.regen()
    ck.lean_props("C20", THEOREMS)

    # ---- direct oracle, exhaustive (implementation only)
    n_fail = 0
    for flag, bit in FLAGS:
        for b in (0, 1):
            for v in range(65536):
                msg = oracle_one(flag, bit, v, b)
                ck.case(("set", flag, b, v), nontrivial=(v != 0))
                if msg:
                    n_fail += 1
                    if n_fail <= 20:
                        ck.fail(msg, {"kind": "set", "flag": flag, "value": v, "target": b})
    ck.count("oracle_set_cases", 65536 * 10)
    # values that are not booleans: a flag takes the truth value of what it is given (2, 16, numpy integers ...)
    import numpy as _np
    from laspy.header import GlobalEncoding as _GE
    for flag, bit in FLAGS:
        if flag == "gps_time_type":
            continue
        for val in (2, 4, 16, 0x8000, _np.int64(2), _np.uint8(4), _np.uint16(0x8000), _np.bool_(True), _np.bool_(False), 0, _np.int8(0), 3, -1):
            for v in (0, 0xFFFF, 0x8018, ck.rng.randrange(65536)):
                g = _GE(v)
                setattr(g, flag, val)
                want = (v & ~(1 << bit)) | (int(bool(val)) << bit)
                ck.case(("set_truthy", flag, repr(val), v), nontrivial=True)
                if g.value != want:
                    ck.fail(f"{flag} = {val!r} (truth value {bool(val)}) on field {v:#06x} gives {g.value:#06x}, expected {want:#06x}",
                            {"kind": "set_truthy", "flag": flag, "value": v, "assigned": repr(val)})
    ck.count("oracle_truthy_values", 4 * 13 * 4)
    ck.sample({"op": "GlobalEncoding(0x1234).wkt = False", "result": impl_set("wkt", 0x1234, 0)})

    # ---- translation validation / correspondence: generated Lean functions vs the class
    lines = [f"ge sweep {flag} {b} 0 65536" for flag, _ in FLAGS for b in (0, 1)]
    out = ck.driver(lines)
    mism = 0
    first = None
    if out is None or len(out) != len(lines):
        ck.oblige("correspondence bits/ge: generated GE functions == GlobalEncoding class (exhaustive)", "correspondence",
                  False, "driver did not run")
    else:
        i = 0
        for flag, _ in FLAGS:
            for b in (0, 1):
                vals = out[i].split(" ")
                i += 1
                if len(vals) != 65536:
                    mism += 1
                    first = first or f"{flag} {b}: driver said {out[i-1][:60]}"
                    continue
                for v in range(65536):
                    s, g = impl_set(flag, v, b)
                    if vals[v] != f"{s}:{g}":
                        mism += 1
                        first = first or f"{flag}={b} on {v}: lean {vals[v]} python {s}:{g}"
        ck.count("tv_cases", 65536 * 10)
        ck.evaluations += 65536 * 10
        ck.oblige("correspondence bits/ge: generated GE functions == GlobalEncoding class (exhaustive)", "correspondence",
                  mism == 0, first or "")

    # ---- histories (seeded) : implementation vs model run, and the oracle
    n_hist = 400 if ck.tier == "quick" else 20000
    lines, cases = [], []
    for _ in range(n_hist):
        v = ck.rng.choice([0, 0xFFFF, ck.rng.randrange(65536)])
        ops = [(ck.rng.choice(FLAGS)[0], ck.rng.randrange(2)) for _ in range(ck.rng.randrange(1, 9))]
        cases.append((v, ops))
        lines.append(f"ge run {v} " + " ".join(f"{f}={b}" for f, b in ops))
    out = ck.driver(lines)
    bad = None
    for (v, ops), o in zip(cases, out or []):
        from laspy.header import GlobalEncoding, GpsTimeType
        g = GlobalEncoding(v)
        for f, b in ops:
            setattr(g, f, GpsTimeType(b) if f == "gps_time_type" else bool(b))
        ck.case(("hist", v, tuple(ops)))
        if str(g.value) != o:
            bad = bad or f"history {v} {ops}: lean {o} python {g.value}"
        msg = history_oracle(v, ops)
        if msg:
            ck.fail(msg, {"kind": "history", "value": v, "ops": ops})
    ck.oblige("correspondence bits/ge-history: model run == class on seeded histories", "correspondence",
              out is not None and bad is None, bad or "")
    ck.sample({"history": cases[0] if cases else None})

    # ---- header round trip of the field (all values in thorough, 512 seeded + edges in quick)
    vals = range(65536) if ck.tier == "thorough" else sorted(set([0, 1, 16, 31, 0xFFE0, 0xFFFF] + [ck.rng.randrange(65536) for _ in range(512)]))
    for v in vals:
        msg = header_roundtrip(v)
        ck.case(("hdr", v), nontrivial=v != 0)
        if msg:
            ck.fail(msg, {"kind": "header", "value": v})
    ck.count("header_roundtrips", len(vals))
    # the same through the headers of the other versions (the field has the same place and width in all of them)
    for minor in (1, 2, 3):
        sub = sorted(set([0, 1, 16, 31, 0xFFE0, 0xFFFF] + [ck.rng.randrange(65536) for _ in range(128 if ck.tier == "quick" else 8192)]))
        for v in sub:
            msg = header_roundtrip(v, minor)
            ck.case(("hdr", minor, v), nontrivial=v != 0)
            if msg:
                ck.fail(f"LAS 1.{minor}: " + msg, {"kind": "header", "value": v, "minor": minor})
        ck.count("header_roundtrips_1.%d" % minor, len(sub))
    lasdata_layer(ck, 60 if ck.tier == "quick" else 2500)
    two_objects_layer(ck)
    ck.failures.sort(key=lambda f: (f["input"].get("value", 0), f["input"].get("target", 0)))
    if ck.tier == "thorough":
        ck.leanchecker(["LasModel.Props.C20"])
