"""C01 — lossless write/read round trip of point records."""
import io
import logging
import os
import shutil
import tempfile

import numpy as np

from .. import fileio as fio
from . import c07, c08

THEOREMS = ["session_form", "readFile_form", "C01_roundtrip", "C01_header_fields", "C01_pure", "C01_idempotent"]
hx = c08.hx


def canon_read(las):
    """canonical string of a read-back LasData, in the format of the driver's `file read`"""
    h = las.header
    dbl = [fio.dbits(h.scales[i]) for i in range(3)] + [fio.dbits(h.offsets[i]) for i in range(3)]
    for i in range(3):
        dbl += [fio.dbits(h.maxs[i]), fio.dbits(h.mins[i])]
    fmt = h.point_format.id | (0x80 if h.are_points_compressed else 0)
    d = h.creation_date
    parts = [str(h.file_source_id), str(h.global_encoding.value), hx(h.uuid.bytes_le), str(h.version.major), str(h.version.minor),
             hx(c07.as_bytes(h.system_identifier)), hx(c07.as_bytes(h.generating_software)),
             str(d.timetuple().tm_yday) if d else "?", str(d.year) if d else "?", str(fmt), str(h.point_format.size),
             str(h.point_count), ",".join(str(int(x)) for x in h.number_of_points_by_return), ",".join(map(str, dbl)),
             str(h.start_of_waveform_data_packet_record), str(h.start_of_first_evlr), str(h.number_of_evlrs),
             hx(h.extra_header_bytes), hx(h.extra_vlr_bytes), str(len(h.vlrs))]
    parts += [f"{hx(u)}:{r}:{hx(dd)}:{hx(p)}" for (u, r, dd, p) in (c08.canon(v) for v in h.vlrs)]
    recs = las.points.array.tobytes()
    ev = " ".join(f"{hx(u)}:{r}:{hx(dd)}:{hx(p)}" for (u, r, dd, p) in (c08.canon(v) for v in (las.evlrs or [])))
    return "ok " + " ".join(parts) + f" # {len(las.points)} {hx(recs)} # {ev}"


def write_to(las, kind, tmpdir):
    if kind == "bytesio":
        buf = io.BytesIO()
        las.write(buf)
        return buf.getvalue()
    path = os.path.join(tmpdir, "out.las")
    if kind == "path":
        las.write(path)
    else:
        with open(path, "wb", buffering=rng_buffer(kind)) as f:
            las.write(f)
    with open(path, "rb") as f:
        return f.read()


def rng_buffer(kind):
    return 0 if kind == "rawfile" else 8192


def gen_scaling(rng):
    """finite, non-zero scales and finite offsets (NaN scalings make the writer take its rescale path
    because NaN != NaN; they are outside the property's quantifier and are not generated)"""
    if rng.random() < 0.8:
        return [rng.choice([0.01, 0.001, 0.5, 1.0, 1e-7]) for _ in range(3)], [rng.choice([0.0, 1000.0, -12.25, 1e6]) for _ in range(3)]
    return [rng.choice([1e-300, 1e300, 3.0, 5e-324, -2.0]) for _ in range(3)], [rng.choice([-0.0, 1e308, -1e-310, 7.0]) for _ in range(3)]


def run(ck):
    logging.getLogger("laspy").setLevel(logging.CRITICAL)
    import laspy
    ck.rule = ("all 24 legal (version, format) pairs x point counts {0,1,2,7,...} x 0..3 typed extra dimensions (30 element types, "
               "scaled/unscaled) x record contents (uniformly random bytes, all-zero, all-ones: every field incl. floats gets "
               "arbitrary bit patterns) x scalings (usual, exotic finite, arbitrary 64-bit patterns) x VLRs/EVLRs x destination "
               "{BytesIO, path .las, buffered file, unbuffered file}. Real LasData.write / laspy.read; compared: file bytes == "
               "model writeFile bytes, re-read image == model readFile, records byte-identical, second write byte-identical, "
               "caller snapshot unchanged. non-trivial = at least one point or VLR; distinct by (pair, extras, bytes, scaling)")
    ck.regen()
    ck.lean_props("C01", THEOREMS)
    tmpdir = tempfile.mkdtemp(prefix="verif_c01_")
    lines, meta = [], []
    KEPT, KEPT_BYTES = [], []
    try:
        per_pair = 3 if ck.tier == "quick" else 60
        for (minor, fmt) in fio.PAIRS:
            for k in range(per_pair):
                n = [0, 1, 7][k] if k < 3 else ck.rng.choice([0, 1, 2, 3, 7, 20, 64])
                style = ck.rng.choice(["random", "random", "random", "zeros", "ones"])
                params = fio.rand_extra_params(ck.rng) if k != 0 else []
                if k == 1:
                    # a scaled extra dimension whose scaling is the identity is still a scaled dimension
                    from laspy import ExtraBytesParams
                    kk_ = ck.rng.choice([1, 2, 3])
                    t_ = ck.rng.choice(["u1", "i2", "u4", "i8", "f4"])
                    params = [ExtraBytesParams(name="ident", type=t_ if kk_ == 1 else f"{kk_}{t_}", scales=np.ones(kk_), offsets=np.zeros(kk_))] + params
                scales, offsets = gen_scaling(ck.rng)
                vlrs = fio.rand_vlrs(ck.rng, False)
                evlrs = fio.rand_vlrs(ck.rng, True) if (minor >= 4 and ck.rng.random() < 0.6) else None
                kind = ck.rng.choice(["bytesio", "bytesio", "path", "file", "rawfile"])
                if k == 2 and minor >= 4:
                    # whatever the seed: every 1.4 pair once through a path with EVLRs after the points (the memory map must stop at the last point)
                    kind = "path"
                    evlrs = evlrs or [("verif", 7, "after the points", bytes(range(90)))]
                try:
                    import datetime as _dt
                    las = fio.make_las(ck.rng, minor, fmt, n, params, vlrs=vlrs, evlrs=evlrs, scales=scales, offsets=offsets, style=style,
                                       date=[_dt.date(2024, 12, 31), _dt.date(2023, 12, 31), _dt.date(2020, 12, 31), None][(k + fmt) % 4])
                    if k == 2 or (k > 2 and ck.rng.random() < 0.3):
                        # header texts that end in blanks, texts of the full width: what is read back is what was written
                        las.header.system_identifier = ["SENSOR A  ", " x ", "a" * 31 + " ", "\t tabbed\t"][fmt % 4]
                        las.header.generating_software = ["laspy-verif   ", "  ", "b" * 32][minor % 3]
                        ck.count("header_texts_ending_in_blanks")
                except Exception as e:
                    ck.count("gen_failed:" + type(e).__name__)
                    continue
                raw = las.points.array.tobytes()
                inp = {"kind": "roundtrip", "minor": minor, "fmt": fmt, "n": n, "style": style, "dest": kind,
                       "extra": [(p.name, str(p.type)) for p in params], "scales": [fio.dbits(x) for x in scales],
                       "offsets": [fio.dbits(x) for x in offsets], "raw": raw.hex()[:400], "vlrs": len(vlrs), "evlrs": None if evlrs is None else len(evlrs)}
                ck.case(("c01", minor, fmt, n, style, tuple(inp["extra"]), tuple(inp["scales"]), raw[:64]), nontrivial=(n > 0 or bool(vlrs)))
                ck.count("dest:" + kind)
                ck.count("n=%d" % n if n < 8 else "n>=8")
                ck.count("extra_dims=%d" % len(params))
                if params and ck.rng.random() < 0.4:
                    # the VLR list re-assigned as a whole (from another list object): the description of the extra
                    # dimensions must still reach the file
                    ck.count("vlrs_reassigned_with_extra_dims")
                    inp["vlrs_reassigned"] = True
                    from laspy.vlrs.vlrlist import VLRList
                    if ck.rng.random() < 0.5:
                        las.vlrs = VLRList(v for v in las.vlrs if type(v).__name__ != "ExtraBytesVlr")
                    else:
                        las.header.vlrs = list(las.vlrs)
                before = fio.snapshot(las)
                try:
                    data = write_to(las, kind, tmpdir)
                except Exception as e:
                    ck.fail(f"writing raised {type(e).__name__}: {e}", inp)
                    continue
                if fio.snapshot(las) != before:
                    ck.fail("writing modified the in-memory object it was given", dict(inp, finding_key="C01:pure"))
                try:
                    back = laspy.read(io.BytesIO(data)) if kind == "bytesio" else laspy.read(_spill(tmpdir, data))
                except Exception as e:
                    ck.fail(f"reading the written file raised {type(e).__name__}: {e}", inp)
                    continue
                # ---- objects read earlier are still alive: reading (and writing) another file must not have touched them
                if KEPT:
                    obj_, snap_, inp_ = KEPT[-1]
                    if fio.snapshot(obj_) != snap_:
                        now_ = fio.snapshot(obj_)
                        which = [i for i, (a_, b_) in enumerate(zip(now_, snap_)) if a_ != b_]
                        ck.fail(f"an object read back earlier (version 1.{inp_['minor']}, format {inp_['fmt']}, {inp_['n']} points) changed while another file was written and read: "
                                f"snapshot components {which} differ (7 = header scales, 8 = header offsets, 1/2 = record scales/offsets)", dict(inp, earlier=inp_))
                    try:
                        again_ = write_to(obj_, "bytesio", tmpdir)
                        if again_ != KEPT_BYTES[-1]:
                            ck.fail("an object read back earlier no longer writes the file it was read from, after another file was written and read", dict(inp, earlier=inp_))
                    except Exception as e:
                        ck.fail(f"writing an object read back earlier raised {type(e).__name__}: {e}", dict(inp, earlier=inp_))
                    KEPT.clear()
                    KEPT_BYTES.clear()
                if kind == "bytesio":
                    try:
                        KEPT_BYTES.append(write_to(back, "bytesio", tmpdir))
                        KEPT.append((back, fio.snapshot(back), inp))
                    except Exception:
                        KEPT.clear()
                        KEPT_BYTES.clear()
                # ---- direct oracle
                if back.points.array.tobytes() != raw:
                    ck.fail("point records are not byte-identical after write + read", inp)
                h, hb = las.header, back.header
                if (hb.point_format.id, hb.point_format.size, hb.version.minor, len(back.points), hb.point_count) != (fmt, h.point_format.size, minor, n, n):
                    ck.fail(f"format/size/version/count changed: {(hb.point_format.id, hb.point_format.size, hb.version.minor, len(back.points), hb.point_count)}", inp)
                if [fio.dbits(x) for x in hb.scales] != inp["scales"] or [fio.dbits(x) for x in hb.offsets] != inp["offsets"]:
                    ck.fail("scales/offsets changed (bit patterns)", inp)
                if [str(d.dtype) for d in back.point_format.extra_dimensions] != [str(d.dtype) for d in las.point_format.extra_dimensions] or \
                        list(back.point_format.extra_dimension_names) != list(las.point_format.extra_dimension_names):
                    ck.fail("extra dimensions changed", inp)
                elif back.point_format != las.point_format:
                    def desc(pf):
                        return [(d.name, str(d.dtype), None if d.scales is None else np.asarray(d.scales).tolist(),
                                 None if d.offsets is None else np.asarray(d.offsets).tolist()) for d in pf.extra_dimensions]
                    ck.fail(f"the point format read back is not the one written: extra dimensions {desc(back.point_format)} were {desc(las.point_format)}", inp)
                # read back in pieces that are all kept until the end (equal-sized pieces, a short last one)
                if n >= 2:
                    kk = ck.rng.choice([1, 2, 3, max(1, n // 3)])
                    try:
                        src = io.BytesIO(data) if kind == "bytesio" else _spill(tmpdir, data)
                        with laspy.open(src) as rd:
                            pieces = [c for c in rd.chunk_iterator(kk)]
                        joined = b"".join(c.array.tobytes() for c in pieces)
                        if joined != raw:
                            ck.fail(f"point records read back in pieces of {kk} (all kept, then joined) are not byte-identical to what was written", dict(inp, pieces=kk))
                    except Exception as e:
                        ck.fail(f"reading the written file in pieces raised {type(e).__name__}: {e}", inp)
                # the written file mapped into memory presents the same records
                if kind == "path":
                    try:
                        mm = laspy.mmap(os.path.join(tmpdir, "out.las"))
                        try:
                            if mm.points.array.tobytes() != raw or len(mm.points) != n:
                                ck.fail(f"the written file mapped with laspy.mmap presents {len(mm.points)} records that are not the {n} written", inp)
                        finally:
                            mm.close()
                        ck.count("read_back_through_mmap")
                    except Exception as e:
                        ck.fail(f"laspy.mmap on the written file raised {type(e).__name__}: {e}", inp)
                buf2 = io.BytesIO()
                back.write(buf2)
                if buf2.getvalue() != data:
                    k0 = next((i for i in range(min(len(data), len(buf2.getvalue()))) if data[i] != buf2.getvalue()[i]), -1)
                    ck.fail(f"write after read is not idempotent (first difference at byte {k0}, sizes {len(data)}/{len(buf2.getvalue())})", inp)
                # ---- model
                f = fio.header_fields(las.header)
                ops = [fio.op_points(fmt, h.point_format.size, raw)]
                if minor >= 4 and las.evlrs is not None:
                    ops.append(fio.op_evlrs([(u.decode(), r, d.decode("latin-1"), p) for (u, r, d, p) in (c08.canon(v) for v in las.evlrs)]))
                lines.append(fio.session_line(f, ops))
                meta.append(("write", inp, "ok " + hx(data)))
                lines.append("file read " + hx(data))
                meta.append(("read", inp, canon_read(back)))
                if len(ck.samples) < 3:
                    ck.sample({k_: v for k_, v in inp.items() if k_ != "raw"})
        # ---- sizes beyond every internal block size (1 MiB, 64 Ki elements, 8 KiB): records byte-identical, count right
        for (minor, fmt, n) in ([(2, 0, 52500), (4, 6, 35100)] if ck.tier == "quick" else [(2, 0, 52500), (4, 6, 35100), (3, 3, 70000), (4, 10, 20000)]):
            las = fio.make_las(ck.rng, minor, fmt, n, style="random")
            raw = las.points.array.tobytes()
            inp = {"kind": "large", "minor": minor, "fmt": fmt, "n": n, "bytes": len(raw)}
            ck.case(("c01big", minor, fmt, n), nontrivial=True)
            ck.count("large_case")
            for kind in ("bytesio", "path"):
                try:
                    data = write_to(las, kind, tmpdir)
                    back = laspy.read(io.BytesIO(data))
                except Exception as e:
                    ck.fail(f"large file ({len(raw)} bytes of records, {kind}): {type(e).__name__}: {e}", inp)
                    continue
                if len(back.points) != n or back.points.array.tobytes() != raw:
                    got = back.points.array.tobytes()
                    k0 = next((i for i in range(0, min(len(got), len(raw)), 4096) if got[i:i + 4096] != raw[i:i + 4096]), min(len(got), len(raw)))
                    ck.fail(f"large file ({len(raw)} bytes of records, {kind}): read back {len(back.points)} records, first difference near byte {k0}", inp)
        # ---- the caller's object is untouched also when the writer has to rescale: the header's scaling was
        # re-bound after the records were built (finer, coarser, shifted, nearly equal), so the writer rescales a
        # temporary and must leave the caller's integers exactly as they were
        for k in range(40 if ck.tier == "quick" else 600):
            minor, fmt = ck.rng.choice(fio.PAIRS)
            n = ck.rng.choice([1, 2, 5, 9])
            rs = [ck.rng.choice([0.001, 0.01, 0.5, 0.125]) for _ in range(3)]
            ro = [ck.rng.choice([0.0, 100.0, -12.25, 500000.0]) for _ in range(3)]
            las = fio.make_las(ck.rng, minor, fmt, n, scales=rs, offsets=ro)
            for d in "XYZ":
                las.points.array[d] = np.array([ck.rng.choice([1, 2, 3, 12345, -7, 999999, ck.rng.randrange(-10**6, 10**6)]) for _ in range(n)], dtype="i4")
            how = ck.rng.choice(["coarser", "finer", "shifted", "nearly_equal_offset", "nearly_equal_scale", "overflow_on_later_axis"])
            hs, ho = list(rs), list(ro)
            if how == "coarser":
                hs = [x * ck.rng.choice([10.0, 4.0, 3.0]) for x in rs]
            elif how == "finer":
                hs = [x / ck.rng.choice([10.0, 4.0]) for x in rs]
            elif how == "shifted":
                ho = [x + ck.rng.choice([1.0, -0.3, 17.5]) for x in ro]
            elif how == "overflow_on_later_axis":
                # x (and maybe y) can be re-expressed, a later axis cannot: the write is refused as a whole
                ax_bad = ck.rng.choice([1, 2])
                hs = [x / 4.0 for x in rs]
                hs[ax_bad] = rs[ax_bad] / 1e6
                las.points.array["XYZ"[ax_bad]] = np.array([ck.rng.choice([999999, -888888]) for _ in range(n)], dtype="i4")
            elif how == "nearly_equal_offset":
                ho = [x + (3.0 if abs(x) > 1e5 else 2.0 ** -30) for x in ro]
            else:
                hs = [x * (1 + 2.0 ** -18) for x in rs]
            las.header.scales = np.array(hs)
            las.header.offsets = np.array(ho)
            inp = {"kind": "rescaling_write", "minor": minor, "fmt": fmt, "n": n, "how": how, "record_scales": rs, "record_offsets": ro,
                   "header_scales": hs, "header_offsets": ho, "X": las.points.array["X"].tolist()}
            ck.case(("c01r", minor, fmt, how, tuple(rs), tuple(ro), las.points.array.tobytes()), nontrivial=True)
            ck.count("rescaling_write:" + how)
            before = fio.snapshot(las)
            want = [np.array(las.x), np.array(las.y), np.array(las.z)]
            buf = io.BytesIO()
            try:
                las.write(buf)
            except OverflowError:
                ck.count("rescaling_write_overflow")
                if fio.snapshot(las) != before:
                    ck.fail("a refused write (OverflowError) modified the in-memory object it was given", dict(inp, finding_key="C01:pure"))
                continue
            if fio.snapshot(las) != before:
                ck.fail(f"writing (header scaling {how} than/from the record's) modified the in-memory object it was given", dict(inp, finding_key="C01:pure"))
            back = laspy.read(io.BytesIO(buf.getvalue()))
            got = [np.array(back.x), np.array(back.y), np.array(back.z)]
            for ax in range(3):
                tol = hs[ax] / 2 * (1 + 1e-9) + abs(ho[ax]) * 1e-15 + abs(ro[ax]) * 1e-15
                if np.any(np.abs(got[ax] - want[ax]) > tol):
                    ck.fail(f"written file (header scaling {how}) does not hold the caller's coordinates to within half a step on axis {ax}: "
                            f"{want[ax][:3].tolist()} -> {got[ax][:3].tolist()}", inp)
                    break
    finally:
        shutil.rmtree(tmpdir, ignore_errors=True)
    # ---- a compressed write (laspy's glue on the backend double) does not modify the object either
    try:
        from laspy import LazBackend
        for ci in range(6 if ck.tier == "quick" else 60):
            minor, fmt = fio.PAIRS[(4 * ci + 1) % len(fio.PAIRS)]
            las = fio.make_las(ck.rng, minor, fmt, [0, 3, 9][ci % 3], fio.rand_extra_params(ck.rng) if ci % 2 else [], vlrs=fio.rand_vlrs(ck.rng, False),
                               evlrs=fio.rand_vlrs(ck.rng, True) if minor >= 4 else None)
            inp = {"kind": "compressed_write_pure", "minor": minor, "fmt": fmt, "n": len(las.points)}
            ck.case(("c01z", minor, fmt, las.points.array.tobytes()), nontrivial=True)
            ck.count("compressed_write_purity")
            before = fio.snapshot(las)
            nv = len(las.vlrs)
            for how in ("LasData.write", "LasData.write again", "open+write_points"):
                bz = io.BytesIO()
                if how == "open+write_points":
                    with laspy.open(bz, mode="w", header=las.header, do_compress=True, laz_backend=LazBackend.Lazrs, closefd=False) as w:
                        w.write_points(las.points)
                else:
                    las.write(bz, do_compress=True, laz_backend=LazBackend.Lazrs)
                if fio.snapshot(las) != before or len(las.vlrs) != nv:
                    ck.fail(f"a compressed write ({how}) modified the in-memory object it was given (VLRs now {[type(v).__name__ for v in las.vlrs]})", dict(inp, how=how))
                    break
    except ImportError:
        ck.count("compressed_write_purity_skipped_no_backend")
    out = ck.driver(lines)
    bad = None
    if out is None or len(out) != len(lines):
        bad = "driver did not run"
    else:
        for (what, inp, exp), o in zip(meta, out):
            if o != exp and bad is None:
                k = next((i for i in range(min(len(o), len(exp))) if o[i] != exp[i]), min(len(o), len(exp)))
                bad = f"{what} {({k_: v for k_, v in inp.items() if k_ != 'raw'})}: at char {k}: model ...{o[max(0,k-30):k+30]} impl ...{exp[max(0,k-30):k+30]}"
    ck.oblige("correspondence fileio/roundtrip: model writeFile/readFile == LasData.write / laspy.read (file bytes and re-read image)",
              "correspondence", bad is None, bad or "")
    ck.failures.sort(key=lambda f: (f["input"].get("n", 0), len(str(f["input"]))))
    if ck.tier == "thorough":
        ck.leanchecker(["LasModel.Props.C01"])


def _spill(tmpdir, data):
    p = os.path.join(tmpdir, "in.las")
    with open(p, "wb") as f:
        f.write(data)
    return p
