"""C02 — the on-disk layout is the ASPRS layout (an independent decoder/encoder agrees)."""
import io
import logging
import struct

import numpy as np

from . import c07, c08

THEOREMS = ["C02_layout", "C02_sizes", "C02_formats", "C02_contiguous", "C02_dims", "C02_bits", "C02_versions",
            "C02_header_sizes", "C02_header_layout", "C02_vlr_header", "C02_global_encoding", "C02_extra_bytes",
            "C02_point", "C02_point_conv", "C02_signed", "C02_packed", "C02_packed_surjective"]
hx = c08.hx

# ---- a second, tiny specification table in Python (for the failing-input search): typed from ASPRS LAS 1.4 R15
CORE0 = [("X", "i4"), ("Y", "i4"), ("Z", "i4"), ("intensity", "u2"), ("bit_fields", "u1"), ("raw_classification", "u1"),
         ("scan_angle_rank", "i1"), ("user_data", "u1"), ("point_source_id", "u2")]
CORE6 = [("X", "i4"), ("Y", "i4"), ("Z", "i4"), ("intensity", "u2"), ("bit_fields", "u1"), ("classification_flags", "u1"),
         ("classification", "u1"), ("user_data", "u1"), ("scan_angle", "i2"), ("point_source_id", "u2"), ("gps_time", "f8")]
GPS = [("gps_time", "f8")]
RGB = [("red", "u2"), ("green", "u2"), ("blue", "u2")]
NIR = [("nir", "u2")]
WAVE = [("wavepacket_index", "u1"), ("wavepacket_offset", "u8"), ("wavepacket_size", "u4"), ("return_point_wave_location", "f4"),
        ("x_t", "f4"), ("y_t", "f4"), ("z_t", "f4")]
SPEC_FIELDS = {0: CORE0, 1: CORE0 + GPS, 2: CORE0 + RGB, 3: CORE0 + GPS + RGB, 4: CORE0 + GPS + WAVE, 5: CORE0 + GPS + RGB + WAVE,
               6: CORE6, 7: CORE6 + RGB, 8: CORE6 + RGB + NIR, 9: CORE6 + WAVE, 10: CORE6 + RGB + NIR + WAVE}
SPEC_LEN = {0: 20, 1: 28, 2: 26, 3: 34, 4: 57, 5: 63, 6: 30, 7: 36, 8: 38, 9: 59, 10: 67}
BITS05 = {"bit_fields": [("return_number", 0, 3), ("number_of_returns", 3, 3), ("scan_direction_flag", 6, 1), ("edge_of_flight_line", 7, 1)],
          "raw_classification": [("classification", 0, 5), ("synthetic", 5, 1), ("key_point", 6, 1), ("withheld", 7, 1)]}
BITS610 = {"bit_fields": [("return_number", 0, 4), ("number_of_returns", 4, 4)],
           "classification_flags": [("synthetic", 0, 1), ("key_point", 1, 1), ("withheld", 2, 1), ("overlap", 3, 1),
                                    ("scanner_channel", 4, 2), ("scan_direction_flag", 6, 1), ("edge_of_flight_line", 7, 1)]}
EXTRA_BASE = ["u1", "i1", "u2", "i2", "u4", "i4", "u8", "i8", "f4", "f8"]


def spec_bits(fmt):
    return BITS05 if fmt <= 5 else BITS610


def extra_type(type_id):
    """(numpy base type, element count) of EXTRA_BYTES data type 1..30"""
    return EXTRA_BASE[(type_id - 1) % 10], (type_id - 1) // 10 + 1


def pattern(rng, t):
    """a raw unsigned bit pattern for a field of numpy type t, boundary heavy"""
    w = int(t[1:])
    full = (1 << (8 * w)) - 1
    return rng.choice([0, 1, full, full >> 1, (full >> 1) + 1, rng.getrandbits(8 * w), rng.getrandbits(8 * w)])


def to_array(patterns, t):
    w = int(t[1:])
    raw = b"".join(int(p).to_bytes(w, "little") for p in patterns)
    return np.frombuffer(raw, dtype="<" + t)


def gen_case(rng):
    minor = rng.choice([1, 2, 3, 4])
    fmt = rng.choice(c07.SPEC_COMPAT[minor])
    n = rng.choice([1, 2, 3, 5])
    extras = []
    for i in range(rng.choice([0, 0, 1, 2, 3])):
        tid = rng.randrange(1, 31)
        extras.append((f"ex{i}", tid))
    fields = {}
    for name, t in SPEC_FIELDS[fmt]:
        if name in spec_bits(fmt):
            continue
        fields[name] = (t, [pattern(rng, t) for _ in range(n)])
    subs = {}
    for byte, lst in spec_bits(fmt).items():
        for sname, lsb, nb in lst:
            subs[sname] = [rng.choice([0, (1 << nb) - 1, rng.randrange(1 << nb)]) for _ in range(n)]
    ex, ex_scaling = {}, {}
    for name, tid in extras:
        base, k = extra_type(tid)
        if base[0] in "iu" and rng.random() < 0.4:
            # a scaled extra dimension (direction 1 only): dyadic scales and offsets, small stored integers, so that value = raw*scale+offset is exact
            w = int(base[1:])
            lo, hi = (0, min(255, 1000)) if base == "u1" else (-100, 100) if base == "i1" else (0, 1000) if base[0] == "u" else (-1000, 1000)
            # (one scaling for all the elements of a dimension: laspy checks the largest value of the whole assignment against every element's
            # own window, so elements with very different scalings refuse values that fit - loud, and not what this property is about)
            s_, o_ = rng.choice([0.5, 0.25, 2.0, 1.0]), rng.choice([0.0, 16.0, -8.5, 1024.0])
            ex_scaling[name] = ([s_] * k, [o_] * k)
            ex[name] = (tid, base, k, [[rng.randrange(lo, hi + 1) % (1 << (8 * w)) for _ in range(k)] for _ in range(n)])
        else:
            ex[name] = (tid, base, k, [[pattern(rng, base) for _ in range(k)] for _ in range(n)])
    alpha = "ABCDEFGHIJKLMNOPQRSTUVWXYZabcdefghijklmnopqrstuvwxyz0123456789 _-./"

    def text(maxlen):
        ln = rng.choice([0, 1, maxlen - 1, maxlen, maxlen, rng.randrange(0, maxlen + 1)])
        return "".join(rng.choice(alpha) for _ in range(ln)).rstrip(" ") if ln else ""
    hdr = dict(sysid=text(32), soft=text(32), source_id=rng.choice([0, 1, 65535, rng.randrange(65536)]),
               guid=bytes(rng.getrandbits(8) for _ in range(16)),
               scales=[rng.choice([0.01, 0.001, 0.5, 1.0, 1e-7, 2.5]) for _ in range(3)],
               offsets=[rng.choice([0.0, 1000.0, -12.25, 1e6, -0.5]) for _ in range(3)],
               date=(rng.choice([1990, 2000, 2024, 2023]), rng.choice([1, 59, 60, 365])))
    return dict(minor=minor, fmt=fmt, n=n, fields=fields, subs=subs, extras=ex, extra_scaling=ex_scaling, hdr=hdr)


def expected_record_patterns(case, i):
    """unsigned patterns of point i in specification order (packed bytes from the spec bit positions)"""
    fmt = case["fmt"]
    out = []
    for name, t in SPEC_FIELDS[fmt]:
        if name in spec_bits(fmt):
            b = 0
            for sname, lsb, nb in spec_bits(fmt)[name]:
                b |= case["subs"][sname][i] << lsb
            out.append(b)
        else:
            out.append(case["fields"][name][1][i])
    for name, (tid, base, k, vals) in case["extras"].items():
        out.extend(vals[i])
    return out


def extra_widths(case):
    w = []
    for name, (tid, base, k, vals) in case["extras"].items():
        w.extend([int(base[1:])] * k)
    return w


def direction1(ck, case):
    """laspy assigns through named dimensions and writes; the specification decoder reads"""
    import laspy
    from laspy import ExtraBytesParams
    las = laspy.create(point_format=case["fmt"], file_version=f"1.{case['minor']}")
    if case["extras"] and not case.get("extra_scaling"):
        las.add_extra_dims([ExtraBytesParams(name=nm, type=(base if k == 1 else f"{k}{base}"))
                            for nm, (tid, base, k, vals) in case["extras"].items()])
    elif case["extras"]:
        # declared one after the other; the caller keeps ONE scales and ONE offsets array per element count and overwrites them in place for
        # the next dimension (and once more at the end): every dimension must keep the scaling it was declared with
        shared = {}
        for nm, (tid, base, k, vals) in case["extras"].items():
            t = base if k == 1 else f"{k}{base}"
            if nm in case["extra_scaling"]:
                S, O = shared.setdefault(k, (np.zeros(k), np.zeros(k)))
                S[:] = case["extra_scaling"][nm][0]
                O[:] = case["extra_scaling"][nm][1]
                las.add_extra_dim(ExtraBytesParams(name=nm, type=t, scales=S, offsets=O))
            else:
                las.add_extra_dim(ExtraBytesParams(name=nm, type=t))
        for S, O in shared.values():
            S *= 10.0
            O += 1.0
        ck.count("scaled_extras_declared_with_reused_arrays")
    import datetime
    import uuid
    hd = case["hdr"]
    h = las.header
    h.system_identifier = hd["sysid"]
    h.generating_software = hd["soft"]
    h.file_source_id = hd["source_id"]
    h.uuid = uuid.UUID(bytes_le=hd["guid"])
    h.scales = np.array(hd["scales"])
    h.offsets = np.array(hd["offsets"])
    h.creation_date = datetime.date(hd["date"][0], 1, 1) + datetime.timedelta(days=hd["date"][1] - 1)
    if case["minor"] == 3:
        # LAS 1.3: the start of the waveform data packet record is a header field like the others (external waveform files leave it 0, internal ones do not)
        hd["wave"] = [0, 123456789, 2**40 + 7][(case["fmt"] + case["n"]) % 3]
        h.start_of_waveform_data_packet_record = hd["wave"]
    n = case["n"]
    las.points = laspy.ScaleAwarePointRecord.zeros(n, header=las.header)
    for name, (t, pats) in case["fields"].items():
        las[name] = to_array(pats, t)
    how = ck.rng.choice(["whole", "whole", "mask+list", "list+int"]) if n >= 2 else "whole"
    ck.count("subfields_assigned:" + how)
    for sname, vals in case["subs"].items():
        v = np.array(vals, dtype="u1")
        if how == "whole":
            las[sname] = v
        elif how == "mask+list":
            m = np.zeros(n, dtype=bool)
            m[::2] = True
            las[sname][m] = v[m]
            rest = [i for i in range(n) if not m[i]]
            las[sname][rest] = v[rest]
        else:
            idx = np.arange(n - 1)
            las[sname][idx] = v[idx]
            las[sname][n - 1] = int(v[n - 1])
    for name, (tid, base, k, vals) in case["extras"].items():
        arr = to_array([p for row in vals for p in row], base)
        arr = arr if k == 1 else arr.reshape(n, k)
        if name in case.get("extra_scaling", {}):
            sc, of = case["extra_scaling"][name]
            las[name] = arr.astype(np.float64) * (sc[0] if k == 1 else np.array(sc)) + (of[0] if k == 1 else np.array(of))
        else:
            las[name] = arr
    if case["minor"] >= 4 and ck.rng.random() < 0.6:
        from laspy.vlrs.vlrlist import VLRList
        case["evlrs_written"] = [("SpecEnc", 7, "an evlr", bytes(range(40))), ("SpecEnc", 8, "", b"")][:ck.rng.choice([1, 2])]
        las.evlrs = VLRList(laspy.VLR(*v) for v in case["evlrs_written"])
    if case["extras"] and ck.rng.random() < 0.4:
        # the VLR list re-assigned as a whole: the EXTRA_BYTES record must still reach the file
        ck.count("vlrs_reassigned_with_extras")
        las.vlrs = list(las.vlrs)
    buf = io.BytesIO()
    las.write(buf)
    return buf.getvalue()


def spec_header_fields(data):
    """the public header block read at the ASPRS byte offsets (independent of laspy)"""
    import struct as _st
    return dict(signature=data[0:4], source_id=int.from_bytes(data[4:6], "little"), guid=bytes(data[8:24]),
                major=data[24], sysid=bytes(data[26:58]), soft=bytes(data[58:90]),
                doy=int.from_bytes(data[90:92], "little"), year=int.from_bytes(data[92:94], "little"),
                scales=list(_st.unpack("<3d", data[131:155])), offsets=list(_st.unpack("<3d", data[155:179])),
                wave=(int.from_bytes(data[227:235], "little") if data[25] >= 3 and len(data) >= 235 else None))


def check_header_layout(ck, case, data, inp):
    hd = case["hdr"]
    f = spec_header_fields(data)
    want = dict(signature=b"LASF", source_id=hd["source_id"], guid=hd["guid"], major=1,
                sysid=hd["sysid"].encode().ljust(32, b"\0"), soft=hd["soft"].encode().ljust(32, b"\0"),
                doy=hd["date"][1], year=hd["date"][0], scales=hd["scales"], offsets=hd["offsets"])
    if case["minor"] == 3 and "wave" in hd:
        want["wave"] = hd["wave"]
    for k, v in want.items():
        if f[k] != v:
            ck.fail(f"public header block: {k} at its ASPRS offset reads {f[k]!r:.80}, assigned {v!r:.80}", dict(inp, header_field=k))


def py_spec_decode(case, data):
    """plain struct decoder over the spec offsets (oracle for the search phase)"""
    minor = data[25]
    off = int.from_bytes(data[96:100], "little")
    fmt = data[104] & 0x3F
    reclen = int.from_bytes(data[105:107], "little")
    count = int.from_bytes(data[247:255], "little") if minor >= 4 else int.from_bytes(data[107:111], "little")
    hsize = int.from_bytes(data[94:96], "little")
    nvlr = int.from_bytes(data[100:104], "little")
    pos = hsize
    eb, eb_scaling = [], []
    for _ in range(nvlr):
        uid = data[pos + 2:pos + 18].split(b"\0")[0]
        rid = int.from_bytes(data[pos + 18:pos + 20], "little")
        ln = int.from_bytes(data[pos + 20:pos + 22], "little")
        payload = data[pos + 54:pos + 54 + ln]
        if uid == b"LASF_Spec" and rid == 4:
            for k in range(len(payload) // 192):
                d = payload[192 * k:192 * (k + 1)]
                eb.append((d[2], d[3], d[4:36].split(b"\0")[0].decode()))
                eb_scaling.append((d[3], [struct.unpack("<d", d[112 + 8 * j:120 + 8 * j])[0] for j in range(3)], [struct.unpack("<d", d[136 + 8 * j:144 + 8 * j])[0] for j in range(3)]))
        pos += 54 + ln
    recs = []
    for i in range(count):
        p = off + i * reclen
        row = []
        for name, t in SPEC_FIELDS[fmt]:
            w = int(t[1:])
            row.append(int.from_bytes(data[p:p + w], "little"))
            p += w
        for tid, opt, name in eb:
            base, k = extra_type(tid)
            for _ in range(k):
                w = int(base[1:])
                row.append(int.from_bytes(data[p:p + w], "little"))
                p += w
        recs.append(row)
    return dict(minor=minor, fmt=fmt, reclen=reclen, count=count, offset=off, recs=recs, eb=eb, eb_scaling=eb_scaling,
                filelen_ok=(off + count * reclen == len(data)))


def spec_vlr(uid, rid, desc, payload, ext=False):
    """one (E)VLR as the specification lays it out"""
    return (b"\0\0" + uid.encode().ljust(16, b"\0") + rid.to_bytes(2, "little") + len(payload).to_bytes(8 if ext else 2, "little") +
            desc.encode().ljust(32, b"\0") + payload)


def gen_spec_vlrs(rng, ext):
    """records a producer other than laspy would write: unknown types and known types, each with its own description"""
    out = []
    for _ in range(rng.choice([0, 1, 2, 3])):
        kind = rng.choice(["unknown", "geodouble", "wkt", "classlookup", "unknown"])
        desc = rng.choice(["", "by spec encoder", "Producer X v1.2 / run 7", "D" * 32, "a"])
        if kind == "unknown":
            out.append(("SpecEnc", rng.randrange(1, 60000), desc, bytes(rng.getrandbits(8) for _ in range(rng.choice([0, 1, 7, 40])))))
        elif kind == "geodouble":
            out.append(("LASF_Projection", 34736, desc, struct.pack("<%dd" % 3, 1.5, -2.25, 1e10)))
        elif kind == "wkt":
            out.append(("LASF_Projection", 2112, desc, b'GEOGCS["x"]\0'))
        else:
            out.append(("LASF_Spec", 0, desc, bytes([2]) + b"ground".ljust(15, b"\0") + bytes([9]) + b"water".ljust(15, b"\0")))
    return out


def direction2_file(case, rng=None):
    """a file produced from the specification only: public header block with every field set, VLRs (the EXTRA_BYTES record
    and, with `rng`, other records carrying the producer's own descriptions), records, EVLRs (Python spec encoder)"""
    fmt, minor, n = case["fmt"], case["minor"], case["n"]
    recs = b""
    for i in range(n):
        pats = expected_record_patterns(case, i)
        ws = [int(t[1:]) for _, t in SPEC_FIELDS[fmt]] + extra_widths(case)
        recs += b"".join(int(p).to_bytes(w, "little") for p, w in zip(pats, ws))
    vlrs = []
    if case["extras"]:
        payload = b""
        for name, (tid, base, k, vals) in case["extras"].items():
            d = bytearray(192)
            d[2] = tid
            d[4:4 + len(name)] = name.encode()
            payload += bytes(d)
        vlrs.append(("LASF_Spec", 4, "EB of the spec encoder" if rng is not None else "Extra Bytes Record", payload))
    evlrs = []
    if rng is not None:
        more = gen_spec_vlrs(rng, False)
        rng.shuffle(more)
        vlrs = vlrs + more
        if minor >= 4:
            evlrs = gen_spec_vlrs(rng, True)
    vlr = b"".join(spec_vlr(*v) for v in vlrs)
    hsize = c07.SPEC_SIZE[minor]
    reclen = SPEC_LEN[fmt] + sum(extra_widths(case))
    hd = case["hdr"]
    h = bytearray(hsize)
    h[0:4] = b"LASF"
    h[24], h[25] = 1, minor
    h[94:96] = hsize.to_bytes(2, "little")
    h[96:100] = (hsize + len(vlr)).to_bytes(4, "little")
    h[100:104] = len(vlrs).to_bytes(4, "little")
    h[104] = fmt
    h[105:107] = reclen.to_bytes(2, "little")
    if minor < 4:
        h[107:111] = n.to_bytes(4, "little")
    if rng is None:
        h[26:58] = b"spec encoder".ljust(32, b"\0")
        h[58:90] = b"verif".ljust(32, b"\0")
        h[90:94] = struct.pack("<HH", 60, 2024)
        h[131:179] = struct.pack("<6d", 0.01, 0.01, 0.01, 0.0, 0.0, 0.0)
    else:
        h[4:6] = hd["source_id"].to_bytes(2, "little")
        h[8:24] = hd["guid"]
        h[26:58] = hd["sysid"].encode().ljust(32, b"\0")
        h[58:90] = hd["soft"].encode().ljust(32, b"\0")
        h[90:94] = struct.pack("<HH", hd["date"][1], hd["date"][0])
        h[131:179] = struct.pack("<6d", *(hd["scales"] + hd["offsets"]))
        h[179:227] = struct.pack("<6d", 7.5, -7.5, 8.25, -8.25, 9.125, -9.125)      # max x, min x, max y, min y, max z, min z
    if minor >= 4:
        h[247:255] = n.to_bytes(8, "little")
        if evlrs:
            h[235:243] = (hsize + len(vlr) + len(recs)).to_bytes(8, "little")
            h[243:247] = len(evlrs).to_bytes(4, "little")
    data = bytes(h) + vlr + recs + b"".join(spec_vlr(*v, ext=True) for v in evlrs)
    if rng is None:
        return data, recs
    return data, recs, vlrs, evlrs


def check_laspy_presents_envelope(ck, case, data, vlrs, evlrs, inp):
    """header fields, VLRs and EVLRs of a spec-encoded file as laspy presents them"""
    import laspy
    try:
        las = laspy.read(io.BytesIO(data))
    except Exception as e:
        ck.fail(f"spec-encoded file with VLRs/EVLRs: laspy could not read the file: {type(e).__name__}: {e}", inp)
        return
    hd, h = case["hdr"], las.header
    got = dict(source_id=h.file_source_id, guid=h.uuid.bytes_le, sysid=h.system_identifier, soft=h.generating_software,
               year=h.creation_date.year if h.creation_date else None, doy=h.creation_date.timetuple().tm_yday if h.creation_date else None,
               scales=list(h.scales), offsets=list(h.offsets), maxs=list(h.maxs), mins=list(h.mins), nvlr=len(h.vlrs))
    want = dict(source_id=hd["source_id"], guid=hd["guid"], sysid=hd["sysid"], soft=hd["soft"], year=hd["date"][0], doy=hd["date"][1],
                scales=hd["scales"], offsets=hd["offsets"], maxs=[7.5, 8.25, 9.125], mins=[-7.5, -8.25, -9.125], nvlr=len(vlrs))
    for k, v in want.items():
        if got[k] != v:
            ck.fail(f"spec-encoded file: header field {k} presented as {got[k]!r:.80}, the file says {v!r:.80}", dict(inp, header_field=k))
    for what, wrote, shown in (("VLR", vlrs, list(h.vlrs)), ("EVLR", evlrs, list(las.evlrs or []))):
        pres = [(u.decode(), r, d.decode("ascii", "replace"), p) for (u, r, d, p) in (c08.canon(v) for v in shown)]
        if pres != [tuple(v) for v in wrote]:
            k0 = next((i for i in range(min(len(pres), len(wrote))) if pres[i] != tuple(wrote[i])), min(len(pres), len(wrote)))
            ck.fail(f"spec-encoded file: {what} list presented differently from the file ({len(pres)} vs {len(wrote)} records; first difference "
                    f"at record {k0}: presented {pres[k0][:3] if k0 < len(pres) else None} file {tuple(wrote[k0])[:3] if k0 < len(wrote) else None})",
                    dict(inp, record=k0, which=what))


def check_laspy_presents(ck, case, data, inp, what):
    """laspy must present exactly the values of `case` for the file `data`"""
    import laspy
    try:
        las = laspy.read(io.BytesIO(data))
    except Exception as e:
        ck.fail(f"{what}: laspy could not read the file: {type(e).__name__}: {e}", inp)
        return
    n = case["n"]
    if len(las.points) != n or las.header.point_format.id != case["fmt"] or las.header.version.minor != case["minor"]:
        ck.fail(f"{what}: count/format/version differ ({len(las.points)}, {las.header.point_format.id}, {las.header.version})", inp)
        return
    for name, (t, pats) in case["fields"].items():
        got = np.ascontiguousarray(las[name]).view("u" + t[1:]).tolist()
        if got != pats:
            ck.fail(f"{what}: dimension {name} presented as {got[:3]} expected patterns {pats[:3]}", dict(inp, dim=name))
    for sname, vals in case["subs"].items():
        got = np.array(las[sname]).tolist()
        if got != vals:
            ck.fail(f"{what}: sub-field {sname} presented as {got} expected {vals}", dict(inp, dim=sname))
    for name, (tid, base, k, vals) in case["extras"].items():
        try:
            view = las[name]
            arr = np.ascontiguousarray(las.points.array[name])
        except Exception as e:
            ck.fail(f"{what}: extra dimension {name} (type {tid}) not presented: {type(e).__name__}", dict(inp, dim=name))
            continue
        got = arr.view("u" + base[1:]).reshape(n, k).tolist()
        if got != vals:
            ck.fail(f"{what}: extra dimension {name} (type {tid}) presented as {got[:2]} expected {vals[:2]}", dict(inp, dim=name))
        if what == "laspy-written file" and name in case.get("extra_scaling", {}):
            sc, of = case["extra_scaling"][name]
            want = arr.reshape(n, k).astype(np.float64) * np.array(sc) + np.array(of)
            if np.array(view).reshape(n, k).tolist() != want.tolist():
                ck.fail(f"{what}: scaled extra dimension {name} presented as {np.array(view).reshape(n, k).tolist()[:2]}, stored integers x declared scale + offset = {want.tolist()[:2]}", dict(inp, dim=name))
        elif not isinstance(view, np.ndarray) or np.ascontiguousarray(view).view("u" + base[1:]).reshape(n, k).tolist() != vals:
            ck.fail(f"{what}: extra dimension {name} (type {tid}): the named dimension does not present the stored values", dict(inp, dim=name))
    # the same file presented chunk by chunk, every chunk kept until the last one was read
    if n >= 2:
        k = max(1, n // 3)
        try:
            with laspy.open(io.BytesIO(data)) as rd:
                chunks = list(rd.chunk_iterator(k))
        except Exception as e:
            ck.fail(f"{what}: reading in chunks of {k} raised {type(e).__name__}: {e}", inp)
            return
        ck.count("presented_in_kept_chunks")
        if sum(len(c) for c in chunks) != n:
            ck.fail(f"{what}: chunks of {k} hold {sum(len(c) for c in chunks)} points, the file {n}", inp)
            return
        for name, (t, pats) in case["fields"].items():
            got = [x for c in chunks for x in np.ascontiguousarray(c[name]).view("u" + t[1:]).tolist()]
            if got != pats:
                ck.fail(f"{what}: read in chunks of {k} (all kept): dimension {name} presented as {got[:4]} expected patterns {pats[:4]}", dict(inp, dim=name))
                return
        for sname, vals in case["subs"].items():
            got = [x for c in chunks for x in np.array(c[sname]).tolist()]
            if got != vals:
                ck.fail(f"{what}: read in chunks of {k} (all kept): sub-field {sname} presented as {got} expected {vals}", dict(inp, dim=sname))
                return


def run(ck):
    logging.getLogger("laspy").setLevel(logging.CRITICAL)
    ck.rule = ("all 24 legal (version, format) pairs first, then seeded cases: 1-5 points, every standard dimension assigned a "
               "boundary-heavy raw pattern (0, 1, all ones, sign boundary, random — float fields included, so NaN payloads and "
               "infinities occur), every sub-field a value in {0, max, random}, 0-3 extra dimensions over the 30 typed element "
               "types. Direction 1: laspy writes, the Lean decoder over the *specification* tables and an independent Python "
               "struct decoder read. Direction 2: an encoder over the specification tables writes (Lean for the records, "
               "Python for the envelope), laspy reads and must present the same values. distinct by full case")
    ck.regen()
    ck.lean_props("C02", THEOREMS)
    n_cases = 80 if ck.tier == "quick" else 1500
    pairs = [(m, f) for m in (1, 2, 3, 4) for f in c07.SPEC_COMPAT[m]]
    lines, meta = [], []
    for ci in range(n_cases):
        case = gen_case(ck.rng)
        if ci < len(pairs):
            m, f = pairs[ci]
            while (case["minor"], case["fmt"]) != (m, f):
                case = gen_case(ck.rng)
        if ci % 8 == 0:
            # whatever the seed: the last day of a leap year (day 366), a leap day, the last day of an ordinary year
            case["hdr"]["date"] = [(2024, 366), (2020, 366), (2024, 60), (2023, 365), (2000, 366)][(ci // 8) % 5]
        inp = {"kind": "case", "minor": case["minor"], "fmt": case["fmt"], "n": case["n"], "date": list(case["hdr"]["date"]),
               "extras": {k: v[0] for k, v in case["extras"].items()},
               "fields": {k: v[1] for k, v in case["fields"].items()}, "subs": case["subs"]}
        ck.case(("c02", repr(inp)), nontrivial=True)
        ck.count("fmt=%d" % case["fmt"])
        ck.count("extras=%d" % len(case["extras"]))
        # ---------------- direction 1
        try:
            data = direction1(ck, case)
        except Exception as e:
            ck.fail(f"laspy could not assign/write the case: {type(e).__name__}: {e}", inp)
            continue
        dec = py_spec_decode(case, data)
        check_header_layout(ck, case, data, inp)
        exp_rows = [expected_record_patterns(case, i) for i in range(case["n"])]
        if dec["fmt"] != case["fmt"] or dec["minor"] != case["minor"] or dec["count"] != case["n"]:
            ck.fail(f"spec decoder reads format {dec['fmt']} version 1.{dec['minor']} count {dec['count']}", inp)
        if dec["reclen"] != SPEC_LEN[case["fmt"]] + sum(extra_widths(case)):
            ck.fail(f"record length {dec['reclen']} != spec {SPEC_LEN[case['fmt']]} + extra bytes {sum(extra_widths(case))}", inp)
        if [e[0] for e in dec["eb"]] != [v[0] for v in case["extras"].values()] or [e[2] for e in dec["eb"]] != list(case["extras"]):
            ck.fail(f"extra-bytes descriptors read by the spec decoder {dec['eb']} != assigned {inp['extras']}", inp)
        if len(dec["eb_scaling"]) == len(case["extras"]):
            for (nm, (tid, base, k, vals)), (opt, scs, ofs) in zip(case["extras"].items(), dec["eb_scaling"]):
                want = case.get("extra_scaling", {}).get(nm)
                if want is None:
                    if opt & 0x18:
                        ck.fail(f"extra dimension {nm}: descriptor options {opt:#04x} announce a scale/offset that was not declared", dict(inp, dim=nm))
                elif (opt & 0x18) != 0x18 or scs[:k] != want[0] or ofs[:k] != want[1]:
                    ck.fail(f"extra dimension {nm}: declared with scales {want[0]} and offsets {want[1]}; the descriptor in the file says options {opt:#04x}, "
                            f"scales {scs[:k]}, offsets {ofs[:k]}", dict(inp, dim=nm))
        if dec["recs"] != exp_rows:
            bad = next(((i, j) for i in range(len(exp_rows)) for j in range(len(exp_rows[i])) if i >= len(dec["recs"]) or j >= len(dec["recs"][i]) or dec["recs"][i][j] != exp_rows[i][j]), None)
            ck.fail(f"spec decoder recovers different values at point {bad[0]} field #{bad[1]}" if bad else "spec decoder recovers a different number of values", inp)
        if case.get("evlrs_written"):
            # the specification's reader: number of EVLRs and start of the first one from the header block; records of 60 + n bytes
            ck.count("direction1_with_evlrs")
            nev = int.from_bytes(data[243:247], "little")
            pos = int.from_bytes(data[235:243], "little")
            want_pos = dec["offset"] + dec["count"] * dec["reclen"]
            got = []
            p_ = pos
            for _ in range(min(nev, 4)):
                ln = int.from_bytes(data[p_ + 20:p_ + 28], "little")
                got.append((data[p_ + 2:p_ + 18].split(b"\0")[0].decode("latin-1"), int.from_bytes(data[p_ + 18:p_ + 20], "little"),
                            data[p_ + 28:p_ + 60].split(b"\0")[0].decode("latin-1"), data[p_ + 60:p_ + 60 + ln]))
                p_ += 60 + ln
            if nev != len(case["evlrs_written"]) or pos != want_pos or got != [tuple(v) for v in case["evlrs_written"]] or p_ != len(data):
                ck.fail(f"EVLR block: the header says {nev} record(s) at byte {pos}; the specification's reader expects {len(case['evlrs_written'])} at "
                        f"{want_pos} (offset + count x record length) and recovers {[g[:2] for g in got]}", dict(inp, evlrs=len(case["evlrs_written"])))
        elif not dec["filelen_ok"]:
            ck.fail("file length != offset + count x record length", inp)
        off, rl = dec["offset"], dec["reclen"]
        lines.append(f"spec decpoints {case['fmt']} {','.join(map(str, extra_widths(case))) or '-'} {case['n']} {hx(data[off:off + case['n'] * rl])}")
        meta.append(("dec", inp, " ".join(",".join(map(str, r)) for r in exp_rows) + " | 0"))
        # ---------------- direction 2
        data2, recs2 = direction2_file(case)
        check_laspy_presents(ck, case, data2, inp, "spec-encoded file")
        data3, recs3, vlrs3, evlrs3 = direction2_file(case, ck.rng)
        ck.count("spec_file_vlrs=%d" % len(vlrs3))
        ck.count("spec_file_evlrs=%d" % len(evlrs3))
        check_laspy_presents(ck, case, data3, inp, "spec-encoded file with VLRs/EVLRs")
        check_laspy_presents_envelope(ck, case, data3, vlrs3, evlrs3, inp)
        # a header taken from a file whose points are flagged compressed, used to write plain records: byte 104 is the format id
        try:
            import laspy
            flagged = bytearray(data3)
            flagged[104] |= 0x80
            with laspy.open(io.BytesIO(bytes(flagged)), laz_backend=()) as rdz:
                hz = rdz.header
            plain_src = laspy.read(io.BytesIO(data3))
            outz = io.BytesIO()
            if ck.rng.random() < 0.5:
                with laspy.open(outz, mode="w", header=hz, do_compress=False, closefd=False) as wz:
                    wz.write_points(plain_src.points)
            else:
                laspy.LasData(hz, plain_src.points).write(outz)
            ck.count("header_from_compressed_source")
            if outz.getvalue()[104] != case["fmt"]:
                ck.fail(f"uncompressed file written with a header that came from a compressed source: point format byte {outz.getvalue()[104]}, "
                        f"the specification's format id is {case['fmt']}", dict(inp, scenario="header from compressed source"))
        except Exception as e:
            ck.fail(f"writing plain records with a header from a compressed source raised {type(e).__name__}: {e}", inp)
        # the same content read by laspy and written again, the EVLRs dropped by the user: the specification decoder must find
        # a file without an EVLR block (file length = offset + count x record length, no EVLR announced)
        if case["minor"] >= 4 and evlrs3:
            ck.count("header_reused_without_evlrs")
            try:
                import laspy
                lasr = laspy.read(io.BytesIO(data3))
                if ck.rng.random() < 0.5:
                    lasr.evlrs.clear()
                    out3 = io.BytesIO()
                    lasr.write(out3)
                else:
                    out3 = io.BytesIO()
                    with laspy.open(io.BytesIO(data3)) as rd3:
                        with laspy.open(out3, mode="w", header=rd3.header, closefd=False) as w3:
                            for chunk in rd3.chunk_iterator(2):
                                w3.write_points(chunk)
                d3 = out3.getvalue()
                off3, rl3 = int.from_bytes(d3[96:100], "little"), int.from_bytes(d3[105:107], "little")
                cnt3 = int.from_bytes(d3[247:255], "little")
                nev3, sev3 = int.from_bytes(d3[243:247], "little"), int.from_bytes(d3[235:243], "little")
                if nev3 != 0 or off3 + cnt3 * rl3 != len(d3):
                    ck.fail(f"file written without EVLRs from a header that had some: the specification decoder reads number of EVLRs {nev3}, "
                            f"start {sev3}, file length {len(d3)} vs offset + count x record length {off3 + cnt3 * rl3}", dict(inp, scenario="header reused"))
            except Exception as e:
                ck.fail(f"rewriting the spec-encoded file without its EVLRs raised {type(e).__name__}: {e}", inp)
        check_laspy_presents(ck, case, data, inp, "laspy-written file")
        lines.append(f"spec encpoints {case['fmt']} {','.join(map(str, extra_widths(case))) or '-'} " + " ".join(",".join(map(str, r)) for r in exp_rows))
        meta.append(("enc", inp, hx(data[off:off + case["n"] * rl])))
        for byte, lst in spec_bits(case["fmt"]).items():
            vals = [case["subs"][s][0] for s, _, _ in lst]
            boff = [i for i, (nm, _) in enumerate(SPEC_FIELDS[case["fmt"]]) if nm == byte][0]
            lines.append(f"spec pack {case['fmt']} {byte} {','.join(map(str, vals))}")
            meta.append(("pack", inp, str(exp_rows[0][boff])))
        if ci < 2:
            ck.sample({"minor": case["minor"], "fmt": case["fmt"], "n": case["n"], "extras": inp["extras"], "subs": case["subs"]})
    out = ck.driver(lines)
    bad = None
    if out is None or len(out) != len(lines):
        bad = "driver did not run"
    else:
        for (what, inp, exp), o in zip(meta, out):
            if o != exp and bad is None:
                bad = f"{what} fmt {inp['fmt']} extras {inp['extras']}: spec model {o[:80]} laspy {exp[:80]}"
    ck.oblige("correspondence codec/spec: Lean decoder/encoder over the specification tables == bytes written by laspy (records, packed bytes)",
              "correspondence", bad is None, bad or "")
    ck.failures.sort(key=lambda f: len(str(f["input"])))
    if ck.tier == "thorough":
        ck.leanchecker(["LasModel.Props.C02"])
