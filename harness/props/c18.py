"""C18 — stream ownership (closefd) is honoured on every path, including failures."""
import io
import logging

import numpy as np

from .. import fileio as fio
from .. import streams as st

THEOREMS = ["C18_write_evlrs", "C18_read_las", "C18_read", "C18_position", "C18_write", "C18_lasdata_write", "C18_append"]


def make_files(ck):
    """(label, bytes, info) for valid / damaged contents"""
    out = []
    # the last two have more than 8 KiB / 64 KiB of VLRs between the header and the first point record
    for minor, fmt, n, nev, vlr_bytes in ((2, 3, 0, 0, 0), (2, 1, 4, 0, 0), (4, 6, 0, 0, 0), (4, 6, 0, 2, 0), (4, 7, 5, 0, 0), (4, 6, 3, 1, 0),
                                          (2, 1, 4, 0, 9000), (4, 6, 3, 1, 70000)):
        ev = None
        if minor >= 4 and nev:
            ev = [("verif", i + 1, "e", bytes(range(5 + i))) for i in range(nev)]
        vl = []
        left, k = vlr_bytes, 0
        while left > 0:
            take = min(left, 40000)
            vl.append(("verif_big", 100 + k, "filler", bytes((7 * i + k) % 251 for i in range(take))))
            left -= take
            k += 1
        las = fio.make_las(ck.rng, minor, fmt, n, evlrs=ev, vlrs=vl)
        buf = io.BytesIO()
        las.write(buf)
        data = buf.getvalue()
        info = dict(sig=1, hc=1, coh=1, wr=1, m4=int(minor >= 4), np=n, ne=nev, off=las.header.offset_to_point_data if False else int.from_bytes(data[96:100], "little"),
                    rl=las.header.point_format.size)
        out.append((f"valid v1.{minor} fmt{fmt} n={n} evlrs={nev}" + (f" vlr_bytes={vlr_bytes}" if vlr_bytes else ""), data, info))
    # a compressed file without points (no decompressor is needed to read it): LasZip record + compressed bit
    for nev in (0,):     # with EVLRs and a non-seekable source the read is refused: the open finding listed under C14
        ev = [("verif", 1, "e", b"12345")] if nev else None
        las = fio.make_las(ck.rng, 4, 6, 0, evlrs=ev, vlrs=[("laszip encoded", 22204, "", bytes(34))])
        buf = io.BytesIO()
        las.write(buf)
        data = bytearray(buf.getvalue())
        data[104] |= 0x80
        data = bytes(data)
        info = dict(sig=1, hc=1, coh=1, wr=1, m4=1, np=0, ne=nev, off=int.from_bytes(data[96:100], "little"), rl=las.header.point_format.size)
        out.append((f"valid compressed v1.4 fmt6 n=0 evlrs={nev}", data, info))
    # a valid header and point block followed by an EVLR whose user id cannot be decoded: loading the EVLRs fails
    dmg = bytearray(out[5][1])
    ev0 = int.from_bytes(dmg[235:243], "little")
    dmg[ev0 + 2:ev0 + 6] = b"\xff\xfe\xfd\xfc"
    out.append(("valid header, undecodable EVLR user id", bytes(dmg), dict(out[5][2], evbad=1)))
    base = out[1][1]
    binfo = out[1][2]
    out.append(("invalid signature", b"XXXX" + base[4:], dict(binfo, sig=0)))
    out.append(("truncated header", base[:100], dict(binfo, hc=0)))
    out.append(("empty", b"", dict(binfo, sig=0, hc=0)))
    bad = bytearray(base)
    bad[94:96] = (100).to_bytes(2, "little")  # header size smaller than what was parsed
    out.append(("incoherent header size", bytes(bad), dict(binfo, coh=0)))
    for ver in (9, 0):
        v = bytearray(out[5][1])
        v[25] = ver
        # the model's FileInfo describes the control flow: version not writable; minor >= 4 only if > 3
        out.append((f"unwritable version 1.{ver}", bytes(v), dict(out[5][2], wr=0, m4=int(ver >= 4), ne=out[5][2]["ne"] if ver >= 4 else 0)))
    return out


def info_tok(i):
    return f"{i['sig']} {i['hc']} {i['coh']} {i['wr']} {i['m4']} {i['np']} {i['ne']} {i['off']} {i['rl']}"


def embedded_file_layer(ck):
    """a LAS file that does not start at position 0 of the caller's stream (two files stored back to back, a file inside a container): opened with the
    stream positioned at its first byte, the reader leaves the stream at THAT file's first point record and returns THAT file's points; the stream is
    closed iff closefd"""
    import laspy
    from .. import fileio as fio
    for ci in range(8 if ck.tier == "quick" else 80):
        minor, fmt = [pr for pr in fio.PAIRS if pr[0] < 4][ci % len([pr for pr in fio.PAIRS if pr[0] < 4])]
        a = fio.make_las(ck.rng, minor, fmt, 3, vlrs=fio.rand_vlrs(ck.rng, False, 1))
        b = fio.make_las(ck.rng, minor, fmt, 2, vlrs=fio.rand_vlrs(ck.rng, False, 1))
        ba, bb = io.BytesIO(), io.BytesIO()
        a.write(ba)
        b.write(bb)
        prefix = [ba.getvalue(), bytes(ck.rng.getrandbits(8) for _ in range(1000)), b"x" * 7][ci % 3]
        closefd = bool(ci % 2)
        stream = io.BytesIO(prefix + bb.getvalue())
        stream.seek(len(prefix))
        off_b = int.from_bytes(bb.getvalue()[96:100], "little")
        inp = {"kind": "embedded_file", "minor": minor, "fmt": fmt, "starts_at": len(prefix), "offset_to_point_data": off_b, "closefd": closefd}
        ck.case(("embedded", minor, fmt, len(prefix), closefd, bb.getvalue()), nontrivial=True)
        ck.count("file_not_at_stream_start")
        try:
            rd = laspy.open(stream, closefd=closefd)
            pos = stream.tell()
            pts = rd.read_points(2)
            rd.close()
        except Exception as e:
            ck.fail(f"opening a file that starts at byte {len(prefix)} of the stream raised {type(e).__name__}: {e}", inp)
            continue
        if pos != len(prefix) + off_b:
            ck.fail(f"a file that starts at byte {len(prefix)} of the stream: after open the stream is at {pos}, its first point record is at {len(prefix) + off_b}", inp)
        if pts.array.tobytes() != b.points.array.tobytes():
            ck.fail(f"a file that starts at byte {len(prefix)} of the stream: the points read are not that file's points", inp)
        if stream.closed != closefd:
            ck.fail(f"embedded file, closefd={closefd}: stream.closed == {stream.closed}", inp)


def run(ck):
    logging.getLogger("laspy").setLevel(logging.CRITICAL)
    import laspy
    from laspy.errors import LaspyException
    ck.rule = ("the complete matrix (both tiers): modes {r, w, a, read_las, LasData.write} x closefd {True, False} x stream doubles "
               "{seekable with readinto, seekable without readinto, read-only interface} x contents {valid files with/without "
               "points and EVLRs of versions 1.2/1.4, invalid signature, truncated header, empty, incoherent header size, "
               "unwritable versions 1.9 / 1.0} x outcomes {open only, read some points, read everything, chunk iteration, "
               "exception inside the with-body, explicit close}. After each scenario: stream.closed == closefd; after a "
               "successful open for reading the stream position is the offset to point data; the model's closed flag / position "
               "are compared. distinct by scenario")
    ck.exhaustive = True
    ck.regen()
    ck.lean_props("C18", THEOREMS)
    files = make_files(ck)
    lines, meta = [], []
    kinds = [("seekable", st.LogStream, 1, 1), ("no_readinto", st.NoReadintoStream, 1, 0), ("readonly_iface", st.ReadOnlyInterface, 0, 0)]
    # ------------------------------------------------ read mode
    for label, data, info in files:
        for kname, cls, sk, ri in kinds:
            for closefd in (True, False):
                for read_evlrs in (True, False):
                    for outcome in ("open", "some", "all", "chunks", "body_exception", "explicit_close", "read_las"):
                        s = cls(data)
                        sc = {"kind": "scenario", "mode": "r", "content": label, "stream": kname, "closefd": closefd, "read_evlrs": read_evlrs, "outcome": outcome,
                              "finding_key": f"C18:r:{outcome}:{'zero_points_evlrs' if (info['np'] == 0 and info['ne'] > 0) else ''}"}
                        ck.case(("r", label, kname, closefd, read_evlrs, outcome), nontrivial=True)
                        ops = []
                        opened = False
                        pos_open = None
                        err = None
                        try:
                            if outcome == "read_las":
                                laspy.read(s, closefd=closefd)
                                opened = True
                                ops = ["a"]
                            else:
                                rd = laspy.open(s, closefd=closefd, read_evlrs=read_evlrs)
                                opened = True
                                pos_open = s.position()
                                try:
                                    if outcome == "some":
                                        rd.read_points(2); ops = ["p2"]
                                    elif outcome == "all":
                                        rd.read(); ops = ["a"]
                                    elif outcome == "chunks":
                                        for _ in rd.chunk_iterator(2):
                                            pass
                                        k = (info["np"] + 1) // 2
                                        ops = ["p2"] * (k + 1)
                                    elif outcome == "body_exception":
                                        try:
                                            with rd:
                                                rd.read_points(1); ops = ["p1"]
                                                raise RuntimeError("user code")
                                        except RuntimeError:
                                            pass
                                finally:
                                    if outcome != "body_exception":
                                        rd.close()
                        except LaspyException as e:
                            err = "laspy"
                        except Exception as e:
                            err = type(e).__name__
                        ck.count("r:" + ("opened" if opened else "open_failed") + (":" + err if err else ""))
                        if s.closed != closefd:
                            ck.fail(f"read mode, {label}, {kname}, closefd={closefd}, read_evlrs={read_evlrs}, outcome '{outcome}'"
                                    f"{' (raised ' + err + ')' if err else ''}: stream.closed == {s.closed}", sc)
                        if opened and err is not None and info["sig"] and info["hc"] and info["coh"] and info["wr"] and not info.get("evbad"):
                            ck.fail(f"read mode, {label}, {kname}, read_evlrs={read_evlrs}, outcome '{outcome}' raised {err} on a valid file", sc)
                        if pos_open is not None and pos_open != info["off"]:
                            ck.fail(f"after open the stream is at {pos_open}, not at the first point record ({info['off']})", sc)
                        if outcome != "read_las" and (info["wr"] or not opened) and not info.get("evbad"):
                            lines.append(f"st read {sk} {ri} {info_tok(info)} {int(closefd)} {int(read_evlrs)} " + " ".join(ops))
                            meta.append((sc, opened and err is None, int(s.closed), pos_open))
    # ------------------------------------------------ write mode
    for closefd in (True, False):
        for compat in (True, False):
            for outcome in ("normal", "body_exception", "explicit_close"):
                s = st.LogStream()
                h = laspy.LasHeader(point_format=3, version="1.2")
                if not compat:
                    h = laspy.LasHeader(point_format=6, version="1.4")
                    h._version = laspy.header.Version(1, 2)
                sc = {"kind": "scenario", "mode": "w", "compatible": compat, "closefd": closefd, "outcome": outcome}
                ck.case(("w", closefd, compat, outcome), nontrivial=True)
                try:
                    w = laspy.open(s, mode="w", header=h, closefd=closefd)
                    pts = laspy.ScaleAwarePointRecord.zeros(3, header=w.header)
                    if outcome == "body_exception":
                        try:
                            with w:
                                w.write_points(pts)
                                raise RuntimeError("user code")
                        except RuntimeError:
                            pass
                    else:
                        w.write_points(pts)
                        w.close()
                except LaspyException:
                    pass
                if s.closed != closefd:
                    ck.fail(f"write mode, compatible header={compat}, closefd={closefd}, outcome '{outcome}': stream.closed == {s.closed}", sc)
                lines.append(f"st write {int(closefd)} {int(compat)} {int(outcome == 'body_exception')}")
                meta.append((sc, None, int(s.closed), None))
    # a writer that also wrote EVLRs (LAS 1.4) owns the stream exactly as one that did not
    for closefd in (True, False):
        for outcome in ("normal", "body_exception", "explicit_close", "evlrs_only"):
            s = st.LogStream()
            h = laspy.LasHeader(point_format=6, version="1.4")
            sc = {"kind": "scenario", "mode": "w", "evlrs_written": True, "closefd": closefd, "outcome": outcome}
            ck.case(("w-evlrs", closefd, outcome), nontrivial=True)
            from laspy.vlrs.vlrlist import VLRList
            ev = VLRList([laspy.VLR("verif", 5, "an evlr", b"payload")])
            try:
                w = laspy.open(s, mode="w", header=h, closefd=closefd)
                pts = laspy.ScaleAwarePointRecord.zeros(3, header=w.header)
                if outcome == "body_exception":
                    try:
                        with w:
                            w.write_points(pts)
                            w.write_evlrs(ev)
                            raise RuntimeError("user code")
                    except RuntimeError:
                        pass
                elif outcome == "normal":
                    with w:
                        w.write_points(pts)
                        w.write_evlrs(ev)
                else:
                    if outcome != "evlrs_only":
                        w.write_points(pts)
                    w.write_evlrs(ev)
                    w.close()
            except LaspyException:
                pass
            if s.closed != closefd:
                ck.fail(f"write mode with EVLRs written, closefd={closefd}, outcome '{outcome}': stream.closed == {s.closed}", sc)
            lines.append(f"st writeev {int(closefd)} {int(outcome != 'evlrs_only')} {int(outcome == 'body_exception')}")
            meta.append((sc, None, int(s.closed), None))
    # reading fails after the header was accepted: the points are flagged compressed and cannot be decompressed here, or the
    # source fails inside the point block; laspy.read / the with-block own the stream as in every other case
    class FailsInPoints(st.LogStream):
        def __init__(self, data, off):
            super().__init__(data)
            self._off = off

        def _check(self):
            if self._b.tell() >= self._off:
                raise OSError(5, "Input/output error (injected)")

        def read(self, n=-1):
            self._check()
            return super().read(n)

        def readinto(self, buf):
            self._check()
            return super().readinto(buf)

    vbase = next(d for (lb, d, i) in files if i["np"] > 0 and i["sig"] and i["hc"] and i["coh"] and i["wr"] and not i["m4"])
    off_b = int.from_bytes(vbase[96:100], "little")
    flagged = bytearray(vbase)
    flagged[104] |= 0x80
    for what, mk in (("source fails inside the point block", lambda: FailsInPoints(vbase, off_b)),
                     ("points flagged compressed, nothing to decompress them with", lambda: st.LogStream(bytes(flagged)))):
        for closefd in (True, False):
            for api in ("read_las", "open_with_read", "open_with_chunks"):
                s = mk()
                sc = {"kind": "scenario", "mode": "r", "content": what, "closefd": closefd, "api": api}
                ck.case(("r-late-failure", what, closefd, api), nontrivial=True)
                err = None
                try:
                    if api == "read_las":
                        laspy.read(s, closefd=closefd, laz_backend=())
                    else:
                        with laspy.open(s, closefd=closefd, laz_backend=()) as rd:
                            if api == "open_with_read":
                                rd.read()
                            else:
                                for _ in rd.chunk_iterator(2):
                                    pass
                except Exception as e:
                    err = type(e).__name__
                ck.count("r_late_failure:" + str(err))
                if err is None:
                    ck.count("r_late_failure_did_not_fail")
                if s.closed != closefd:
                    ck.fail(f"read mode, {what}, closefd={closefd}, {api} (raised {err}): stream.closed == {s.closed}", sc)
                if api == "read_las":
                    bi = next(i for (lb, d, i) in files if d is vbase)
                    lines.append(f"st readlas 1 1 {info_tok(bi)} {int(closefd)} {'read' if what.startswith('source') else 'source'}")
                    meta.append((sc, None, int(s.closed), None))
    # compressed output (conforming backend double): the same ownership rules, also once the writer objects are gone
    try:
        import gc
        import lazrs  # noqa: F401
        for closefd in (True, False):
            for api in ("LasData.write", "open_w", "open_w_then_drop"):
                s = st.LogStream()
                las = fio.make_las(ck.rng, 4, 6, 4, evlrs=[("v", 1, "", b"x")])
                sc = {"kind": "scenario", "mode": "w", "compressed": True, "closefd": closefd, "api": api}
                ck.case(("w-compressed", closefd, api), nontrivial=True)
                ck.count("compressed_write_scenarios")
                want_closed = closefd if api != "LasData.write" else False
                if api == "LasData.write":
                    las.write(s, do_compress=True, laz_backend=laspy.LazBackend.Lazrs)
                else:
                    w = laspy.open(s, mode="w", header=las.header, do_compress=True, laz_backend=laspy.LazBackend.Lazrs, closefd=closefd)
                    with w:
                        w.write_points(las.points)
                    if api == "open_w_then_drop":
                        del w
                gc.collect()
                if s.closed != want_closed:
                    ck.fail(f"compressed output through {api}, closefd={closefd}: after the session (and garbage collection) stream.closed == {s.closed}", sc)
    except ImportError:
        ck.count("compressed_write_skipped_no_backend_double")
    # LasData.write never closes
    for minor, fmt in ((2, 3), (4, 6)):
        s = st.LogStream()
        las = fio.make_las(ck.rng, minor, fmt, 3, evlrs=[("v", 1, "", b"x")] if minor >= 4 else None)
        las.write(s)
        ck.case(("lasdata.write", minor, fmt), nontrivial=True)
        if s.closed:
            ck.fail("LasData.write closed the caller's stream", {"kind": "scenario", "mode": "LasData.write", "minor": minor})
    # ------------------------------------------------ append mode
    for label, data, info in files:
        for kname, cls, sk in (("seekable", st.LogStream, 1), ("non_seekable", st.NonSeekableWriter, 0)):
            for closefd in (True, False):
                for outcome in ("normal", "body_exception", "explicit_close"):
                    s = cls(data)
                    sc = {"kind": "scenario", "mode": "a", "content": label, "stream": kname, "closefd": closefd, "outcome": outcome,
                          "finding_key": "C18:a:" + ("unwritable" if not info["wr"] else "")}
                    ck.case(("a", label, kname, closefd, outcome), nontrivial=True)
                    err = None
                    try:
                        ap = laspy.open(s, mode="a", closefd=closefd)
                        pts = laspy.PackedPointRecord.zeros(2, ap.header.point_format)
                        if outcome == "body_exception":
                            try:
                                with ap:
                                    raise RuntimeError("user code")
                            except RuntimeError:
                                pass
                        else:
                            ap.append_points(pts)
                            ap.close()
                    except LaspyException:
                        err = "laspy"
                    except Exception as e:
                        err = type(e).__name__
                    ck.count("a:" + (err or "ok"))
                    if s.closed != closefd:
                        ck.fail(f"append mode, {label}, {kname}, closefd={closefd}, outcome '{outcome}'{' (raised ' + err + ')' if err else ''}: stream.closed == {s.closed}", sc)
                    lines.append(f"st append {sk} {info_tok(info)} {int(closefd)} {int(outcome == 'body_exception')}")
                    meta.append((sc, None, int(s.closed), None))
    embedded_file_layer(ck)
    out = ck.driver(lines)
    bad = None
    if out is None or len(out) != len(lines):
        bad = "driver did not run"
    else:
        for (sc, ok, closed, pos_open), o in zip(meta, out):
            mclosed = int(o.split("closed=")[1].split(" ")[0])
            if mclosed != closed and bad is None:
                bad = f"{sc}: model closed={mclosed} impl closed={closed}"
            if ok is not None:
                if o.startswith("ok") != ok and bad is None:
                    bad = f"{sc}: model says open {'succeeds' if o.startswith('ok') else 'fails'}, impl {'succeeded' if ok else 'failed'}"
                if ok and pos_open is not None and f"open_pos={pos_open} " not in o and bad is None:
                    bad = f"{sc}: model {o[:40]} impl open position {pos_open}"
    ck.oblige("correspondence streams/ownership: model closed flag / open outcome / open position == real open/read/write/append scenarios", "correspondence", bad is None, bad or "")
    ck.sample({"scenarios": len(lines), "example": meta[5][0]})
    ck.failures.sort(key=lambda f: len(str(f["input"])))
    if ck.tier == "thorough":
        ck.leanchecker(["LasModel.Props.C18"])
