"""C04 — chunked writing is equivalent to one-shot writing."""
import io
import itertools
import logging

import numpy as np

from .. import fileio as fio
from . import c08

THEOREMS = ["session_form", "foldStats_flatten", "C04_stats", "C04_bytes", "C04_empty", "C04_after_done",
            "C04_done_after_evlrs", "C04_done_after_close", "C04_wrong_format",
            "tuple_fields_known", "eq_compares_every_field", "dimEq_eq", "C04_format_identity", "C04_accepted_same_length", "C04_format_refl", "D04_old_equality_conflates"]
hx = c08.hx


def compositions(n, k):
    """all ways to write n as an ordered sum of k parts >= 0"""
    if k == 1:
        yield (n,)
        return
    for first in range(n + 1):
        for rest in compositions(n - first, k - 1):
            yield (first,) + rest


def rand_partition(rng, n):
    k = rng.randrange(1, 6)
    cuts = sorted(rng.randrange(0, n + 1) for _ in range(k - 1))
    parts, prev = [], 0
    for c in cuts + [n]:
        parts.append(c - prev)
        prev = c
    return tuple(parts)


def chunked_write_with_empty_evlrs(las, parts, at):
    """the same session with `write_evlrs(<empty list>)` called before chunk `at` (LAS 1.4): it writes nothing and finishes nothing"""
    from laspy.laswriter import LasWriter
    from laspy.vlrs.vlrlist import VLRList
    buf = io.BytesIO()
    w = LasWriter(buf, las.header, closefd=False)
    pos = 0
    for i, p in enumerate(parts):
        if i == at:
            w.write_evlrs(VLRList())
        w.write_points(las.points[pos:pos + p])
        pos += p
    if las.evlrs is not None:
        w.write_evlrs(las.evlrs)
    w.close()
    return buf.getvalue()


def chunked_write(las, parts, evlr_at=None, close_early=False):
    """real LasWriter session: chunks per `parts`; returns (bytes, log)"""
    import laspy
    from laspy.laswriter import LasWriter
    buf = io.BytesIO()
    w = LasWriter(buf, las.header, closefd=False)
    pos = 0
    for i, p in enumerate(parts):
        w.write_points(las.points[pos:pos + p])
        pos += p
    if las.header.version.minor >= 4 and las.evlrs is not None:
        w.write_evlrs(las.evlrs)
    w.close()
    return buf.getvalue()


def compressed_layer(ck, n_cases):
    import laspy
    try:
        import lazrs
        from laspy import LazBackend
        from laspy.laswriter import LasWriter
    except ImportError:
        ck.count("compressed_layer_skipped_no_backend_double")
        return
    from . import c01
    for ci in range(n_cases):
        lazrs.CHUNK_SIZE = ck.rng.choice([3, 5, 7])
        minor, fmt = ck.rng.choice(fio.PAIRS)
        n = ck.rng.choice([0, 1, 2, lazrs.CHUNK_SIZE, lazrs.CHUNK_SIZE + 1, 11, 16])
        evlrs = fio.rand_vlrs(ck.rng, True, 2) if minor >= 4 and ck.rng.random() < 0.7 else None
        las = fio.make_las(ck.rng, minor, fmt, n, vlrs=fio.rand_vlrs(ck.rng, False, 1), evlrs=evlrs)
        parts = rand_partition(ck.rng, n)
        bk = ck.rng.choice([LazBackend.Lazrs, LazBackend.LazrsParallel])
        inp = {"kind": "compressed_chunked", "minor": minor, "fmt": fmt, "n": n, "parts": list(parts), "chunk_size": lazrs.CHUNK_SIZE,
               "backend": bk.name, "evlrs": None if evlrs is None else len(evlrs)}
        ck.case(("c04laz", minor, fmt, n, tuple(parts), lazrs.CHUNK_SIZE, bk.name, las.points.array.tobytes()), nontrivial=n > 0)
        ck.count("compressed_chunked")
        try:
            one = io.BytesIO()
            las.write(one, do_compress=True, laz_backend=bk)
            buf = io.BytesIO()
            w = LasWriter(buf, las.header, do_compress=True, laz_backend=bk, closefd=False)
            pos = 0
            for p in parts:
                w.write_points(las.points[pos:pos + p])
                pos += p
            if minor >= 4 and las.evlrs is not None:
                w.write_evlrs(las.evlrs)
            w.close()
            plain = io.BytesIO()
            las.write(plain)
            a = c01.canon_read(laspy.read(io.BytesIO(buf.getvalue()), laz_backend=bk))
            b = c01.canon_read(laspy.read(io.BytesIO(one.getvalue()), laz_backend=bk))
            c = c01.canon_read(laspy.read(io.BytesIO(plain.getvalue()))).split(" ")
        except Exception as e:
            ck.fail(f"compressed chunked/one-shot session raised {type(e).__name__}: {e}", inp)
            continue
        if a != b:
            k0 = next((i for i in range(min(len(a), len(b))) if a[i] != b[i]), -1)
            ck.fail(f"compressed: the chunked session {parts} reads differently from the one-shot file (char {k0}: ...{a[max(0, k0 - 20):k0 + 30]} vs ...{b[max(0, k0 - 20):k0 + 30]})", inp)
        a2 = a.split(" ")
        a2[10] = str(int(a2[10]) & 0x3F)
        a2[16] = c[16] = "EVLRSTART"
        if a2 != c:
            k0 = next((i for i in range(min(len(a2), len(c))) if a2[i] != c[i]), -1)
            ck.fail(f"compressed chunked session {parts}: what is read back differs from the data written (field #{k0}: {a2[k0][:60]} vs {c[k0][:60]})", inp)
    lazrs.CHUNK_SIZE = 5


def run(ck):
    logging.getLogger("laspy").setLevel(logging.CRITICAL)
    import laspy
    from laspy.laswriter import LasWriter
    from laspy.errors import LaspyException
    ck.rule = ("real LasWriter sessions into BytesIO vs LasData.write of the same object vs the model's session: every legal "
               "(version, format) pair; n in 0..12 points of random bytes; partitions into 1..5 chunks with empty chunks allowed "
               "(thorough: all compositions for n <= 6, k <= 4; quick: all for n <= 3 plus seeded); with/without EVLRs; then late "
               "writes after write_evlrs / close and writes of another point format, which must raise and leave getvalue() "
               "unchanged. non-trivial = at least two non-empty chunks or a late write; distinct by (pair, bytes, partition)")
    ck.regen()
    ck.lean_props("C04", THEOREMS)
    lines, meta = [], []
    q = ck.tier == "quick"
    jobs = []
    for n in range(0, 4 if q else 7):
        for k in range(1, 4 if q else 5):
            for parts in compositions(n, k):
                jobs.append((n, parts, True))
    for _ in range(120 if q else 3000):
        n = ck.rng.randrange(0, 13)
        jobs.append((n, rand_partition(ck.rng, n), False))
    for (n, parts, exhaustive) in jobs:
        minor, fmt = ck.rng.choice(fio.PAIRS)
        params = fio.rand_extra_params(ck.rng, 2) if ck.rng.random() < 0.3 else []
        evlrs = fio.rand_vlrs(ck.rng, True) if (minor >= 4 and ck.rng.random() < 0.5) else None
        las = fio.make_las(ck.rng, minor, fmt, n, params, vlrs=fio.rand_vlrs(ck.rng, False, 1), evlrs=evlrs)
        raw = las.points.array.tobytes()
        size = las.header.point_format.size
        inp = {"kind": "partition", "minor": minor, "fmt": fmt, "n": n, "parts": list(parts), "evlrs": None if evlrs is None else len(evlrs),
               "extra": [p.name for p in params], "raw": raw.hex()[:600]}
        ck.case(("c04", minor, fmt, parts, raw), nontrivial=sum(1 for p in parts if p) >= 2)
        ck.count("chunks=%d" % len(parts))
        ck.count("empty_chunks", sum(1 for p in parts if p == 0))
        one = io.BytesIO()
        las.write(one)
        try:
            chunked = chunked_write(las, parts)
        except Exception as e:
            ck.fail(f"chunked writing raised {type(e).__name__}: {e}", inp)
            continue
        if chunked != one.getvalue():
            k0 = next((i for i in range(min(len(chunked), len(one.getvalue()))) if chunked[i] != one.getvalue()[i]), -1)
            ck.fail(f"chunked file differs from the one-shot file (first difference at byte {k0}; sizes {len(chunked)}/{len(one.getvalue())})", inp)
        f = fio.header_fields(las.header)
        ops, pos = [], 0
        for p in parts:
            ops.append(fio.op_points(fmt, size, raw[pos * size:(pos + p) * size]))
            pos += p
        if minor >= 4 and las.evlrs is not None:
            ops.append(fio.op_evlrs([(u.decode(), r, d.decode("latin-1"), pl) for (u, r, d, pl) in (c08.canon(v) for v in las.evlrs)]))
        lines.append(fio.session_line(f, ops))
        meta.append((inp, "ok " + hx(chunked)))
        if len(ck.samples) < 3:
            ck.sample({k: v for k, v in inp.items() if k != "raw"})
    # ---- chunk sizes on both sides of internal buffer sizes (8 KiB, 64 KiB, 1 MiB): a small chunk followed by a large one,
    # large followed by small, many small ones
    for ci in range(6 if q else 60):
        minor, fmt = ck.rng.choice(fio.PAIRS)
        n = ck.rng.choice([600, 900, 2500]) if ci % 3 else 40000
        las = fio.make_las(ck.rng, minor, fmt, n, evlrs=fio.rand_vlrs(ck.rng, True, 1) if minor >= 4 else None)
        one = io.BytesIO()
        las.write(one)
        a = ck.rng.choice([1, 10, 100, 200])
        b = ck.rng.choice([1, 7, 150])
        for parts in ((a, n - a), (n - b, b), (a, a, n - 2 * a), tuple([n // 7] * 6 + [n - 6 * (n // 7)])):
            inp = {"kind": "big_chunks", "minor": minor, "fmt": fmt, "n": n, "parts": list(parts), "record_size": las.header.point_format.size}
            ck.case(("bigchunks", minor, fmt, n, parts), nontrivial=True)
            ck.count("big_chunks")
            try:
                chunked = chunked_write(las, parts)
            except Exception as e:
                ck.fail(f"chunked write {parts} raised {type(e).__name__}: {e}", inp)
                continue
            if chunked != one.getvalue():
                k0 = next((i for i in range(min(len(chunked), len(one.getvalue()))) if chunked[i] != one.getvalue()[i]), -1)
                ck.fail(f"chunked file {parts} differs from the one-shot file (first difference at byte {k0}; sizes {len(chunked)}/{len(one.getvalue())})", inp)
    # ---- a chunk whose bytes are an exact multiple of a power-of-two block (64 KiB, 8 KiB, 1 MiB), between two ordinary chunks
    for ci in range(4 if q else 24):
        fmt, minor = [(0, 2), (6, 4), (3, 2), (1, 2)][ci % 4]
        las0 = fio.make_las(ck.rng, minor, fmt, 0)
        size = las0.header.point_format.size
        block = [65536, 8192, 65536, 1 << 20][ci % 4]
        import math
        k = block // math.gcd(block, size)            # the fewest points whose bytes are a whole number of blocks
        if k * size > 6 * 2**20:
            continue
        n = 100 + k + 50
        las = fio.make_las(ck.rng, minor, fmt, n)
        one = io.BytesIO()
        las.write(one)
        parts = (100, k, 50)
        inp = {"kind": "block_multiple_chunk", "minor": minor, "fmt": fmt, "n": n, "parts": list(parts), "record_size": size, "block": block}
        ck.case(("blockchunk", minor, fmt, n, parts), nontrivial=True)
        ck.count("chunk_of_exactly_k_blocks")
        try:
            chunked = chunked_write(las, parts)
        except Exception as e:
            ck.fail(f"chunked write {parts} raised {type(e).__name__}: {e}", inp)
            continue
        if chunked != one.getvalue():
            ck.fail(f"chunked file {parts} (the middle chunk is {k * size} bytes = {k * size // block} x {block}) differs from the one-shot file (sizes {len(chunked)}/{len(one.getvalue())})", inp)
    # ---- a write_evlrs that is refused (a version without EVLRs) is not the end of the session: the next chunks are written
    for ci in range(6 if q else 60):
        minor, fmt = [pr for pr in fio.PAIRS if pr[0] < 4][ci % len([pr for pr in fio.PAIRS if pr[0] < 4])]
        n = ck.rng.choice([4, 7])
        las = fio.make_las(ck.rng, minor, fmt, n)
        one = io.BytesIO()
        las.write(one)
        half = n // 2
        inp = {"kind": "refused_evlrs_between_chunks", "minor": minor, "fmt": fmt, "n": n}
        ck.case(("refusedev", minor, fmt, n, las.points.array.tobytes()), nontrivial=True)
        ck.count("refused_write_evlrs_between_chunks")
        buf = io.BytesIO()
        try:
            from laspy.vlrs.vlrlist import VLRList
            with LasWriter(buf, las.header, closefd=False) as w:
                w.write_points(las.points[:half])
                try:
                    w.write_evlrs(VLRList([laspy.VLR("verif", 1, "not in this version", b"abc")]))
                    refused = False
                except LaspyException:
                    refused = True
                w.write_points(las.points[half:])
        except Exception as e:
            ck.fail(f"LAS 1.{minor}: after a refused write_evlrs the next chunk raised {type(e).__name__}: {e}", inp)
            continue
        if not refused:
            ck.fail(f"LAS 1.{minor}: write_evlrs was not refused", inp)
        elif buf.getvalue() != one.getvalue():
            ck.fail(f"LAS 1.{minor}: session with a refused write_evlrs between its chunks: the file differs from the one-shot file", inp)
    # ---- an empty EVLR list written between two chunks changes nothing
    for _ in range(15 if q else 300):
        minor, fmt = ck.rng.choice([pr for pr in fio.PAIRS if pr[0] == 4])
        n = ck.rng.choice([2, 5, 9])
        las = fio.make_las(ck.rng, minor, fmt, n, evlrs=fio.rand_vlrs(ck.rng, True, 1))
        parts = rand_partition(ck.rng, n)
        at = ck.rng.randrange(0, len(parts))
        inp = {"kind": "empty_evlrs_between_chunks", "minor": minor, "fmt": fmt, "n": n, "parts": list(parts), "before_chunk": at}
        ck.case(("emptyev", minor, fmt, n, tuple(parts), at, las.points.array.tobytes()), nontrivial=True)
        ck.count("empty_evlrs_between_chunks")
        one = io.BytesIO()
        las.write(one)
        try:
            got = chunked_write_with_empty_evlrs(las, parts, at)
        except Exception as e:
            ck.fail(f"write_evlrs(<empty list>) before chunk {at} of {parts}: the session raised {type(e).__name__}: {e}", inp)
            continue
        if got != one.getvalue():
            ck.fail(f"write_evlrs(<empty list>) before chunk {at} of {parts}: the file differs from the one-shot file", inp)
    # ---- the same point sequence with its second half handed over in a neighbouring tile's offsets (differing by one unit in 5e5):
    # the file is the one-shot file of the sequence
    for _ in range(15 if q else 300):
        minor, fmt = ck.rng.choice(fio.PAIRS)
        n = ck.rng.choice([4, 6])
        sc, of = [0.5, 0.25, 1.0], [500000.0, 4500000.0, 0.0]
        las = fio.make_las(ck.rng, minor, fmt, n, scales=sc, offsets=of)
        for d in "XYZ":
            las.points.array[d] = np.array([ck.rng.randrange(-10**5, 10**5) for _ in range(n)], dtype="i4")
        of2 = [of[0] + ck.rng.choice([1.0, 2.0, 0.5]), of[1] + ck.rng.choice([2.0, 0.25, -0.5, -2.0]), of[2]]
        # the last point of the second chunk sits on the edge of what the file's scaling can hold (the largest / smallest 32-bit integer)
        las.points.array["X"][-1] = 2**31 - 1
        if of2[1] < of[1]:
            las.points.array["Y"][-1] = -2**31
        las.update_header()
        half = n // 2
        second = laspy.ScaleAwarePointRecord(las.points.array[half:].copy(), las.header.point_format, np.array(sc), np.array(of))
        second.change_scaling(offsets=np.array(of2))          # the same coordinates, expressed in the other tile's offsets (exact: dyadic)
        inp = {"kind": "chunk_in_neighbouring_offsets", "minor": minor, "fmt": fmt, "n": n, "offsets": of, "chunk_offsets": of2}
        ck.case(("neighbour", minor, fmt, n, tuple(of2), las.points.array.tobytes()), nontrivial=True)
        ck.count("chunk_in_neighbouring_offsets")
        one = io.BytesIO()
        las.write(one)
        buf = io.BytesIO()
        try:
            with LasWriter(buf, las.header, closefd=False) as w:
                w.write_points(las.points[:half])
                w.write_points(second)
        except Exception as e:
            ck.fail(f"chunk handed over in offsets {of2}: {type(e).__name__}: {e}", inp)
            continue
        if buf.getvalue() != one.getvalue():
            a_, b_ = buf.getvalue(), one.getvalue()
            k0 = next((i for i in range(min(len(a_), len(b_))) if a_[i] != b_[i]), -1)
            ck.fail(f"second chunk handed over in offsets {of2} (file offsets {of}): the file differs from the one-shot file of the same points "
                    f"(first difference at byte {k0})", inp)
    # ---- compressed: chunked and one-shot sessions give an equal LasData, equal to the data written (backend double)
    compressed_layer(ck, 30 if q else 600)
    # ---- late writes and wrong formats
    for _ in range(60 if q else 800):
        minor, fmt = ck.rng.choice(fio.PAIRS)
        n = ck.rng.randrange(1, 6)
        evlrs = fio.rand_vlrs(ck.rng, True, 2) if minor >= 4 else None
        how = ck.rng.choice(["evlrs", "close", "format", "format_extra"])
        mine, theirs, xvariant = fio.foreign_extra_dims(ck.rng) if how == "format_extra" else ((), (), None)
        las = fio.make_las(ck.rng, minor, fmt, n, mine, evlrs=evlrs)
        buf = io.BytesIO()
        w = LasWriter(buf, las.header, closefd=False)
        w.write_points(las.points)
        inp = {"kind": "late", "minor": minor, "fmt": fmt, "n": n, "how": how}
        ck.case(("late", minor, fmt, n, how, las.points.array.tobytes()), nontrivial=True)
        ck.count("late:" + how)
        other = None
        if how == "evlrs":
            if not (minor >= 4 and las.evlrs):
                w.close()
                continue
            w.write_evlrs(las.evlrs)
        elif how == "close":
            w.close()
        elif how == "format_extra":
            # same point format id, extra dimensions that differ in one respect only: another point format
            ck.count("wrong_format:" + xvariant)
            inp["variant"] = xvariant
            pf = laspy.PointFormat(fmt)
            for p_ in theirs:
                pf.add_extra_dimension(p_)
            other = laspy.PackedPointRecord.zeros(2, pf)
        else:
            variant = ck.rng.choice(["other_id", "same_id_extra_dims", "same_id_extra_type", "same_object_mutated"])
            ck.count("wrong_format:" + variant)
            inp["variant"] = variant
            if variant == "same_object_mutated":
                # the LasData whose points were just written gains an extra dimension: its point format object is the same
                # object as before, mutated in place; its records are now longer
                las.add_extra_dim(laspy.ExtraBytesParams("added_later", "u2"))
                pf = None
            elif variant == "other_id":
                ofmt = ck.rng.choice([x for x in range(11) if x != fmt])
                pf = laspy.PointFormat(ofmt)
            else:
                # same point format id, different extra dimensions: a different point format (record length / layout)
                pf = laspy.PointFormat(fmt)
                pf.add_extra_dimension(laspy.ExtraBytesParams("other", "u1" if variant == "same_id_extra_dims" else "f8"))
            other = laspy.PackedPointRecord.zeros(2, pf) if pf is not None else las.points[:2]
        before = buf.getvalue()
        for chunk, label in ((other if other is not None else las.points[:1], "non-empty"), (las.points[0:0], "empty")):
            raised = None
            try:
                w.write_points(chunk)
            except LaspyException as e:
                raised = "Laspy"
            except Exception as e:
                raised = type(e).__name__
            if label == "non-empty" and raised != "Laspy":
                ck.fail(f"writing points after '{how}' did not raise a laspy exception (got {raised})", inp)
            if label == "empty" and raised is not None and how not in ("format", "format_extra"):
                ck.count("empty_chunk_after_done_raised:" + raised)
            if buf.getvalue() != before:
                ck.fail(f"a refused write_points ({label}, after '{how}') changed the destination", inp)
        if how != "close":
            w.close()
    # ---- what "another point format" means: PointFormat.__eq__ == the model's equality (generated attribute list and pairing), and a
    # writer refuses exactly the records whose format differs from its own in any respect
    from .. import formateq as fe
    for label, ia, pa, ib, pb in fe.pairs(ck.rng, 30 if q else 600):
        fa, fb = fe.build(ia, pa), fe.build(ib, pb)
        inp = {"kind": "format_identity", "label": label, "ids": [ia, ib], "file_dims": [f"{p.name}:{p.type}" for p in pa], "record_dims": [f"{p.name}:{p.type}" for p in pb]}
        ck.case(("format_identity", label, ia, ib, str(inp["file_dims"]), str(inp["record_dims"])), nontrivial=True)
        ck.count("format_identity:" + label)
        live = fa == fb
        lines.append(fe.eq_line(fa, fb))
        meta.append((inp, "1" if live else "0"))
        # independent description of the two formats: id, and per extra dimension name, numpy dtype (element type and count), description, scaling
        def desc(pf):
            return (pf.id, [(d.name, str(d.dtype), d.description, None if d.scales is None else [float(x) for x in d.scales],
                             None if d.offsets is None else [float(x) for x in d.offsets]) for d in pf.extra_dimensions])
        same = desc(fa) == desc(fb)
        minor = 4 if max(ia, ib) >= 6 else 2
        hdr = laspy.LasHeader(point_format=fa, version=f"1.{minor}")
        rec = laspy.PackedPointRecord.zeros(2, fb)
        buf = io.BytesIO()
        w = LasWriter(buf, hdr, closefd=False)
        before = buf.getvalue()
        try:
            w.write_points(rec)
            outcome = "accepted"
        except LaspyException:
            outcome = "refused"
        except Exception as e:
            outcome = type(e).__name__
        if same and outcome != "accepted":
            ck.fail(f"records of the writer's own point format ({label}) were not accepted: {outcome}", inp)
        if not same and outcome != "refused":
            ck.fail(f"records of another point format ({label}: file {inp['file_dims']} / records {inp['record_dims']}, ids {ia}/{ib}) were {outcome} by the writer", inp)
        if not same and buf.getvalue() != before:
            ck.fail(f"a refused chunk ({label}) changed the destination", inp)
        try:
            w.close()
        except Exception:
            pass
    out = ck.driver(lines)
    bad = None
    if out is None or len(out) != len(lines):
        bad = "driver did not run"
    else:
        for (inp, exp), o in zip(meta, out):
            if o != exp and bad is None:
                k = next((i for i in range(min(len(o), len(exp))) if o[i] != exp[i]), min(len(o), len(exp)))
                bad = f"{({k_: v for k_, v in inp.items() if k_ != 'raw'})}: at char {k}: model ...{o[max(0,k-30):k+30]} impl ...{exp[max(0,k-30):k+30]}"
    ck.oblige("correspondence fileio/chunked: model session (chunks, EVLRs, close) == real LasWriter session bytes", "correspondence", bad is None, bad or "")
    ck.failures.sort(key=lambda f: (f["input"].get("n", 0), len(str(f["input"]))))
    if ck.tier == "thorough":
        ck.leanchecker(["LasModel.Props.C04", "LasModel.Props.C04Fmt"])
