"""Shared machinery of the checks: translator run, lake build + axiom audit, Lean
driver, verdict logic, evidence and replay files, known findings."""
import atexit
import fcntl
import hashlib
import json
import os
import random
import re
import shutil
import subprocess
import sys
import time

VERIF = os.path.dirname(os.path.dirname(os.path.abspath(__file__)))
REPO = os.environ.get("VERIF_REPO", "/repo")
LEAN_DIR = os.path.join(VERIF, "lean")
PY = "/venv/bin/python"
ALLOWED_AXIOMS = {"propext", "Classical.choice", "Quot.sound"}
FORBIDDEN_RE = re.compile(
    r"\bsorry\b|\badmit\b|^axiom |native_decide|bv_decide|implemented_by|unsafe |maxHeartbeats 0",
    re.M,
)

TRUSTED_BASE = [
    "Lean 4.33.0 kernel (axioms allowed in property theorems: propext, Classical.choice, Quot.sound; no native_decide, no bv_decide, no sorry)",
    "translator/py2lean.py (table extraction by introspection of the live laspy objects; AST subset for small integer functions), validated each run by translation validation",
    "harness/ (correspondence driver, generators, canonicalisers, test doubles)",
    "numpy structured-dtype layout / frombuffer / indexing; CPython int.to_bytes, struct.pack, io.BytesIO (modelled, validated by correspondence only)",
]


def env_clean():
    e = dict(os.environ)
    e["PYTHONPATH"] = REPO + os.pathsep + VERIF
    e.setdefault("LASPY_VERIF", "1")
    return e


def strip_comments(text):
    text = re.sub(r"/-.*?-/", "", text, flags=re.S)
    text = re.sub(r"--.*", "", text)
    return text


class Obligation:
    def __init__(self, name, kind, ok, detail=""):
        self.name, self.kind, self.ok, self.detail = name, kind, ok, detail

    def as_dict(self):
        return {"name": self.name, "kind": self.kind, "discharged": self.ok, "detail": self.detail[:400]}


# units of the generated Lean files (translator/py2lean.py) that each property's model and theorems use
_FILE = ["TDims", "TComposed", "TVersions", "TVlr"]
REQUIRED_UNITS = {
    "C01": _FILE, "C02": ["TDims", "TComposed", "TVersions", "TVlr", "TExtra", "TGeMasks"], "C03": _FILE, "C04": _FILE + ["FormatEq"],
    "C05": _FILE + ["Reader"], "C06": _FILE, "C07": ["TVersions", "TVlr", "Dims"], "C08": ["TVlr", "TExtra"],
    "C09": ["TDims", "TComposed"], "C10": ["TDims", "TComposed", "Views"], "C11": [], "C12": ["TDims", "TComposed", "TVersions", "Dims"],
    "C13": ["TDims", "TExtra"], "C14": ["Compression", "Selection"], "C15": ["Copc", "TCopc"], "C16": [], "C17": [], "C18": [],
    "C19": _FILE + ["Order"], "C20": ["GE", "TGeMasks"],
}


FUNCTION_UNITS = {"GE", "Compression", "Dims", "Copc", "Reader", "Views", "Order", "Selection", "FormatEq"}


class Check:
    def __init__(self, pid, tier="quick", seed=0):
        self.pid = pid
        self.tier = tier
        self.seed = seed
        self.rng = random.Random((seed, pid).__repr__())
        self.t0 = time.time()
        self.obligations = []
        self.failures = []  # concrete failing inputs: dicts with 'what', 'input', 'source'
        self.broken = []  # names of theorems / correspondences that no longer check
        self.evaluations = 0
        self.nontrivial = set()
        self.samples = []
        self.distribution = {}
        self.notes = []
        self.axioms = {}
        self.exhaustive = False
        self.rule = ""
        self.assumptions = []
        self.checker_cmds = []
        self.replaying = False
        self._lk = None            # exclusive lock on lean/ while this run regenerates, builds and (if needed) falls back
        self._driver_copy = None   # this run's own copy of the driver, built from the text its theorems were checked for
        # replays of earlier runs of this property are stale
        rdir = os.path.join(VERIF, "replays", pid)
        if os.path.isdir(rdir) and not os.environ.get("VERIF_KEEP_REPLAYS"):
            for f in os.listdir(rdir):
                try:
                    os.remove(os.path.join(rdir, f))
                except OSError:
                    pass

    # ---------------------------------------------------------------- util
    def log(self, *a):
        print(f"[{self.pid} +{time.time()-self.t0:6.1f}s]", *a, file=sys.stderr, flush=True)

    def count(self, key, n=1):
        self.distribution[key] = self.distribution.get(key, 0) + n

    def case(self, canon, nontrivial=True):
        """record one explored case (canon: hashable/str canonical form)"""
        self.evaluations += 1
        if nontrivial:
            self.nontrivial.add(hashlib.sha1(repr(canon).encode()).digest()[:8])

    def sample(self, s, limit=6):
        if len(self.samples) < limit:
            self.samples.append(s)

    def oblige(self, name, kind, ok, detail=""):
        self.obligations.append(Obligation(name, kind, bool(ok), detail))
        if not ok:
            self.broken.append(name)
        return ok

    def fail(self, what, inp, source="oracle"):
        """a concrete input on which the property fails (on the implementation)"""
        self.failures.append({"what": what, "input": inp, "source": source})

    # ---------------------------------------------------------------- lock
    def _acquire(self):
        """Checks may run concurrently. Everything that writes under lean/ (translator output, pinned text put back,
        lake build) happens under one exclusive lock per run, held from the regeneration to the end of the theorem
        build; the run then works with its own copy of the driver, so that another run falling back to (or away from)
        the pinned text of a unit cannot change the model under its feet."""
        if self._lk is None:
            self._lk = open(os.path.join(LEAN_DIR, ".lake.lock"), "w")
            fcntl.flock(self._lk, fcntl.LOCK_EX)
            return True
        return False

    def _release(self):
        if self._lk is not None:
            try:
                fcntl.flock(self._lk, fcntl.LOCK_UN)
                self._lk.close()
            finally:
                self._lk = None

    def _copy_driver(self):
        exe = os.path.join(LEAN_DIR, ".lake", "build", "bin", "driver")
        for f in os.listdir(os.path.dirname(exe)) if os.path.isdir(os.path.dirname(exe)) else []:
            # copies left by runs that were killed
            fp = os.path.join(os.path.dirname(exe), f)
            try:
                if f.startswith("driver.run") and time.time() - os.path.getmtime(fp) > 3600:
                    os.remove(fp)
            except OSError:
                pass
        if os.path.exists(exe):
            dst = exe + f".run{os.getpid()}"
            shutil.copy(exe, dst)
            self._driver_copy = dst
            atexit.register(lambda d=dst: os.path.exists(d) and os.remove(d))

    # ---------------------------------------------------------------- translator
    def regen(self, required=None):
        """regenerate lean/LasModel/Gen/*.lean from the live package. The generated files are made of independent
        units; the obligation of this property covers the units its model and theorems use (REQUIRED_UNITS): a unit
        that can no longer be generated breaks the properties that rest on it, not the others (their Lean modules
        still build against the unit's previous text)."""
        if required is None:
            required = REQUIRED_UNITS.get(self.pid, None)
        self._acquire()
        p = subprocess.run(
            [PY, os.path.join(VERIF, "translator", "py2lean.py")],
            capture_output=True, text=True, env=env_clean(),
        )
        status = None
        for ln in p.stdout.splitlines():
            if ln.startswith("{"):
                try:
                    status = json.loads(ln)
                except ValueError:
                    pass
        self.unit_states = {}
        self.fallback_units = []
        if status is None or "units" not in status:
            ok, detail = False, (p.stdout + p.stderr)[-600:]
        else:
            units = status["units"]
            names = list(units) if required is None else list(required)
            self.required_units = names
            self.unit_states = {u: units.get(u, {"ok": False, "state": "missing"}) for u in names}
            hard, soft = {}, []
            for u in names:
                st = self.unit_states[u]
                if st.get("ok"):
                    continue
                if st.get("stale") and u in FUNCTION_UNITS:
                    soft.append(u)          # pinned text in place: accepted iff validated against the live code (lean_props)
                else:
                    hard[u] = st
            self.fallback_units = soft
            ok = not hard
            detail = "" if ok else json.dumps(hard)[:800]
            if soft:
                detail = (detail + " " if detail else "") + "not regenerated, pinned text kept (validated below): " + ", ".join(
                    f"{u} ({self.unit_states[u].get('error', self.unit_states[u].get('state'))[:120]})" for u in soft)
            others = [u for u in units if not units[u].get("ok") and u not in names]
            if others:
                self.count("translator_units_failed_not_used_by_this_property:" + ",".join(others))
        self.oblige("translator: regenerate the units of Gen/*.lean this property rests on from /repo", "translation", ok, detail)
        self.checker_cmds.append("python translator/py2lean.py")
        return ok

    # ---------------------------------------------------------------- lean
    def _lake(self, args, timeout=3000):
        mine = self._acquire()
        self._cap_memory(False)
        try:
            p = subprocess.run(["lake"] + args, cwd=LEAN_DIR, capture_output=True, text=True, timeout=timeout)
            return p.returncode, p.stdout + p.stderr
        finally:
            if mine:
                self._release()

    def lean_props(self, module, theorems, extra_sources=(), keep_lock=False):
        self._acquire()
        try:
            return self._lean_props(module, theorems, extra_sources)
        finally:
            if not keep_lock:
                self._copy_driver()
                self._release()
                self._cap_memory(True)

    def _cap_memory(self, on):
        """while the implementation is being exercised: a request for an absurd amount of memory (a length read out of garbage) fails at once with
        MemoryError instead of keeping the machine busy for minutes. The Lean subprocesses run uncapped."""
        try:
            import resource
            soft, hard = resource.getrlimit(resource.RLIMIT_AS)
            cap = (6 if self.tier == "quick" else 20) * 2**30
            if on and (hard == resource.RLIM_INFINITY or hard > cap):
                resource.setrlimit(resource.RLIMIT_AS, (cap, hard))
            elif not on:
                resource.setrlimit(resource.RLIMIT_AS, (hard, hard))
        except Exception:
            pass

    def _lean_props(self, module, theorems, extra_sources=()):
        """Build LasModel.Props.<module> and LasModel.Audit.<module>; one obligation per
        theorem (discharged iff its `#print axioms` line appears with allowed axioms)."""
        self.checker_cmds.append(f"lake build LasModel.Audit.{module}  (#print axioms per theorem)")
        # forbidden constructs
        srcs = [os.path.join(LEAN_DIR, "LasModel", "Props", module + ".lean")] + list(extra_sources)
        bad = []
        for root, _, files in os.walk(os.path.join(LEAN_DIR, "LasModel")):
            for f in files:
                if f.endswith(".lean"):
                    path = os.path.join(root, f)
                    m = FORBIDDEN_RE.search(strip_comments(open(path).read()))
                    if m:
                        bad.append(f"{os.path.relpath(path, LEAN_DIR)}: {m.group(0)!r}")
        self.oblige("no sorry/admit/axiom/native_decide/bv_decide in lean sources", "audit", not bad, "; ".join(bad))
        rc, out = self._lake(["build", f"LasModel.Audit.{module}", "driver"])
        changed = [u for u, st in getattr(self, "unit_states", {}).items() if st.get("state") == "changed" and u in FUNCTION_UNITS]
        if rc != 0 and changed:
            # the proofs do not go through on the regenerated text of a translated function (an equivalent rewrite can do
            # that): put the pinned text back for those units, rebuild, and validate the pinned text against the code
            subprocess.run([PY, os.path.join(VERIF, "translator", "py2lean.py"), "--pin", ",".join(changed + self.fallback_units)],
                           capture_output=True, text=True, env=env_clean())
            rc2, out2 = self._lake(["build", f"LasModel.Audit.{module}", "driver"])
            if rc2 == 0:
                self.count("proofs_failed_on_regenerated_text_pinned_text_restored:" + ",".join(changed))
                self.fallback_units = list(dict.fromkeys(self.fallback_units + changed))
                rc, out = rc2, out2
        for u in getattr(self, "fallback_units", []):
            from . import validators
            fn = validators.VALIDATORS.get(u)
            if fn is None:
                self.oblige(f"pinned unit {u} == live code: by this property's own correspondence run (see the correspondence obligation)",
                            "correspondence", True, "the unit could not be tied by translation; its pinned text is what the driver runs")
                self.assumptions.append(f"unit {u} of Gen/Funs.lean was not tied to the source by translation on this run; "
                                        "the theorems stand for its pinned text, validated against the live code by the correspondence run")
                continue
            try:
                okv, n, why = fn(self)
            except Exception as e:        # the live code raised where the pinned model has a value: that is a disagreement, with its input
                import traceback
                fr = traceback.extract_tb(e.__traceback__)[-1]
                okv, n, why = False, 0, f"the live code raised {type(e).__name__}: {str(e)[:200]} (at {os.path.basename(fr.filename)}:{fr.lineno}) while being compared with the pinned unit {u}"
            self.oblige(f"pinned unit {u} == live code on a dense grid ({n} inputs)", "correspondence", okv, why)
            self.assumptions.append(f"unit {u} of Gen/Funs.lean was not tied to the source by translation on this run; "
                                    f"the theorems stand for its pinned text, validated against the live code on {n} inputs")
            if not okv:
                self.fail(f"generated unit {u}: {why}", {"kind": "unit-validation", "unit": u, "detail": why}, source="correspondence")
        ax = {}
        for m in re.finditer(r"'([\w.]+)' (does not depend on any axioms|depends on axioms: \[([^\]]*)\])", out):
            names = set() if m.group(3) is None else {a.strip() for a in m.group(3).split(",")}
            ax[m.group(1).split(".")[-1]] = names
        failed_thms = {}
        if rc != 0:
            failed_thms = self._locate_errors(out)
        for th in theorems:
            if th in ax:
                extra = ax[th] - ALLOWED_AXIOMS
                self.axioms[th] = sorted(ax[th])
                self.oblige(f"theorem {module}.{th}", "theorem", not extra,
                            f"axioms: {sorted(ax[th])}" + (f" FORBIDDEN {sorted(extra)}" if extra else ""))
            else:
                self.oblige(f"theorem {module}.{th}", "theorem", False,
                            failed_thms.get(th) or ("build failed: " + out[-300:] if rc else "no #print axioms line"))
        return rc == 0, out

    def _locate_errors(self, out):
        """map `error: File.lean:LINE:COL: msg` to the enclosing theorem name"""
        res = {}
        cache = {}
        for m in re.finditer(r"error: ([\w/.]+\.lean):(\d+):(\d+): (.*)", out):
            path, line, msg = m.group(1), int(m.group(2)), m.group(4)
            full = os.path.join(LEAN_DIR, path)
            if full not in cache:
                try:
                    cache[full] = open(full).read().splitlines()
                except OSError:
                    cache[full] = []
            name = None
            for i in range(min(line, len(cache[full])) - 1, -1, -1):
                mm = re.match(r"\s*(?:private\s+)?(?:theorem|lemma|example|def)\s+([\w.]+)?", cache[full][i])
                if mm:
                    name = mm.group(1) or f"example@{i+1}"
                    break
            res.setdefault(name or f"{path}:{line}", f"{path}:{line}: {msg}")
        return res

    def driver(self, lines, timeout=1200):
        """run the compiled Lean model driver on the given command lines"""
        built = os.path.join(LEAN_DIR, ".lake", "build", "bin", "driver")
        if self._lk is not None:
            exe = built                      # inside this run's locked section: the text in place is this run's
        elif self._driver_copy and os.path.exists(self._driver_copy):
            exe = self._driver_copy
        else:
            self._acquire()
            try:
                if not os.path.exists(built):
                    rc, out = self._lake(["build", "driver"])
                    if rc != 0:
                        return None
                self._copy_driver()
            finally:
                self._release()
            exe = self._driver_copy
        self._cap_memory(False)            # the model's input and output streams can be large (thorough tier): this is the harness's own memory
        data = "\n".join(lines) + "\n"
        p = subprocess.run([exe], input=data, capture_output=True, text=True, timeout=timeout)
        if p.returncode != 0:
            self.log("driver failed:", p.stderr[-300:])
            return None
        out = p.stdout.split("\n")
        if out and out[-1] == "":
            out.pop()
        self._cap_memory(True)
        return out

    def leanchecker(self, modules):
        self._cap_memory(False)
        p = subprocess.run(["lake", "env", "leanchecker"] + modules, cwd=LEAN_DIR, capture_output=True, text=True)
        ok = p.returncode == 0
        self.oblige("leanchecker re-check of " + ",".join(modules), "recheck", ok, (p.stdout + p.stderr)[-300:])
        self.checker_cmds.append("lake env leanchecker " + " ".join(modules))
        return ok

    # ---------------------------------------------------------------- findings
    def known_findings(self):
        res = []
        path = os.path.join(VERIF, "known_findings.jsonl")
        if os.path.exists(path):
            for ln in open(path):
                ln = ln.strip()
                if ln and not ln.startswith("#"):
                    res.append(json.loads(ln))
        return res

    # ---------------------------------------------------------------- verdict
    def finish(self):
        self._release()
        if self._driver_copy and os.path.exists(self._driver_copy):
            os.remove(self._driver_copy)
        wall = time.time() - self.t0
        open_findings = [k for k in self.known_findings() if k.get("status") == "open" and k.get("property") == self.pid]
        new_failures, known_hits = [], []
        for f in self.failures:
            hit = None
            for k in open_findings:
                if k.get("match") and k["match"] == f.get("input", {}).get("finding_key"):
                    hit = k
            (known_hits if hit else new_failures).append((f, hit))
        violations = 0
        lines = []
        seen_known = set()
        for f, k in known_hits:
            if k["match"] not in seen_known:
                seen_known.add(k["match"])
                lines.append(f"KNOWN-FINDING: property={self.pid} {k['what']}")
        rdir = os.path.join(VERIF, "replays", self.pid)
        if new_failures:
            os.makedirs(rdir, exist_ok=True)
            # report the first (checks order them smallest first), keep up to 5 in the file
            f0 = new_failures[0][0]
            blob = {"property": self.pid, "kind": "failing-input", "what": f0["what"], "input": f0["input"],
                    "source": f0["source"], "seed": self.seed, "tier": self.tier,
                    "broken_obligations": self.broken,
                    "more": [x[0] for x in new_failures[1:5]]}
            h = hashlib.sha1(json.dumps(blob["input"], sort_keys=True, default=str).encode()).hexdigest()[:12]
            path = os.path.join("replays", self.pid, h + ".json")
            with open(os.path.join(VERIF, path), "w") as fh:
                json.dump(blob, fh, indent=1, default=str)
            lines.append(f"VIOLATION property={self.pid} replay={path}")
            violations = len(new_failures)
        elif self.broken and not known_hits:
            os.makedirs(rdir, exist_ok=True)
            blob = {"property": self.pid, "kind": "no-failing-input-found",
                    "broken_obligations": [o.as_dict() for o in self.obligations if not o.ok],
                    "seed": self.seed, "tier": self.tier,
                    "search": {"evaluations": self.evaluations, "distribution": self.distribution}}
            path = os.path.join("replays", self.pid, "broken-obligations.json")
            with open(os.path.join(VERIF, path), "w") as fh:
                json.dump(blob, fh, indent=1, default=str)
            lines.append(f"VIOLATION property={self.pid} replay={path} no-failing-input-found")
            violations = 1
        elif self.broken and known_hits:
            # obligations are broken only because of listed findings
            pass
        n_ob = len(self.obligations)
        n_ok = sum(1 for o in self.obligations if o.ok)
        ev = {
            "property_id": self.pid,
            "tier": self.tier,
            "seed": self.seed,
            "level": "proof",
            "coverage": {
                "obligations": n_ob,
                "discharged": n_ok,
                "checker_cmd": "; ".join(dict.fromkeys(self.checker_cmds)) or "lake build",
                "trusted_base": TRUSTED_BASE + self.assumptions,
                "obligation_list": [o.as_dict() for o in self.obligations],
                "axioms": self.axioms,
                "evaluations": self.evaluations,
                "distinct_nontrivial": len(self.nontrivial),
                "rule": self.rule,
                "samples": self.samples or ["(none)"],
                "distribution": self.distribution,
                "exhaustive": self.exhaustive,
                "notes": self.notes,
            },
            "assumptions": self.assumptions,
            "wall_s": round(wall, 2),
            "violations": violations,
        }
        os.makedirs(os.path.join(VERIF, "evidence"), exist_ok=True)
        with open(os.path.join(VERIF, "evidence", self.pid + ".json"), "w") as fh:
            json.dump(ev, fh, indent=1, default=str)
        for ln in lines:
            print(ln, flush=True)
        print(f"{self.pid}: tier={self.tier} seed={self.seed} obligations {n_ok}/{n_ob} discharged, "
              f"{self.evaluations} cases ({len(self.nontrivial)} distinct non-trivial), "
              f"{len(self.failures)} failing inputs, {wall:.1f}s", flush=True)
        return 1 if violations else 0
