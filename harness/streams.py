"""Test doubles for stream ownership / access-path checks (C17, C18): streams that log every
method call, with configurable capabilities."""
import io


class LogStream:
    """seekable stream with readinto, logging calls"""

    def __init__(self, data=b""):
        self._b = io.BytesIO(data)
        self.log = []
        self.was_closed = False

    # -- logging helpers
    def _l(self, name):
        self.log.append(name)

    def read(self, n=-1):
        self._l("read")
        return self._b.read(n)

    def readinto(self, buf):
        self._l("readinto")
        return self._b.readinto(buf)

    def write(self, data):
        self._l("write")
        return self._b.write(data)

    def seek(self, pos, whence=0):
        self._l("seek")
        return self._b.seek(pos, whence)

    def tell(self):
        self._l("tell")
        return self._b.tell()

    def seekable(self):
        self._l("seekable")
        return True

    def flush(self):
        return None

    def readable(self):
        return True

    def writable(self):
        return True

    def close(self):
        self._l("close")
        self.was_closed = True

    @property
    def closed(self):
        return self.was_closed

    def position(self):
        return self._b.tell()

    def getvalue(self):
        return self._b.getvalue()


class NoReadintoStream(LogStream):
    """seekable, but offers no readinto"""
    readinto = None

    def __getattribute__(self, name):
        if name == "readinto":
            raise AttributeError(name)
        return object.__getattribute__(self, name)


class ReadOnlyInterface:
    """the shape of the repository's own NonSeekableStream: read, seekable() -> False, close"""

    def __init__(self, data):
        self._b = io.BytesIO(data)
        self.log = []
        self.was_closed = False

    def read(self, n=-1):
        self.log.append("read")
        return self._b.read(n)

    def seekable(self):
        self.log.append("seekable")
        return False

    def close(self):
        self.log.append("close")
        self.was_closed = True

    @property
    def closed(self):
        return self.was_closed

    def position(self):
        return self._b.tell()

    def __getattr__(self, name):
        if name in ("seek", "tell"):
            # record the forbidden request, then fail as a pipe would
            self.log.append(name)
            raise io.UnsupportedOperation(name)
        raise AttributeError(name)


class BareReader:
    """an object that has read() and close() and nothing else - not even seekable()"""

    def __init__(self, data):
        self._b = io.BytesIO(data)
        self.log = []

    def read(self, n=-1):
        self.log.append("read")
        return self._b.read(n)

    def close(self):
        self.log.append("close")


class NonSeekableWriter(LogStream):
    def seekable(self):
        self._l("seekable")
        return False


def collapse(log):
    out = []
    for c in log:
        if not out or out[-1] != c:
            out.append(c)
    return out
