"""Deterministic scheduler for laspy.copc's HTTP worker protocol (C16).

The real `HttpFetcherThread`, `http_queue_strategy`, `HttpRangeStream` and `ChunkIter` run on real
threads; the queues and the requests session they use are replaced by doubles whose every operation
parks the calling thread until the scheduler (the harness thread) picks it. A blocking operation
(`get` on an empty queue, `Queue.join` with unfinished tasks, `Thread.join` of a live worker) is
reported as not enabled instead of blocking, so a deadlock is observed, not suffered."""
import collections
import queue as _queue
import threading


class Abort(BaseException):
    """raised inside parked threads when a run is torn down"""


class Actor:
    def __init__(self, tid):
        self.tid = tid
        self.state = "running"     # running | parked | finished
        self.op = None
        self.enabled = None
        self.go = threading.Event()
        self.detail = ""


class Scheduler:
    def __init__(self):
        self.cv = threading.Condition()
        self.actors = {}           # tid -> Actor
        self.by_thread = {}        # thread ident -> tid
        self.aborting = False
        self.next_worker = 1

    # ---- called from actor threads
    def adopt(self, tid):
        with self.cv:
            a = self.actors.get(tid) or Actor(tid)
            self.actors[tid] = a
            self.by_thread[threading.get_ident()] = tid
            return a

    def announce(self, tid):
        """a thread that is about to be started: counts as running from now on"""
        with self.cv:
            self.actors[tid] = Actor(tid)

    def me(self):
        return self.by_thread.get(threading.get_ident())

    def park(self, op, enabled=None, detail=""):
        tid = self.me()
        if tid is None:            # a thread the scheduler does not know (never happens in the runs below)
            return
        a = self.actors[tid]
        with self.cv:
            if self.aborting:
                raise Abort()
            a.state, a.op, a.enabled, a.detail = "parked", op, enabled, detail
            self.cv.notify_all()
        a.go.wait()
        a.go.clear()
        if self.aborting:
            raise Abort()

    def finish(self):
        tid = self.me()
        if tid is None:
            return
        with self.cv:
            self.actors[tid].state = "finished"
            self.cv.notify_all()

    # ---- called from the harness thread
    def wait_quiescent(self, timeout=10.0):
        with self.cv:
            ok = self.cv.wait_for(lambda: all(a.state != "running" for a in self.actors.values()), timeout)
        return ok

    def enabled(self):
        with self.cv:
            return sorted(t for t, a in self.actors.items() if a.state == "parked" and (a.enabled is None or a.enabled()))

    def release(self, tid):
        with self.cv:
            a = self.actors[tid]
            a.state = "running"
        a.go.set()

    def abort(self):
        with self.cv:
            self.aborting = True
            parked = [a for a in self.actors.values() if a.state == "parked"]
            for a in parked:
                a.state = "running"
        for a in parked:
            a.go.set()


class SQueue:
    """double of queue.Queue as used by laspy.copc"""

    def __init__(self, sched):
        self.s = sched
        self.items = collections.deque()
        self.unfinished = 0

    def put(self, x):
        # as the code stands only the caller puts, before any worker exists: not a scheduling point then. A put that happens
        # while workers are running is one (it races with their get_nowait())
        if self.s.me() == 0 and len(self.s.actors) > 1:
            self.s.park("putQ")
        self.items.append(x)
        self.unfinished += 1

    def empty(self):
        self.s.park("empty")
        return not self.items

    def get(self, block=True, timeout=None):
        if not block:
            return self.get_nowait()
        self.s.park("get", lambda: bool(self.items))
        return self.items.popleft()

    def get_nowait(self):
        self.s.park("get_nowait")
        if not self.items:
            raise _queue.Empty
        return self.items.popleft()

    def task_done(self):
        self.s.park("task_done")
        self.unfinished -= 1

    def join(self):
        self.s.park("joinQ", lambda: self.unfinished == 0)

    def qsize(self):
        return len(self.items)


class SSimpleQueue:
    def __init__(self, sched):
        self.s = sched
        self.items = collections.deque()
        self.drain_started = False

    def put(self, x):
        self.s.park("put", detail="exc" if isinstance(x, BaseException) else "ok")
        self.items.append(x)

    def _drain_point(self):
        # the caller's first look at the results (empty(), get(), get_nowait(), qsize()): one scheduling point "drain"
        if not self.drain_started and self.s.me() == 0:
            self.drain_started = True
            self.s.park("drain")

    def empty(self):
        self._drain_point()
        return not self.items

    def qsize(self):
        self._drain_point()
        return len(self.items)

    def get(self, block=True, timeout=None):
        self._drain_point()
        if not self.items:
            raise _queue.Empty
        return self.items.popleft()

    def get_nowait(self):
        self._drain_point()
        if not self.items:
            raise _queue.Empty
        return self.items.popleft()


class FakeResponse:
    def __init__(self, content, fail, status=500):
        self.content = b"" if fail else content
        self.fail = fail
        self.status_code = status if fail else 206
        self.ok = not fail
        self.reason = "injected"

    def raise_for_status(self):
        if self.fail:
            import requests
            raise requests.HTTPError(f"{self.status_code} Error (injected)")


class FakeSession:
    """requests.Session double serving byte ranges of an in-memory file"""

    def __init__(self, data, fails=(), sched=None, delay=None, log=None, fail_kind=None):
        self.data, self.fails, self.sched, self.delay, self.log = data, set(fails), sched, delay, log
        self.fail_kind = fail_kind or (lambda offset: "http")
        self.closed = False

    def get(self, url, headers=None, **kw):
        rng = headers["Range"]
        a, b = rng.split("=")[1].split("-")
        a, b = int(a), int(b)
        if self.sched is not None:
            self.sched.park("request", detail=str(a))
        if self.delay is not None:
            self.delay(a)
        if self.log is not None:
            self.log.append((a, b - a + 1))
        if a in self.fails and self.fail_kind(a) == "protocol":
            # a failure that is not an OSError (requests' own exceptions are): the connection broke mid-body
            import http.client
            raise http.client.IncompleteRead(b"", b - a + 1)
        status = 500
        if a in self.fails:
            kind = self.fail_kind(a)
            if kind.startswith("http") and kind[4:].isdigit():
                status = int(kind[4:])        # a refusal with that HTTP status (416, 403, 404, 429, 503 ...)
        return FakeResponse(self.data[a:b + 1], a in self.fails, status)

    def close(self):
        self.closed = True

    def mount(self, *a, **k):
        pass


class XFuture:
    def __init__(self, pool, index):
        self.pool, self.index = pool, index
        self.done = False
        self.value = None
        self.exc = None

    def result(self, timeout=None):
        self.pool.s.park("wait", lambda: self.done, detail=str(self.index))
        if self.exc is not None:
            raise self.exc
        return self.value


class XPool:
    """double of concurrent.futures.ThreadPoolExecutor as laspy.copc uses it (context manager, submit, futures'
    result()): FIFO work queue, up to max_workers threads, shutdown(wait=True) on exit; every hand-over is a
    scheduling point of the deterministic scheduler"""

    def __init__(self, sched, max_workers=None):
        self.s = sched
        self.max_workers = max_workers or 1
        self.queue = []
        self.threads = []
        self.shutdown_flag = False
        self.nsubmitted = 0

    def __enter__(self):
        return self

    def submit(self, fn, *args, **kwargs):
        fut = XFuture(self, self.nsubmitted)
        self.nsubmitted += 1
        self.queue.append((fut, fn, args, kwargs))
        if len(self.threads) < self.max_workers:
            tid = self.s.next_worker
            self.s.next_worker += 1
            self.s.announce(tid)
            th = threading.Thread(target=self._worker, args=(tid,))
            self.threads.append((tid, th))
            th.start()
        return fut

    def _worker(self, tid):
        self.s.adopt(tid)
        try:
            while True:
                self.s.park("take", lambda: bool(self.queue) or self.shutdown_flag)
                if self.queue:
                    fut, fn, args, kwargs = self.queue.pop(0)
                    try:
                        fut.value = fn(*args, **kwargs)
                    except Abort:
                        raise
                    except BaseException as e:
                        fut.exc = e
                    fut.done = True
                elif self.shutdown_flag:
                    break
        except Abort:
            pass
        finally:
            self.s.finish()

    def __exit__(self, exc_type, exc, tb):
        self.s.park("shutdown")
        self.shutdown_flag = True
        self.s.park("joinP", lambda: all(self.s.actors[tid].state == "finished" for tid, _ in self.threads))
        for _, th in self.threads:
            th.join(5)
        return False
