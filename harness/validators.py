"""Dense differential validation of a *pinned* generated unit against the live code.

Used when a unit of lean/LasModel/Gen/Funs.lean could not be regenerated from the source (the function was rewritten
outside the translator's subset) or when the proofs do not go through on its regenerated text (the rewrite uses other,
equivalent expressions): the theorems then stand for the pinned text, and the tie between that text and the code is
established here, by running both on a dense grid of inputs through the compiled driver. A disagreement is a concrete
failing input."""
import io


def validate_reader(ck):
    """Gen.Reader.seek (through the reader model) against the real LasReader.seek: counts 0..5 x cursors x positions -9..9
    x whence -1..4, on real readers over real files"""
    import laspy
    from . import fileio as fio
    lines, want, inputs = [], [], []
    for count in range(0, 6):
        las = fio.make_las(ck.rng, 2, 1, count)
        buf = io.BytesIO()
        las.write(buf)
        data = buf.getvalue()
        for cur in range(0, count + 1):
            for pos in list(range(-9, 10)) + [10 ** 6, -10 ** 6]:
                for whence in (-1, 0, 1, 2, 3, 4):
                    rd = laspy.open(io.BytesIO(data))
                    if cur:
                        rd.read_points(cur)
                    try:
                        got = f"cursor:{rd.seek(pos, whence)}"
                    except IndexError:
                        got = "IndexError"
                    except ValueError:
                        got = "ValueError"
                    except Exception as e:
                        got = "exc:" + type(e).__name__
                    got += f" | {rd.points_read}"
                    lines.append(f"rd run {count} " + (f"r:{cur} " if cur else "") + f"s:{pos}:{whence}")
                    want.append(got)
                    inputs.append({"count": count, "cursor": cur, "pos": pos, "whence": whence})
            for n in list(range(-3, count + 4)) + [10 ** 6]:
                rd = laspy.open(io.BytesIO(data))
                if cur:
                    rd.read_points(cur)
                pts = rd.read_points(n)
                lines.append(f"rd run {count} " + (f"r:{cur} " if cur else "") + f"r:{n}")
                want.append(f"slice:{cur}:{len(pts)} | {rd.points_read}")
                inputs.append({"count": count, "cursor": cur, "read": n})
    out = ck.driver(lines)
    if out is None or len(out) != len(lines):
        return False, 0, "driver did not run"
    for o, w, i in zip(out, want, inputs):
        # driver prints "<outs> | <final cursor>"; outs = [slice for the first read] + outcome of the last operation
        last_out = o.split(" | ")[0].split()[-1] + " | " + o.split(" | ")[1]
        if last_out != w:
            what = f"seek{(i['pos'], i['whence'])}" if "pos" in i else f"read_points({i['read']})"
            return False, len(lines), f"LasReader.{what} on {i['count']} points at cursor {i['cursor']}: code gives '{w}', pinned model '{last_out}'"
    return True, len(lines), ""


def validate_copc(ck):
    from laspy.copc import VoxelKey
    lines, want = [], []
    keys = [(l, x, y, z) for l in range(0, 3) for x in range(0, 4) for y in range(0, 4) for z in range(0, 4)]
    keys += [(ck.rng.randrange(0, 25), ck.rng.randrange(0, 2 ** 24), ck.rng.randrange(0, 2 ** 24), ck.rng.randrange(0, 2 ** 24)) for _ in range(300)]
    for k in keys:
        for d in range(8):
            vk = VoxelKey()
            vk.level, vk.x, vk.y, vk.z = k
            c = vk.child(d)
            lines.append(f"cp child {k[0]}.{k[1]}.{k[2]}.{k[3]} {d}")
            want.append(f"{c.level}.{c.x}.{c.y}.{c.z}")
    out = ck.driver(lines)
    if out is None or len(out) != len(lines):
        return False, 0, "driver did not run"
    for ln, o, w in zip(lines, out, want):
        if o.strip() != w:
            return False, len(lines), f"{ln}: code gives {w}, pinned model {o}"
    return True, len(lines), ""


def validate_compression(ck):
    from laspy._compression import format as cf
    lines, want = [], []
    for f in range(0, 128):
        c = cf.uncompressed_id_to_compressed(f)
        lines.append(f"cz bit {f}")
        want.append(f"{c} {int(cf.is_point_format_compressed(c))} {cf.compressed_id_to_uncompressed(c)} {int(cf.is_point_format_compressed(f))}")
    out = ck.driver(lines)
    if out is None or len(out) != len(lines):
        return False, 0, "driver did not run"
    for ln, o, w in zip(lines, out, want):
        if o.strip() != w:
            return False, len(lines), f"{ln}: code gives {w}, pinned model {o}"
    return True, len(lines), ""


# GE and Dims: the only properties that rest on them (C20; C07, C12) compare the pinned functions with the live code in their
# own correspondence run - exhaustively for GE (all 65536 field values x every flag assignment), on every (version, format)
# request for Dims - so no separate grid is needed: the fallback is accepted iff that correspondence holds.
VALIDATORS = {"Reader": validate_reader, "Copc": validate_copc, "Compression": validate_compression, "GE": None, "Dims": None}
