"""Dense differential validation of a *pinned* generated unit against the live code.

Used when a unit of lean/LasModel/Gen/Funs.lean could not be regenerated from the source (the function was rewritten
outside the translator's subset) or when the proofs do not go through on its regenerated text (the rewrite uses other,
equivalent expressions): the theorems then stand for the pinned text, and the tie between that text and the code is
established here, by running both on a dense grid of inputs through the compiled driver. A disagreement is a concrete
failing input."""
import io


def validate_reader(ck):
    """Gen.Reader.seek (through the reader model) against the real LasReader.seek: counts 0..5 x cursors x positions -9..9
    x whence -1..4, on real readers over real files"""
    import laspy
    from . import fileio as fio
    lines, want, inputs = [], [], []
    for count in range(0, 6):
        las = fio.make_las(ck.rng, 2, 1, count)
        buf = io.BytesIO()
        las.write(buf)
        data = buf.getvalue()
        for cur in range(0, count + 1):
            for pos in list(range(-9, 10)) + [10 ** 6, -10 ** 6]:
                for whence in (-1, 0, 1, 2, 3, 4):
                    rd = laspy.open(io.BytesIO(data))
                    if cur:
                        rd.read_points(cur)
                    try:
                        got = f"cursor:{rd.seek(pos, whence)}"
                    except IndexError:
                        got = "IndexError"
                    except ValueError:
                        got = "ValueError"
                    except Exception as e:
                        got = "exc:" + type(e).__name__
                    got += f" | {rd.points_read}"
                    lines.append(f"rd run {count} " + (f"r:{cur} " if cur else "") + f"s:{pos}:{whence}")
                    want.append(got)
                    inputs.append({"count": count, "cursor": cur, "pos": pos, "whence": whence})
            for n in list(range(-3, count + 4)) + [10 ** 6]:
                rd = laspy.open(io.BytesIO(data))
                if cur:
                    rd.read_points(cur)
                pts = rd.read_points(n)
                lines.append(f"rd run {count} " + (f"r:{cur} " if cur else "") + f"r:{n}")
                want.append(f"slice:{cur}:{len(pts)} | {rd.points_read}")
                inputs.append({"count": count, "cursor": cur, "read": n})
    out = ck.driver(lines)
    if out is None or len(out) != len(lines):
        return False, 0, "driver did not run"
    for o, w, i in zip(out, want, inputs):
        # driver prints "<outs> | <final cursor>"; outs = [slice for the first read] + outcome of the last operation
        last_out = o.split(" | ")[0].split()[-1] + " | " + o.split(" | ")[1]
        if last_out != w:
            what = f"seek{(i['pos'], i['whence'])}" if "pos" in i else f"read_points({i['read']})"
            return False, len(lines), f"LasReader.{what} on {i['count']} points at cursor {i['cursor']}: code gives '{w}', pinned model '{last_out}'"
    return True, len(lines), ""


def validate_copc(ck):
    from laspy.copc import VoxelKey
    lines, want = [], []
    keys = [(l, x, y, z) for l in range(0, 3) for x in range(0, 4) for y in range(0, 4) for z in range(0, 4)]
    keys += [(ck.rng.randrange(0, 25), ck.rng.randrange(0, 2 ** 24), ck.rng.randrange(0, 2 ** 24), ck.rng.randrange(0, 2 ** 24)) for _ in range(300)]
    for k in keys:
        for d in range(8):
            vk = VoxelKey()
            vk.level, vk.x, vk.y, vk.z = k
            c = vk.child(d)
            lines.append(f"cp child {k[0]}.{k[1]}.{k[2]}.{k[3]} {d}")
            want.append(f"{c.level}.{c.x}.{c.y}.{c.z}")
    out = ck.driver(lines)
    if out is None or len(out) != len(lines):
        return False, 0, "driver did not run"
    for ln, o, w in zip(lines, out, want):
        if o.strip() != w:
            return False, len(lines), f"{ln}: code gives {w}, pinned model {o}"
    return True, len(lines), ""


def validate_compression(ck):
    from laspy._compression import format as cf
    lines, want = [], []
    for f in range(0, 128):
        c = cf.uncompressed_id_to_compressed(f)
        lines.append(f"cz bit {f}")
        want.append(f"{c} {int(cf.is_point_format_compressed(c))} {cf.compressed_id_to_uncompressed(c)} {int(cf.is_point_format_compressed(f))}")
    out = ck.driver(lines)
    if out is None or len(out) != len(lines):
        return False, 0, "driver did not run"
    for ln, o, w in zip(lines, out, want):
        if o.strip() != w:
            return False, len(lines), f"{ln}: code gives {w}, pinned model {o}"
    return True, len(lines), ""




def validate_views(ck):
    """Gen.Views (operator tables of ArrayView / SubFieldView as pinned) against the live classes: every operator method, on a
    sub-field view and on a scaled view, with scalar and array operands, gives what the table's operator gives on the
    materialised array"""
    import operator
    import numpy as np
    import laspy
    out = ck.driver(["vw tables"])
    if not out:
        return False, 0, "driver did not run"
    tables = {}
    for part in out[0].split(" "):
        k, _, v = part.partition("=")
        tables[k] = [tuple(e.split(":", 1)) for e in v.split(",") if e]
    pyops = {"<": operator.lt, "<=": operator.le, ">": operator.gt, ">=": operator.ge, "==": operator.eq, "!=": operator.ne,
             "+": operator.add, "-": operator.sub, "*": operator.mul, "/": operator.truediv, "//": operator.floordiv}
    las = laspy.create(point_format=3)
    las.header.scales = np.array([0.5, 0.25, 2.0])
    las.header.offsets = np.array([10.0, -3.0, 0.0])
    n = 9
    las.points = laspy.ScaleAwarePointRecord.zeros(n, header=las.header)
    las.points.array["X"] = np.arange(-4, 5, dtype="i4") * 1000
    las.points.array["bit_fields"] = np.array([ck.rng.getrandbits(8) for _ in range(n)], dtype="u1")
    cases = 0

    def same(a, b):
        a, b = np.asarray(a), np.asarray(b)
        return a.shape == b.shape and bool(np.array_equal(a, b, equal_nan=True))

    for vname in ("return_number", "x"):
        view = las[vname]
        plain = np.array(view)
        for other in (2, 1.5 if vname == "x" else 3, np.arange(n) % 3 + 1):
            for method, op in tables.get("ops", []):
                if vname == "return_number" and method in ("__lt__", "__le__", "__gt__", "__ge__"):
                    continue        # overridden by the sub-field view (table `sub`)
                if vname == "x" and method in ("__lt__", "__le__", "__gt__", "__ge__", "__eq__", "__ne__"):
                    continue        # overridden by the scaled view: comparisons on the integer grid (excluded by the property)
                if op not in pyops:
                    return False, cases, f"unknown operator {op!r} in the pinned table"
                cases += 1
                with np.errstate(all="ignore"):
                    want = pyops[op](plain, other)
                    try:
                        got = getattr(view, method)(other)
                    except Exception as e:
                        return False, cases, (f"{type(view).__name__}.{method}({other!r:.40}) on {vname} raised {type(e).__name__}: {str(e)[:120]}; numpy on the "
                                              f"materialised values gives {np.asarray(want).tolist()[:4]}")
                if not same(got, want):
                    return False, cases, f"{type(view).__name__}.{method}({other!r:.40}): code gives {np.asarray(got).tolist()[:4]}, pinned table says operator {op}: {np.asarray(want).tolist()[:4]}"
        for method, name in tables.get("minmax", []):
            cases += 1
            if not same(getattr(type(view).__mro__[1], method)(view), getattr(plain, name)()):
                return False, cases, f"ArrayView.{method} on {vname}: code differs from the materialised array's {name}()"
    view = las["return_number"]
    plain = np.array(view)
    for method, name in tables.get("sub", []):
        for c in (-1, 0, 1, 3, 7, 8, np.int64(2), np.arange(n) % 4):
            cases += 1
            got, want = getattr(view, method)(c), getattr(operator, name)(plain, c)
            if not same(got, want):
                return False, cases, f"SubFieldView.{method}({c!r:.30}): code gives {np.asarray(got).tolist()[:5]}, pinned table says {name}: {np.asarray(want).tolist()[:5]}"
    return True, cases, ""


def validate_order(ck):
    """Gen.Order (pinned: the writer and the appender count points after the destination has taken them) against the live
    code: a session whose write of the point records fails completely is closed by its with-block; the header it leaves must
    advertise only the points of the writes that succeeded"""
    import io
    import laspy
    from . import fileio as fio
    from .props import c06, c19
    out = ck.driver(["od flags"])
    if not out:
        return False, 0, "driver did not run"
    flags = dict(kv.split("=") for kv in out[0].split())
    cases = 0
    for kind in ("writer", "appender"):
        if flags.get(kind) != "1":
            return False, cases, f"the pinned table says the {kind} counts before writing"
        for n_ok in (0, 2):
            las = fio.make_las(ck.rng, 2, 1, 3)
            base = io.BytesIO()
            if kind == "appender":
                las.write(base)
            initial = base.getvalue()
            probe = c19.Recorder(initial)
            probe.log = []
            def session(dest, n_ok=n_ok):
                dest.seek(0)
                if kind == "writer":
                    with laspy.open(dest, mode="w", header=las.header, closefd=False) as w:
                        if n_ok:
                            w.write_points(las.points[:n_ok])
                        w.write_points(las.points)
                else:
                    with laspy.open(dest, mode="a", closefd=False) as a:
                        if n_ok:
                            a.append_points(las.points[:n_ok])
                        a.append_points(las.points)
            session(probe)
            big = [i for i, (pos, d) in enumerate(probe.log) if len(d) == len(las.points) * las.header.point_format.size]
            if not big:
                return False, cases, f"{kind}: the write of the point records was not found in the write stream"
            dest = c19.FaultyRecorder(initial, big[-1], 0.0)
            try:
                session(dest)
            except OSError:
                pass
            cases += 1
            left = dest.getvalue()
            minor = left[25]
            count = int.from_bytes(left[247:255], "little") if minor >= 4 else int.from_bytes(left[107:111], "little")
            want = n_ok + (3 if kind == "appender" else 0)
            if count != want:
                return False, cases, (f"{kind} session whose last write of {len(las.points)} points failed completely, then closed: the header advertises "
                                      f"{count} points, {want} were written")
    return True, cases, ""


# GE and Dims: the only properties that rest on them (C20; C07, C12) compare the pinned functions with the live code in their
# own correspondence run - exhaustively for GE (all 65536 field values x every flag assignment), on every (version, format)
# request for Dims - so no separate grid is needed: the fallback is accepted iff that correspondence holds.

def validate_formateq(ck):
    """pinned unit FormatEq vs the live `PointFormat.__eq__` on pairs of formats that differ in one respect (and random ones)"""
    from . import formateq as fe
    import random
    rng = random.Random(20240601)
    cases = fe.pairs(rng, 200)
    lines, live, labels = [], [], []
    for label, ia, pa, ib, pb in cases:
        fa, fb = fe.build(ia, pa), fe.build(ib, pb)
        lines.append(fe.eq_line(fa, fb))
        live.append("1" if fa == fb else "0")
        labels.append((label, ia, ib, [p.name + ":" + str(p.type) for p in pa], [p.name + ":" + str(p.type) for p in pb]))
    out = ck.driver(lines)
    if out is None or len(out) != len(lines):
        return False, len(lines), "driver did not run"
    for lab, o, e in zip(labels, out, live):
        if o != e:
            return False, len(lines), f"PointFormat.__eq__ on {lab}: code gives {e}, pinned model {o}"
    return True, len(lines), ""

VALIDATORS = {"FormatEq": validate_formateq, "Reader": validate_reader, "Copc": validate_copc, "Compression": validate_compression, "GE": None, "Dims": None, "Views": validate_views, "Order": validate_order}
