#!/venv/bin/python
"""Translator (tie T): regenerates lean/LasModel/Gen/*.lean from the *live* laspy
package in /repo.

 * Tables.lean  - every table the theorems rest on, obtained by introspection of
                  the running objects (numpy dtypes, ctypes structs, dicts), not
                  by reading text.
 * Funs.lean    - a whitelisted set of small pure integer/bit functions translated
                  from their Python AST.

Output is deterministic; a file is rewritten only when its content changes, so an
unchanged tree gives a no-op `lake build`.

Anything outside the supported AST subset raises TranslationError: the obligation
"translation of f" is then broken and the check falls back to the failing-input
search.
"""
import ast
import re
import inspect
import json
import os
import sys
import textwrap

REPO = os.environ.get("VERIF_REPO", "/repo")
if REPO not in sys.path:
    sys.path.insert(0, REPO)

HERE = os.path.dirname(os.path.abspath(__file__))
GEN_DIR = os.path.join(os.path.dirname(HERE), "lean", "LasModel", "Gen")


class TranslationError(Exception):
    pass


# --------------------------------------------------------------------------
# Expression / statement compiler for the supported subset
# --------------------------------------------------------------------------

BINOPS = {
    ast.BitAnd: "&&&",
    ast.BitOr: "|||",
    ast.BitXor: "^^^",
    ast.LShift: "<<<",
    ast.RShift: ">>>",
    ast.Add: "+",
    ast.Mult: "*",
    ast.FloorDiv: "/",
    ast.Mod: "%",
}
CMPOPS = {
    ast.Eq: "==",
    ast.NotEq: "!=",
    ast.Lt: "<",
    ast.LtE: "<=",
    ast.Gt: ">",
    ast.GtE: ">=",
}


class Ctx:
    """Translation context for one function."""

    def __init__(self, consts, state_fields, methods, types, helpers=None):
        self.consts = consts  # attribute name -> lean name (class constants)
        self.state_fields = state_fields  # self.<field> -> current lean variable
        self.methods = methods  # self.<method> -> (lean name, mutates_state)
        self.types = dict(types)  # python local name -> 'Nat' | 'Bool' | 'Int'
        self.helpers = helpers or {}  # free function name -> lean name
        self.counter = 0
        self.all_int = False  # every number is a Python int of either sign (Lean Int)
        self.attr_map = {}  # dotted attribute path -> (lean term, type)
        self.ranges = {}  # local name bound to range(lo, hi) -> (lo term, hi term)
        self.skip_calls = set()  # dotted call targets whose effect is modelled elsewhere
        self.skip_assign = {}  # dotted assignment target -> required RHS name
        self.raises = False
        self.ret_type = None

    def fresh(self, base):
        self.counter += 1
        return f"{base}_{self.counter}"


def as_bool(ctx, node):
    """Python truthiness of an expression, as a Lean Bool term."""
    s, t = expr(ctx, node)
    if t == "Bool":
        return s
    if t in ("Nat", "Int"):
        return f"({s} != 0)"
    raise TranslationError(f"truthiness of type {t}")


def dotted(node):
    parts = []
    while isinstance(node, ast.Attribute):
        parts.append(node.attr)
        node = node.value
    if isinstance(node, ast.Name):
        parts.append(node.id)
        return ".".join(reversed(parts))
    return None


def expr(ctx, node):
    """returns (lean_term, type)"""
    if ctx.all_int:
        if isinstance(node, ast.Constant) and isinstance(node.value, int) and not isinstance(node.value, bool):
            return f"({node.value} : Int)", "Int"
        if isinstance(node, ast.Attribute) and dotted(node) in ctx.attr_map:
            return ctx.attr_map[dotted(node)]
        if isinstance(node, ast.UnaryOp) and isinstance(node.op, ast.USub):
            a, ta = expr(ctx, node.operand)
            if ta != "Int":
                raise TranslationError("unary minus on non-Int")
            return f"(-{a})", "Int"
        if isinstance(node, ast.BinOp) and isinstance(node.op, (ast.Add, ast.Sub, ast.Mult)):
            a, ta = expr(ctx, node.left)
            b, tb = expr(ctx, node.right)
            if ta != "Int" or tb != "Int":
                raise TranslationError(f"Int binop on {ta},{tb}")
            op = {ast.Add: "+", ast.Sub: "-", ast.Mult: "*"}[type(node.op)]
            return f"({a} {op} {b})", "Int"
        if isinstance(node, ast.Compare) and len(node.ops) == 1 and isinstance(node.ops[0], (ast.In, ast.NotIn)) \
                and isinstance(node.comparators[0], ast.Name) and node.comparators[0].id in ctx.ranges:
            x, tx = expr(ctx, node.left)
            lo, hi = ctx.ranges[node.comparators[0].id]
            t = f"(decide ({lo} ≤ {x}) && decide ({x} < {hi}))"
            if isinstance(node.ops[0], ast.NotIn):
                t = f"(!{t})"
            return t, "Bool"
    if isinstance(node, ast.Constant):
        if isinstance(node.value, bool):
            return ("true" if node.value else "false"), "Bool"
        if isinstance(node.value, int):
            if node.value < 0:
                raise TranslationError("negative literal")
            return str(node.value), "Nat"
        if isinstance(node.value, str):
            return json.dumps(node.value), "String"
        raise TranslationError(f"constant {node.value!r}")
    if isinstance(node, ast.Name):
        if node.id in ctx.types:
            return node.id, ctx.types[node.id]
        raise TranslationError(f"unknown name {node.id}")
    if isinstance(node, ast.Attribute):
        if isinstance(node.value, ast.Name) and node.value.id in ("self", "cls"):
            if node.attr in ctx.consts:
                return ctx.consts[node.attr], "Nat"
            if node.attr in ctx.state_fields:
                return ctx.state_fields[node.attr], "Nat"
        raise TranslationError(f"attribute {ast.dump(node)}")
    if isinstance(node, ast.BinOp):
        # a & ~b  ==> a ^^^ (a &&& b)   (exact for non-negative a, b)
        if isinstance(node.op, ast.BitAnd):
            for x, y in ((node.left, node.right), (node.right, node.left)):
                if isinstance(y, ast.UnaryOp) and isinstance(y.op, ast.Invert):
                    a, ta = expr(ctx, x)
                    b, tb = expr(ctx, y.operand)
                    if ta != "Nat" or tb != "Nat":
                        raise TranslationError("a & ~b on non-Nat")
                    return f"({a} ^^^ ({a} &&& {b}))", "Nat"
        if isinstance(node.op, ast.Pow):
            if isinstance(node.left, ast.Constant) and isinstance(
                node.right, ast.Constant
            ):
                return str(node.left.value**node.right.value), "Nat"
            raise TranslationError("non-constant power")
        if type(node.op) not in BINOPS:
            raise TranslationError(f"operator {type(node.op).__name__}")
        a, ta = expr(ctx, node.left)
        b, tb = expr(ctx, node.right)
        if ta != "Nat" or tb != "Nat":
            raise TranslationError(f"binop on {ta},{tb}")
        return f"({a} {BINOPS[type(node.op)]} {b})", "Nat"
    if isinstance(node, ast.UnaryOp):
        if isinstance(node.op, ast.Not):
            return f"(!{as_bool(ctx, node.operand)})", "Bool"
        raise TranslationError(f"unary {type(node.op).__name__}")
    if isinstance(node, ast.BoolOp):
        parts = [as_bool(ctx, v) for v in node.values]
        op = " && " if isinstance(node.op, ast.And) else " || "
        return "(" + op.join(parts) + ")", "Bool"
    if isinstance(node, ast.Compare):
        if len(node.ops) != 1:
            raise TranslationError("chained comparison")
        op = node.ops[0]
        left, right = node.left, node.comparators[0]
        if isinstance(op, ast.Is):
            # `bool(x) is True`
            if isinstance(right, ast.Constant) and right.value is True:
                s, t = expr(ctx, left)
                if t != "Bool":
                    raise TranslationError("`is True` on non-bool")
                return s, "Bool"
            raise TranslationError("`is` comparison")
        if isinstance(op, (ast.In, ast.NotIn)):
            # x in range(a, b) / inclusive_range(a, b)
            if isinstance(right, ast.Call) and isinstance(right.func, ast.Name):
                x, tx = expr(ctx, left)
                args = [expr(ctx, a) for a in right.args]
                if right.func.id == "range" and len(args) == 2:
                    s = f"(decide ({args[0][0]} ≤ {x}) && decide ({x} < {args[1][0]}))"
                elif right.func.id == "inclusive_range" and len(args) == 2:
                    s = f"(decide ({args[0][0]} ≤ {x}) && decide ({x} ≤ {args[1][0]}))"
                else:
                    raise TranslationError("in <call>")
                if isinstance(op, ast.NotIn):
                    s = f"(!{s})"
                return s, "Bool"
            raise TranslationError("`in` on non-range")
        if type(op) not in CMPOPS:
            raise TranslationError(f"cmp {type(op).__name__}")
        a, ta = expr(ctx, left)
        b, tb = expr(ctx, right)
        if ta != tb:
            raise TranslationError(f"cmp on {ta},{tb}")
        if isinstance(op, (ast.Eq, ast.NotEq)):
            return f"({a} {CMPOPS[type(op)]} {b})", "Bool"
        return f"(decide ({a} {CMPOPS[type(op)]} {b}))", "Bool"
    if isinstance(node, ast.Call):
        if isinstance(node.func, ast.Name):
            fn = node.func.id
            if fn == "bool" and len(node.args) == 1:
                return as_bool(ctx, node.args[0]), "Bool"
            if fn == "int" and len(node.args) == 1:
                s, t = expr(ctx, node.args[0])
                if t == "Bool":
                    return f"({s}).toNat", "Nat"
                return s, t
            if fn in ctx.helpers:
                lean_name, ret_t = ctx.helpers[fn]
                args = " ".join(expr(ctx, a)[0] for a in node.args)
                return f"({lean_name} {args})", ret_t
        raise TranslationError(f"call {ast.dump(node.func)}")
    raise TranslationError(f"expression {type(node).__name__}")


def block(ctx, stmts, result):
    """Compile a statement list to a Lean term.

    `result(ctx)` gives the term to use when control falls off the end
    (for state-mutating methods: the current state variable).
    """
    if not stmts:
        return result(ctx)
    s, rest = stmts[0], stmts[1:]
    if isinstance(s, ast.Expr) and isinstance(s.value, ast.Constant):
        return block(ctx, rest, result)  # docstring
    if isinstance(s, ast.Pass):
        return block(ctx, rest, result)
    if isinstance(s, ast.Return):
        if s.value is None:
            return result(ctx)
        t, ty = expr(ctx, s.value)
        ctx.ret_type = ty
        return t
    if isinstance(s, ast.AugAssign):
        tgt = s.target
        if (
            isinstance(tgt, ast.Attribute)
            and isinstance(tgt.value, ast.Name)
            and tgt.value.id == "self"
            and tgt.attr in ctx.state_fields
        ):
            cur = ctx.state_fields[tgt.attr]
            rhs = ast.BinOp(left=tgt, op=s.op, right=s.value)
            t, _ = expr(ctx, rhs)
            new = ctx.fresh(tgt.attr)
            saved = dict(ctx.state_fields)
            ctx.state_fields[tgt.attr] = new
            body = block(ctx, rest, result)
            ctx.state_fields = saved
            return f"let {new} := {t}\n{body}"
        raise TranslationError("augmented assignment target")
    if isinstance(s, ast.Assign) and len(s.targets) == 1 and isinstance(s.targets[0], ast.Name) \
            and isinstance(s.value, ast.Call) and isinstance(s.value.func, ast.Name) and s.value.func.id == "range" \
            and len(s.value.args) == 2:
        lo, tl = expr(ctx, s.value.args[0])
        hi, th = expr(ctx, s.value.args[1])
        saved = dict(ctx.ranges)
        ctx.ranges[s.targets[0].id] = (lo, hi)
        body = block(ctx, rest, result)
        ctx.ranges = saved
        return body
    if isinstance(s, ast.Assign) and len(s.targets) == 1 and dotted(s.targets[0]) in ctx.skip_assign:
        need = ctx.skip_assign[dotted(s.targets[0])]
        if not (isinstance(s.value, ast.Name) and s.value.id == need):
            raise TranslationError(f"{dotted(s.targets[0])} is assigned something other than {need}")
        ctx.seen_assign = getattr(ctx, "seen_assign", set()) | {dotted(s.targets[0])}
        return block(ctx, rest, result)
    if isinstance(s, ast.Expr) and isinstance(s.value, ast.Call) and dotted(s.value.func) in ctx.skip_calls:
        ctx.seen_calls = getattr(ctx, "seen_calls", []) + [(dotted(s.value.func), [ast.unparse(a) for a in s.value.args])]
        return block(ctx, rest, result)
    if isinstance(s, ast.Assign) and isinstance(s.value, ast.List) and all(
            isinstance(e, ast.Constant) and isinstance(e.value, str) for e in s.value.elts):
        return block(ctx, rest, result)  # message fragments, only used by `raise`
    if isinstance(s, ast.Assign):
        if len(s.targets) == 1 and isinstance(s.targets[0], ast.Name):
            name = s.targets[0].id
            t, ty = expr(ctx, s.value)
            saved = dict(ctx.types)
            ctx.types[name] = ty
            body = block(ctx, rest, result)
            ctx.types = saved
            return f"let {name} := {t}\n{body}"
        raise TranslationError("assignment target")
    if isinstance(s, ast.Expr) and isinstance(s.value, ast.Call):
        call = s.value
        f = call.func
        if (
            isinstance(f, ast.Attribute)
            and isinstance(f.value, ast.Name)
            and f.value.id == "self"
            and f.attr in ctx.methods
        ):
            lean_name, field = ctx.methods[f.attr]
            args = " ".join(expr(ctx, a)[0] for a in call.args)
            cur = ctx.state_fields[field]
            new = ctx.fresh(field)
            saved = dict(ctx.state_fields)
            ctx.state_fields[field] = new
            body = block(ctx, rest, result)
            ctx.state_fields = saved
            return f"let {new} := {lean_name} {cur} {args}\n{body}"
        raise TranslationError(f"statement call {ast.dump(f)}")
    if isinstance(s, ast.If):
        c = as_bool(ctx, s.test)
        # continuation is duplicated in both branches (functions are tiny)
        a = block(ctx, s.body + rest, result)
        b = block(ctx, s.orelse + rest, result)
        return f"if {c} then\n{textwrap.indent(a, '  ')}\nelse\n{textwrap.indent(b, '  ')}"
    if isinstance(s, ast.Raise):
        ctx.raises = True
        exc = s.exc
        name = "Error"
        if isinstance(exc, ast.Call):
            fn = exc.func
            name = fn.attr if isinstance(fn, ast.Attribute) else getattr(fn, "id", "Error")
        elif isinstance(exc, ast.Name):
            name = exc.id
        return f'RAISE "{name}"'
    if isinstance(s, ast.FunctionDef):
        # local helper such as inclusive_range: handled syntactically at use site
        return block(ctx, rest, result)
    raise TranslationError(f"statement {type(s).__name__}")


def get_funcdef(obj):
    src = textwrap.dedent(inspect.getsource(obj))
    tree = ast.parse(src)
    fd = tree.body[0]
    if not isinstance(fd, ast.FunctionDef):
        raise TranslationError("not a function")
    return fd


def finish(term, raises, ret_t):
    """Wrap RAISE markers into Except if the function can raise."""
    if raises:
        lines = []
        for ln in term.split("\n"):
            lines.append(ln)
        term = "\n".join(lines)
        return term, f"Except String {ret_t}"
    return term, ret_t


# --------------------------------------------------------------------------
# GlobalEncoding (C20)
# --------------------------------------------------------------------------


def gen_global_encoding(out):
    from laspy.header import GlobalEncoding

    out.append("namespace GE")
    consts = {}
    for name in sorted(vars(GlobalEncoding)):
        if name.endswith("_MASK"):
            val = getattr(GlobalEncoding, name)
            if not isinstance(val, int) or val < 0:
                raise TranslationError(f"mask {name} is not a non-negative int")
            out.append(f"def {name} : Nat := {val}")
            consts[name] = name
    out.append("")

    methods = {}
    # private mutators: (self, mask) / (self, mask, value)
    for mname, params in (
        ("_set_bit", [("mask", "Nat")]),
        ("_unset_bit", [("mask", "Nat")]),
        ("_set_if_true", [("mask", "Nat"), ("value", "Bool")]),
    ):
        fd = get_funcdef(getattr(GlobalEncoding, mname))
        pnames = [a.arg for a in fd.args.args[1:]]
        if pnames != [p for p, _ in params]:
            raise TranslationError(f"signature of {mname} changed: {pnames}")
        # the Python parameter called `value` would shadow the state; rename state
        ctx = Ctx(consts, {"value": "st"}, methods, dict(params))
        body = block(ctx, fd.body, lambda c: c.state_fields["value"])
        sig = " ".join(f"({p} : {t})" for p, t in params)
        out.append(f"def {mname} (st : Nat) {sig} : Nat :=")
        out.append(textwrap.indent(body, "  "))
        out.append("")
        methods[mname] = (mname, "value")

    flags = []
    for pname, prop in sorted(vars(GlobalEncoding).items()):
        if not isinstance(prop, property):
            continue
        is_gps = pname == "gps_time_type"
        # getter
        fd = get_funcdef(prop.fget)
        ctx = Ctx(consts, {"value": "st"}, methods, {},
                  helpers={"GpsTimeType": ("id", "Nat")})
        body = block(ctx, fd.body, lambda c: (_ for _ in ()).throw(TranslationError("getter falls through")))
        rt = "Nat" if is_gps else "Bool"
        if ctx.ret_type != rt:
            raise TranslationError(f"getter {pname} returns {ctx.ret_type}")
        out.append(f"def get_{pname} (st : Nat) : {rt} :=")
        out.append(textwrap.indent(body, "  "))
        out.append("")
        # setter
        fd = get_funcdef(prop.fset)
        vt = "Nat" if is_gps else "Bool"
        ctx = Ctx(consts, {"value": "st"}, methods, {"value": vt})
        body = block(ctx, fd.body, lambda c: c.state_fields["value"])
        out.append(f"def set_{pname} (st : Nat) (value : {vt}) : Nat :=")
        out.append(textwrap.indent(body, "  "))
        out.append("")
        # which mask does this flag use?  (found in the getter's source)
        used = [n.attr for n in ast.walk(get_funcdef(prop.fget)) if isinstance(n, ast.Attribute) and n.attr in consts]
        if len(set(used)) != 1:
            raise TranslationError(f"getter {pname} uses masks {used}")
        flags.append((pname, used[0]))
    out.append("/-- (flag name, mask) pairs, from the getters -/")
    out.append("def flagMasks : List (String × Nat) := [" + ", ".join(f'("{n}", {m})' for n, m in flags) + "]")
    out.append("end GE")
    out.append("")
    return flags


# --------------------------------------------------------------------------
# small free functions
# --------------------------------------------------------------------------


def gen_free_function(out, fn, params, lean_name=None, helpers=None):
    fd = get_funcdef(fn)
    pnames = [a.arg for a in fd.args.args]
    if pnames != [p for p, _ in params]:
        raise TranslationError(f"signature of {fn.__name__} changed: {pnames}")
    ctx = Ctx({}, {}, {}, dict(params), helpers=helpers)
    ctx.raises = False
    ctx.ret_type = None

    def fallthrough(c):
        raise TranslationError(f"{fn.__name__}: control falls off the end")

    body = block(ctx, fd.body, fallthrough)
    rt = ctx.ret_type
    if ctx.raises:
        body = body.replace('RAISE "', 'Except.error "')
        # wrap plain returns: we only support the shape  if..then ret else if.. else raise
        body = wrap_ok(body)
        rts = f"Except String {rt}"
    else:
        rts = rt
    sig = " ".join(f"({p} : {t})" for p, t in params)
    out.append(f"def {lean_name or fn.__name__} {sig} : {rts} :=")
    out.append(textwrap.indent(body, "  "))
    out.append("")


def wrap_ok(body):
    lines = body.split("\n")
    res = []
    for ln in lines:
        st = ln.strip()
        if st.startswith(("if ", "else", "let ", "Except.error")) or st == "":
            res.append(ln)
        else:
            ind = ln[: len(ln) - len(ln.lstrip())]
            res.append(f"{ind}Except.ok {st}")
    return "\n".join(res)


def gen_reader_seek(out):
    """LasReader.seek(pos, whence): the range tests and the new cursor, over Python ints"""
    from laspy.lasreader import LasReader
    fd = get_funcdef(LasReader.seek)
    pnames = [a.arg for a in fd.args.args]
    if pnames != ["self", "pos", "whence"]:
        raise TranslationError(f"signature of LasReader.seek changed: {pnames}")
    ctx = Ctx({}, {}, {}, {"pos": "Int", "whence": "Int"})
    ctx.all_int = True
    ctx.attr_map = {"self.header.point_count": ("point_count", "Int"), "self.points_read": ("points_read", "Int"),
                    "io.SEEK_SET": ("(0 : Int)", "Int"), "io.SEEK_CUR": ("(1 : Int)", "Int"), "io.SEEK_END": ("(2 : Int)", "Int")}
    ctx.skip_calls = {"self.point_source.seek"}
    ctx.skip_assign = {"self.points_read": "point_index"}

    def fallthrough(c):
        raise TranslationError("LasReader.seek: control falls off the end")

    body = block(ctx, fd.body, fallthrough)
    if ctx.ret_type != "Int" or not ctx.raises:
        raise TranslationError("LasReader.seek: unexpected shape")
    if getattr(ctx, "seen_assign", set()) != {"self.points_read"}:
        raise TranslationError("LasReader.seek no longer stores the new cursor in self.points_read")
    calls = getattr(ctx, "seen_calls", [])
    if not calls or any(c != ("self.point_source.seek", ["point_index"]) for c in calls):
        raise TranslationError(f"LasReader.seek: point source is sought with {calls}")
    rets = [n for n in ast.walk(fd) if isinstance(n, ast.Return)]
    if len(rets) != 1 or not (isinstance(rets[0].value, ast.Name) and rets[0].value.id == "point_index"):
        raise TranslationError("LasReader.seek no longer returns point_index")
    body = wrap_ok(body.replace('RAISE "', 'Except.error "'))
    out.append("namespace Reader")
    out.append("/-- `LasReader.seek`: returns the new cursor (also stored in `points_read` and handed to the point source) -/")
    out.append("def seek (point_count points_read pos whence : Int) : Except String Int :=")
    out.append(textwrap.indent(body, "  "))
    out.append("end Reader")
    out.append("")


def unit_ge():
    out = []
    gen_global_encoding(out)
    return "\n".join(out)


def unit_compression():
    from laspy._compression import format as cfmt
    out = ["namespace Compression"]
    for name in ("is_point_format_compressed", "compressed_id_to_uncompressed", "uncompressed_id_to_compressed"):
        gen_free_function(out, getattr(cfmt, name), [("point_format_id", "Nat")])
    out.append("end Compression")
    out.append("")
    return "\n".join(out)


def unit_dims():
    from laspy.point import dims
    out = ["namespace Dims"]
    gen_free_function(out, dims.preferred_file_version_for_point_format, [("point_format_id", "Nat")])
    out.append("end Dims")
    out.append("")
    return "\n".join(out)


def unit_copc():
    # VoxelKey.child: assignments to key.<f> of expressions over self.<f>, dir
    from laspy.copc import VoxelKey
    out = []
    fd = get_funcdef(VoxelKey.child)
    fields = {}
    ctx = Ctx({}, {"level": "level", "x": "x", "y": "y", "z": "z"}, {}, {"dir": "Nat"})
    for s in fd.body:
        if isinstance(s, ast.Assign) and isinstance(s.targets[0], ast.Attribute):
            tgt = s.targets[0]
            if isinstance(tgt.value, ast.Name) and tgt.value.id == "key":
                fields[tgt.attr] = expr(ctx, s.value)[0]
                continue
        if isinstance(s, ast.Assign) and isinstance(s.targets[0], ast.Name) and s.targets[0].id == "key":
            continue
        if isinstance(s, ast.Return):
            continue
        raise TranslationError(f"VoxelKey.child: statement {ast.dump(s)}")
    if sorted(fields) != ["level", "x", "y", "z"]:
        raise TranslationError(f"VoxelKey.child assigns {sorted(fields)}")
    out.append("namespace Copc")
    out.append("structure Key where\n  level : Nat\n  x : Nat\n  y : Nat\n  z : Nat\nderiving DecidableEq, Repr, BEq, Hashable")
    out.append("def child (k : Key) (dir : Nat) : Key :=")
    out.append("  let level := k.level; let x := k.x; let y := k.y; let z := k.z")
    out.append("  { level := " + fields["level"] + ", x := " + fields["x"] + ", y := " + fields["y"] + ", z := " + fields["z"] + " }")
    out.append("end Copc")
    out.append("")
    return "\n".join(out)


def gen_reader_read_points(out):
    """LasReader.read_points(n): the cursor arithmetic - how many points are asked of the point source and where the cursor
    ends - sliced out of the method (record construction, logging and the lazily created point source are not integers)"""
    from laspy.lasreader import LasReader
    fd = get_funcdef(LasReader.read_points)
    if [a.arg for a in fd.args.args] != ["self", "n"]:
        raise TranslationError("signature of LasReader.read_points changed")
    ctx = Ctx({}, {}, {}, {"n": "Int"})
    ctx.all_int = True
    ctx.attr_map = {"self.header.point_count": ("point_count", "Int"), "self.points_read": ("points_read", "Int")}
    seen = {"requested": False, "cursor": False}

    def ex(node):
        if isinstance(node, ast.Call) and isinstance(node.func, ast.Name) and node.func.id == "min" and len(node.args) == 2:
            return f"(min {ex(node.args[0])} {ex(node.args[1])})"
        return expr(ctx, node)[0]

    def source_request(node):
        for sub in ast.walk(node):
            if isinstance(sub, ast.Call) and dotted(sub.func) == "self.point_source.read_n_points" and len(sub.args) == 1:
                return sub.args[0]
        return None

    def only_logging(stmts):
        return all(isinstance(t, ast.Expr) and isinstance(t.value, ast.Call) and (dotted(t.value.func) or "").startswith("logger.") for t in stmts)

    def comp(stmts, have_req, have_cur):
        if not stmts:
            raise TranslationError("LasReader.read_points: control falls off the end")
        s, rest = stmts[0], stmts[1:]
        if isinstance(s, ast.Expr) and isinstance(s.value, ast.Constant):
            return comp(rest, have_req, have_cur)
        if isinstance(s, ast.Assign) and len(s.targets) == 1 and isinstance(s.targets[0], ast.Name):
            name = s.targets[0].id
            if name == "_":
                return comp(rest, have_req, have_cur)
            req = source_request(s.value)
            if req is not None:
                if have_req:
                    raise TranslationError("LasReader.read_points asks the point source twice")
                seen["requested"] = True
                return f"let requested := {ex(req)}\n" + comp(rest, True, have_cur)
            if isinstance(s.value, ast.Call) and (dotted(s.value.func) or "").startswith("record."):
                return comp(rest, have_req, have_cur)          # building the returned record
            term = ex(s.value)
            ctx.types[name] = "Int"
            return f"let {name} := {term}\n" + comp(rest, have_req, have_cur)
        if isinstance(s, ast.AugAssign) and dotted(s.target) == "self.points_read" and isinstance(s.op, ast.Add):
            seen["cursor"] = True
            return f"let cursor := points_read + {ex(s.value)}\n" + comp(rest, have_req, True)
        if isinstance(s, ast.Assign) and len(s.targets) == 1 and dotted(s.targets[0]) == "self.points_read":
            seen["cursor"] = True
            return f"let cursor := {ex(s.value)}\n" + comp(rest, have_req, True)
        if isinstance(s, ast.If):
            if not s.orelse and only_logging(s.body):
                return comp(rest, have_req, have_cur)
            c = as_bool(ctx, s.test)
            a = comp(s.body + rest, have_req, have_cur)
            b = comp(s.orelse + rest, have_req, have_cur)
            return f"if {c} then\n{textwrap.indent(a, '  ')}\nelse\n{textwrap.indent(b, '  ')}"
        if isinstance(s, ast.Return):
            v = s.value
            if isinstance(v, ast.Call) and (dotted(v.func) or "").endswith(".empty"):
                if have_req or have_cur:
                    raise TranslationError("LasReader.read_points returns an empty record after touching the source or the cursor")
                return "none"
            if isinstance(v, ast.Name):
                if not (have_req and have_cur):
                    raise TranslationError("LasReader.read_points returns points without reading the source and moving the cursor")
                return "some (requested, cursor)"
            raise TranslationError("LasReader.read_points: unexpected return")
        raise TranslationError(f"LasReader.read_points: statement {type(s).__name__}")

    body = comp(fd.body, False, False)
    if not (seen["requested"] and seen["cursor"]):
        raise TranslationError("LasReader.read_points: no source request / cursor update found")
    out.append("namespace Reader")
    out.append("/-- `LasReader.read_points(n)`: `none` = an empty record is returned without reading; `some (k, c)` = `k` points are asked")
    out.append("    of the point source and the cursor becomes `c` -/")
    out.append("def read_points (point_count points_read n : Int) : Option (Int × Int) :=")
    out.append(textwrap.indent(body, "  "))
    out.append("end Reader")
    out.append("")


def unit_reader():
    out = []
    gen_reader_seek(out)
    gen_reader_read_points(out)
    return "\n".join(out)


_AST_OPS = {"Lt": "<", "LtE": "<=", "Gt": ">", "GtE": ">=", "Eq": "==", "NotEq": "!=", "Add": "+", "Sub": "-", "Mult": "*",
            "Div": "/", "FloorDiv": "//", "Mod": "%", "Pow": "**", "BitAnd": "&", "BitOr": "|", "BitXor": "^",
            "LShift": "<<", "RShift": ">>", "MatMult": "@"}


def unit_views():
    """the operator methods of the dimension views (laspy/point/dims.py): which numpy operator / comparison each special
    method hands its operands to. `ArrayView.__op__` must be `return np.array(self) <op> other`; the sub-field and scaled
    views route their comparisons through `_do_comparison` with an operator (object or method name)."""
    import ast
    import inspect
    import textwrap
    from laspy.point import dims

    def methods(cls):
        tree = ast.parse(textwrap.dedent(inspect.getsource(cls)))
        return {n.name: n for n in tree.body[0].body if isinstance(n, ast.FunctionDef)}

    def is_materialised_self(node):
        return (isinstance(node, ast.Call) and dotted(node.func) == "np.array" and len(node.args) == 1 and not node.keywords
                and isinstance(node.args[0], ast.Name) and node.args[0].id == "self")

    def single_return(fd):
        body = [s for s in fd.body if not (isinstance(s, ast.Expr) and isinstance(s.value, ast.Constant))]
        if len(body) != 1 or not isinstance(body[0], ast.Return):
            raise TranslationError(f"{fd.name}: not a single return statement")
        return body[0].value

    out = ["namespace Views"]
    rows = []
    for name, fd in methods(dims.ArrayView).items():
        if not (name.startswith("__") and name.endswith("__")) or name in ("__init__", "__array__", "__getitem__", "__setitem__",
                                                                            "__array_ufunc__", "__array_function__", "__len__", "__repr__"):
            continue
        v = single_return(fd)
        other = fd.args.args[1].arg if len(fd.args.args) == 2 else None
        if isinstance(v, ast.Compare) and len(v.ops) == 1 and is_materialised_self(v.left) and isinstance(v.comparators[0], ast.Name) \
                and v.comparators[0].id == other:
            rows.append((name, _AST_OPS[type(v.ops[0]).__name__]))
        elif isinstance(v, ast.BinOp) and is_materialised_self(v.left) and isinstance(v.right, ast.Name) and v.right.id == other:
            rows.append((name, _AST_OPS[type(v.op).__name__]))
        else:
            raise TranslationError(f"ArrayView.{name}: not `np.array(self) <op> other`")
    out.append("def arrayViewOps : List (String × String) := " + lean_list(f"({lean_str(a)}, {lean_str(b)})" for a, b in rows))
    rows = []
    for name in ("max", "min"):
        v = single_return(methods(dims.ArrayView)[name])
        if not (isinstance(v, ast.Call) and isinstance(v.func, ast.Attribute) and is_materialised_self(v.func.value)):
            raise TranslationError(f"ArrayView.{name}: not a method of the materialised array")
        rows.append((name, v.func.attr))
    out.append("def arrayViewMinMax : List (String × String) := " + lean_list(f"({lean_str(a)}, {lean_str(b)})" for a, b in rows))
    for cls, lean_name in ((dims.SubFieldView, "subFieldCmp"), (dims.ScaledArrayView, "scaledCmp")):
        rows = []
        for name, fd in methods(cls).items():
            if name not in ("__lt__", "__le__", "__gt__", "__ge__", "__eq__", "__ne__"):
                continue
            v = single_return(fd)
            if not (isinstance(v, ast.Call) and dotted(v.func) == "self._do_comparison" and len(v.args) == 2
                    and isinstance(v.args[0], ast.Name) and v.args[0].id == fd.args.args[1].arg):
                raise TranslationError(f"{cls.__name__}.{name}: not `self._do_comparison(other, <operator>)`")
            a = v.args[1]
            if isinstance(a, ast.Constant) and isinstance(a.value, str):
                opn = a.value.strip("_")
            elif dotted(a).startswith("operator."):
                opn = dotted(a).split(".", 1)[1]
            else:
                raise TranslationError(f"{cls.__name__}.{name}: operator argument not recognised")
            rows.append((name, opn))
        out.append(f"def {lean_name} : List (String × String) := " + lean_list(f"({lean_str(a)}, {lean_str(b)})" for a, b in rows))
    out.append("end Views")
    out.append("")
    return "\n".join(out)


def unit_order():
    """the order in which `LasWriter.write_points` and `LasAppender.append_points` count the points (`header.grow`) and hand them
    to the destination: the header written by `close()` after a failed write must not advertise that write's points (C19)"""
    import ast
    import inspect
    import textwrap
    from laspy.lasappender import LasAppender
    from laspy.laswriter import LasWriter

    def after_write(fn, write_call):
        fd = ast.parse(textwrap.dedent(inspect.getsource(fn))).body[0]
        gi, wi = [], []
        stmts = []
        for st in fd.body:       # statements of the method body itself - or of the body of a top-level `try ... finally` (no handlers,
            # so nothing is swallowed): both calls are unconditional, and a failing hand-over skips the counting
            if isinstance(st, ast.Try) and not st.handlers and not st.orelse:
                stmts.extend(st.body)
            else:
                stmts.append(st)
        for idx, st in enumerate(stmts):
            if isinstance(st, ast.Expr) and isinstance(st.value, ast.Call):
                d = dotted(st.value.func)
                if d == "self.header.grow":
                    gi.append(idx)
                elif d == write_call:
                    wi.append(idx)
        if len(gi) != 1 or len(wi) != 1:
            raise TranslationError(f"{fn.__qualname__}: expected one unconditional `self.header.grow(...)` and one `{write_call}(...)`")
        return gi[0] > wi[0]

    w = after_write(LasWriter.write_points, "self.point_writer.write_points")
    a = after_write(LasAppender.append_points, "self.points_appender.append_points")
    return "\n".join(["namespace Order",
                      f"def writerCountsAfterWrite : Bool := {'true' if w else 'false'}",
                      f"def appenderCountsAfterWrite : Bool := {'true' if a else 'false'}",
                      "end Order", ""])


def unit_selection():
    """`DecompressionSelection` (laspy/_compression/selection.py): the flag values, `all()`/`base()`, what the generated
    `skip_<flag>` / `decompress_<flag>` methods do, and - from the AST of `to_lazrs` / `to_laszip` - which backend constant each
    flag is translated to, the constant that is always set, and the shape of the loop that combines them."""
    import ast
    import inspect
    import textwrap
    from laspy._compression.selection import DecompressionSelection as DS

    flags = [(m.name, int(m.value)) for m in DS]
    if [v for _, v in flags] != [1 << i for i in range(len(flags))]:
        raise TranslationError("DecompressionSelection: members are not 1, 2, 4, ... in definition order")
    skips, decs = [], []
    for n, v in flags:
        skips.append((n, int(getattr(DS.all(), "skip_" + n.lower())())))
        decs.append((n, int(getattr(DS.base(), "decompress_" + n.lower())())))

    def mapping(fn, module):
        fd = ast.parse(textwrap.dedent(inspect.getsource(fn))).body[0]
        body = [st for st in fd.body if not isinstance(st, (ast.Import, ast.ImportFrom))
                and not (isinstance(st, ast.Expr) and isinstance(st.value, ast.Constant))]
        if len(body) != 4:
            raise TranslationError(f"{fn.__qualname__}: expected mapping, initial value, loop, return")
        d, init, loop, ret = body
        if not (isinstance(d, ast.Assign) and isinstance(d.value, ast.Dict) and isinstance(d.targets[0], ast.Name)):
            raise TranslationError(f"{fn.__qualname__}: first statement is not a dict assignment")
        dname = d.targets[0].id
        pairs = []
        for k, v in zip(d.value.keys, d.value.values):
            kd, vd = dotted(k), dotted(v)
            if not (kd and kd.startswith("DecompressionSelection.") and vd and vd.startswith(module + ".")):
                raise TranslationError(f"{fn.__qualname__}: unexpected mapping entry")
            pairs.append((kd.split(".", 1)[1], vd.split(".", 1)[1]))
        if not (isinstance(init, ast.Assign) and isinstance(init.targets[0], ast.Name) and dotted(init.value)
                and dotted(init.value).startswith(module + ".")):
            raise TranslationError(f"{fn.__qualname__}: initial value is not a constant of {module}")
        acc = init.targets[0].id
        always = dotted(init.value).split(".", 1)[1]
        ok = (isinstance(loop, ast.For) and isinstance(loop.target, ast.Name) and dotted(loop.iter) == "DecompressionSelection"
              and len(loop.body) == 1 and not loop.orelse and isinstance(loop.body[0], ast.AugAssign)
              and isinstance(loop.body[0].op, ast.BitOr) and isinstance(loop.body[0].target, ast.Name) and loop.body[0].target.id == acc)
        if ok:
            var = loop.target.id
            e = loop.body[0].value
            ok = (isinstance(e, ast.IfExp) and isinstance(e.test, ast.Call) and dotted(e.test.func) == "self.is_set"
                  and len(e.test.args) == 1 and isinstance(e.test.args[0], ast.Name) and e.test.args[0].id == var
                  and isinstance(e.body, ast.Subscript) and isinstance(e.body.value, ast.Name) and e.body.value.id == dname
                  and isinstance(e.body.slice, ast.Name) and e.body.slice.id == var
                  and isinstance(e.orelse, ast.Constant) and e.orelse.value == 0)
        if not ok:
            raise TranslationError(f"{fn.__qualname__}: the loop is not `for v in DecompressionSelection: acc |= mapping[v] if self.is_set(v) else 0`")
        r = ret.value if isinstance(ret, ast.Return) else None
        if isinstance(r, ast.Call) and len(r.args) == 1 and not r.keywords:
            r = r.args[0]                     # lazrs.DecompressionSelection(acc)
        if not (isinstance(r, ast.Name) and r.id == acc):
            raise TranslationError(f"{fn.__qualname__}: does not return the accumulated value")
        return pairs, always

    # is_set / _set / _unset as installed by the decorator, on all pairs of single flags and the extremes
    for n, v in flags:
        for m, w in flags:
            a = DS(v)
            if int(a._set(DS(w))) != (v | w) or int(DS.all()._unset(DS(w))) != (int(DS.all()) & ~w) or bool(a.is_set(DS(w))) != (v & w != 0):
                raise TranslationError("DecompressionSelection: _set/_unset/is_set are not |, & ~, & != 0")
    lz, lz_always = mapping(DS.to_lazrs, "lazrs")
    lp, lp_always = mapping(DS.to_laszip, "laszip")
    pl = lambda xs: lean_list(f"({lean_str(a)}, {lean_str(b) if isinstance(b, str) else b})" for a, b in xs)
    return "\n".join(["namespace Selection",
                      f"def flags : List (String × Nat) := {pl(flags)}",
                      f"def allValue : Nat := {int(DS.all())}",
                      f"def baseValue : Nat := {int(DS.base())}",
                      f"def skipFromAll : List (String × Nat) := {pl(skips)}",
                      f"def decompressFromBase : List (String × Nat) := {pl(decs)}",
                      f"def lazrsMap : List (String × String) := {pl(lz)}",
                      f"def lazrsAlways : String := {lean_str(lz_always)}",
                      f"def laszipMap : List (String × String) := {pl(lp)}",
                      f"def laszipAlways : String := {lean_str(lp_always)}",
                      "end Selection", ""])


def unit_formateq():
    """what makes two point formats equal for the writer's and the appender's refusal of foreign records: the attributes compared by
    `DimensionInfo.__eq__` (a conjunction of `self.a == other.a` / `np.all(self.a == other.a)`) and the shape of `PointFormat.__eq__`
    (ids first; the extra dimensions paired by `zip_longest`, a missing partner or an unequal pair gives False; otherwise True)"""
    import ast
    import inspect
    import textwrap
    from laspy.point.dims import DimensionInfo
    from laspy.point.format import PointFormat

    fd = ast.parse(textwrap.dedent(inspect.getsource(DimensionInfo.__eq__))).body[0]
    body = [st for st in fd.body if not (isinstance(st, ast.Expr) and isinstance(st.value, ast.Constant))]
    if len(body) != 1 or not isinstance(body[0], ast.Return):
        raise TranslationError("DimensionInfo.__eq__: expected a single return")
    e = body[0].value
    conj = e.values if isinstance(e, ast.BoolOp) and isinstance(e.op, ast.And) else [e]
    fields = []
    for c in conj:
        if isinstance(c, ast.Call) and dotted(c.func) in ("np.all", "numpy.all") and len(c.args) == 1 and not c.keywords:
            c = c.args[0]
        if not (isinstance(c, ast.Compare) and len(c.ops) == 1 and isinstance(c.ops[0], ast.Eq)):
            raise TranslationError("DimensionInfo.__eq__: a conjunct is not an equality")
        l, r = dotted(c.left), dotted(c.comparators[0])
        if not (l and r and l.startswith("self.") and r.startswith("other.") and l[5:] == r[6:]):
            raise TranslationError("DimensionInfo.__eq__: a conjunct does not compare the same attribute of self and other")
        fields.append(l[5:])
    # the attributes are the NamedTuple's own fields or derived from them alone
    tuple_fields = list(DimensionInfo._fields)

    fd = ast.parse(textwrap.dedent(inspect.getsource(PointFormat.__eq__))).body[0]
    body = [st for st in fd.body if not (isinstance(st, ast.Expr) and isinstance(st.value, ast.Constant))]
    other = fd.args.args[1].arg

    def returns(st, val):
        return isinstance(st, ast.Return) and isinstance(st.value, ast.Constant) and st.value.value is val

    ok = len(body) == 3
    if ok:
        a, loop, last = body
        ok = (isinstance(a, ast.If) and isinstance(a.test, ast.Compare) and isinstance(a.test.ops[0], ast.NotEq)
              and {dotted(a.test.left), dotted(a.test.comparators[0])} == {"self.id", other + ".id"} and len(a.body) == 1 and returns(a.body[0], False)
              and not a.orelse and returns(last, True) and isinstance(loop, ast.For) and not loop.orelse)
    if not ok:
        raise TranslationError("PointFormat.__eq__: expected `if self.id != other.id: return False`, a loop over the paired extra dimensions, `return True`")
    it = loop.iter
    if not (isinstance(it, ast.Call) and dotted(it.func) in ("zip_longest", "itertools.zip_longest", "zip") and len(it.args) == 2 and not it.keywords
            and {dotted(it.args[0]), dotted(it.args[1])} == {"self.extra_dimensions", other + ".extra_dimensions"}
            and isinstance(loop.target, ast.Tuple) and len(loop.target.elts) == 2):
        raise TranslationError("PointFormat.__eq__: the loop does not pair self.extra_dimensions with other.extra_dimensions")
    longest = dotted(it.func) != "zip"
    x, y = (t.id for t in loop.target.elts)
    none_false, ne_false = False, False
    for st in loop.body:
        if not (isinstance(st, ast.If) and len(st.body) == 1 and returns(st.body[0], False) and not st.orelse):
            raise TranslationError("PointFormat.__eq__: unexpected statement in the loop")
        t = st.test
        if isinstance(t, ast.BoolOp) and isinstance(t.op, ast.Or) and len(t.values) == 2 and all(
                isinstance(v, ast.Compare) and isinstance(v.ops[0], ast.Is) and isinstance(v.comparators[0], ast.Constant)
                and v.comparators[0].value is None for v in t.values) and {t.values[0].left.id, t.values[1].left.id} == {x, y}:
            none_false = True
        elif isinstance(t, ast.Compare) and isinstance(t.ops[0], ast.NotEq) and {dotted(t.left), dotted(t.comparators[0])} == {x, y}:
            ne_false = True
        else:
            raise TranslationError("PointFormat.__eq__: unexpected test in the loop")
    if not ne_false:
        raise TranslationError("PointFormat.__eq__: unequal pairs are not refused")
    return "\n".join(["namespace FormatEq",
                      f"def dimFields : List String := {lean_list(lean_str(f) for f in fields)}",
                      f"def tupleFields : List String := {lean_list(lean_str(f) for f in tuple_fields)}",
                      "def comparesId : Bool := true",
                      f"def pairsAll : Bool := {'true' if (longest and none_false) else 'false'}",
                      "end FormatEq", ""])


FUN_UNITS = [("GE", unit_ge), ("Compression", unit_compression), ("Dims", unit_dims), ("Copc", unit_copc), ("Reader", unit_reader),
             ("Views", unit_views), ("Order", unit_order), ("Selection", unit_selection), ("FormatEq", unit_formateq)]


# --------------------------------------------------------------------------
# Tables
# --------------------------------------------------------------------------


def lean_str(s):
    return json.dumps(s)


def lean_list(items):
    return "[" + ", ".join(items) + "]"


def _t_prelude():
    return None


def tunit_dims():
    import numpy as np
    import laspy
    from laspy import header as H
    from laspy import extradims
    from laspy.point import dims, packing
    from laspy.point.format import PointFormat
    from laspy.vlrs import vlrlist, known
    kind_id = {"i": 0, "u": 1, "f": 2}
    fmts = sorted(dims.POINT_FORMAT_DIMENSIONS.keys())
    out = []
    out.append("/-- kind of a dimension: 0 = signed int, 1 = unsigned int, 2 = float -/")
    out.append("abbrev Kind := Nat")
    out.append("")
    out.append("def formatIds : List Nat := " + lean_list(map(str, fmts)))

    # dimension name -> (kind, itemsize)
    items = []
    for name, dt in dims.DIMENSIONS_TO_TYPE.items():
        items.append(f"({lean_str(name)}, {kind_id[dt.kind]}, {dt.itemsize})")
    out.append("def dimTypes : List (String × Kind × Nat) := " + lean_list(items))

    # format -> ordered dimension names
    out.append("def formatDims : Nat → List String")
    for f in fmts:
        out.append(f"  | {f} => " + lean_list(lean_str(n) for n in dims.POINT_FORMAT_DIMENSIONS[f]))
    out.append("  | _ => []")

    # record layout as numpy lays it out
    out.append("/-- (name, offset, width, kind) as numpy lays the record out -/")
    out.append("def recLayout : Nat → List (String × Nat × Nat × Kind)")
    for f in fmts:
        dt = dims.ALL_POINT_FORMATS_DTYPE[f]
        rows = []
        for name in dt.names:
            fdt, off = dt.fields[name][0], dt.fields[name][1]
            rows.append(f"({lean_str(name)}, {off}, {fdt.itemsize}, {kind_id[fdt.kind]})")
        out.append(f"  | {f} => " + lean_list(rows))
    out.append("  | _ => []")
    out.append("def recLen : Nat → Nat")
    for f in fmts:
        out.append(f"  | {f} => {PointFormat(f).size}")
    out.append("  | _ => 0")
    out.append("def dtypeItemsize : Nat → Nat")
    for f in fmts:
        out.append(f"  | {f} => {dims.ALL_POINT_FORMATS_DTYPE[f].itemsize}")
    out.append("  | _ => 0")

    return "\n".join(out)


def tunit_composed():
    import numpy as np
    import laspy
    from laspy import header as H
    from laspy import extradims
    from laspy.point import dims, packing
    from laspy.point.format import PointFormat
    from laspy.vlrs import vlrlist, known
    kind_id = {"i": 0, "u": 1, "f": 2}
    fmts = sorted(dims.POINT_FORMAT_DIMENSIONS.keys())
    out = []
    # composed fields
    out.append("/-- packed byte name ↦ [(sub-field name, mask)] per point format -/")
    out.append("def composed : Nat → List (String × List (String × Nat))")
    all_masks = set()
    for f in fmts:
        rows = []
        for cname, subs in dims.COMPOSED_FIELDS[f].items():
            for s in subs:
                all_masks.add(int(s.mask))
            rows.append(f"({lean_str(cname)}, " + lean_list(f"({lean_str(s.name)}, {int(s.mask)})" for s in subs) + ")")
        out.append(f"  | {f} => " + lean_list(rows))
    out.append("  | _ => []")
    # lsb / bit count tables on every mask used
    masks = sorted(all_masks)
    out.append("def allMasks : List Nat := " + lean_list(map(str, masks)))
    out.append("/-- packing.least_significant_bit_set evaluated on every mask in `composed` -/")
    out.append("def lsbTable : List (Nat × Nat) := " + lean_list(f"({m}, {packing.least_significant_bit_set(m)})" for m in masks))
    out.append("/-- dims.num_bit_set evaluated on every mask in `composed` -/")
    out.append("def bitCountTable : List (Nat × Nat) := " + lean_list(f"({m}, {dims.num_bit_set(m)})" for m in masks))

    return "\n".join(out)


def tunit_versions():
    import numpy as np
    import laspy
    from laspy import header as H
    from laspy import extradims
    from laspy.point import dims, packing
    from laspy.point.format import PointFormat
    from laspy.vlrs import vlrlist, known
    kind_id = {"i": 0, "u": 1, "f": 2}
    fmts = sorted(dims.POINT_FORMAT_DIMENSIONS.keys())
    out = []
    # versions
    vers = sorted(dims.VERSION_TO_POINT_FMT.keys())
    def vminor(v):
        ma, mi = v.split(".")
        assert ma == "1"
        return int(mi)
    out.append("/-- minor version ↦ allowed point formats (major is always 1) -/")
    out.append("def versionFormats : List (Nat × List Nat) := " + lean_list(
        f"({vminor(v)}, " + lean_list(map(str, dims.VERSION_TO_POINT_FMT[v])) + ")" for v in vers))
    out.append("def headerSize : List (Nat × Nat) := " + lean_list(f"({vminor(v)}, {H.LAS_HEADERS_SIZE[v]})" for v in sorted(H.LAS_HEADERS_SIZE)))
    out.append(f"def SYSTEM_IDENTIFIER_LEN : Nat := {H.SYSTEM_IDENTIFIER_LEN}")
    out.append(f"def GENERATING_SOFTWARE_LEN : Nat := {H.GENERATING_SOFTWARE_LEN}")
    out.append(f"def fileSignature : List UInt8 := " + lean_list(str(b) for b in H.LAS_FILE_SIGNATURE))
    out.append(f"def defaultVersionMinor : Nat := {H.LasHeader.DEFAULT_VERSION.minor}")
    out.append(f"def defaultPointFormat : Nat := {H.LasHeader.DEFAULT_POINT_FORMAT.id}")
    out.append(f"def minFormatForVersion : List (Nat × Nat) := " + lean_list(f"({vminor(v)}, {dims.min_point_format_for_version(v)})" for v in vers))

    return "\n".join(out)


def tunit_vlr():
    import numpy as np
    import laspy
    from laspy import header as H
    from laspy import extradims
    from laspy.point import dims, packing
    from laspy.point.format import PointFormat
    from laspy.vlrs import vlrlist, known
    kind_id = {"i": 0, "u": 1, "f": 2}
    fmts = sorted(dims.POINT_FORMAT_DIMENSIONS.keys())
    out = []
    # VLR constants
    out.append(f"def VLR_USER_ID_LEN : Nat := {vlrlist.USER_ID_LEN}")
    out.append(f"def VLR_DESCRIPTION_LEN : Nat := {vlrlist.DESCRIPTION_LEN}")
    out.append(f"def VLR_RESERVED_LEN : Nat := {vlrlist.RESERVED_LEN}")

    return "\n".join(out)


def tunit_extra():
    import numpy as np
    import laspy
    from laspy import header as H
    from laspy import extradims
    from laspy.point import dims, packing
    from laspy.point.format import PointFormat
    from laspy.vlrs import vlrlist, known
    kind_id = {"i": 0, "u": 1, "f": 2}
    fmts = sorted(dims.POINT_FORMAT_DIMENSIONS.keys())
    out = []
    # extra-bytes type table: index = type id - 1 ↦ (kind, elem size, n elems)
    rows = []
    for dt in extradims._allowed_extra_dims_types:
        base = dt.base
        n = dt.shape[0] if dt.ndim == 1 else 1
        tid = extradims.get_id_for_extra_dim_type(dt)
        rows.append(f"({tid}, {kind_id[base.kind]}, {base.itemsize}, {n})")
    out.append("/-- (type id, kind, element size, element count) for each typed extra-bytes type -/")
    out.append("def extraTypes : List (Nat × Kind × Nat × Nat) := " + lean_list(rows))

    # ctypes layout of the 192-byte descriptor
    import ctypes
    S = known.ExtraBytesStruct
    rows = []
    for fname, _ in S._fields_:
        d = getattr(S, fname)
        rows.append(f"({lean_str(fname)}, {d.offset}, {d.size})")
    out.append("def ebStruct : List (String × Nat × Nat) := " + lean_list(rows))
    out.append(f"def ebStructSize : Nat := {ctypes.sizeof(S)}")
    for cname in ("NO_DATA_BIT_MASK", "MIN_BIT_MASK", "MAX_BIT_MASK", "SCALE_BIT_MASK", "OFFSET_BIT_MASK"):
        out.append(f"def EB_{cname} : Nat := {getattr(known.ExtraBytesStruct, cname)}")

    return "\n".join(out)


def tunit_gemasks():
    import numpy as np
    import laspy
    from laspy import header as H
    from laspy import extradims
    from laspy.point import dims, packing
    from laspy.point.format import PointFormat
    from laspy.vlrs import vlrlist, known
    kind_id = {"i": 0, "u": 1, "f": 2}
    fmts = sorted(dims.POINT_FORMAT_DIMENSIONS.keys())
    out = []
    # global encoding masks (also in Funs, here as a table for the spec comparison)
    out.append("def geMasks : List (String × Nat) := " + lean_list(
        f"({lean_str(n)}, {getattr(H.GlobalEncoding, n)})" for n in sorted(vars(H.GlobalEncoding)) if n.endswith("_MASK")))

    return "\n".join(out)


def tunit_copc():
    import numpy as np
    import laspy
    from laspy import header as H
    from laspy import extradims
    from laspy.point import dims, packing
    from laspy.point.format import PointFormat
    from laspy.vlrs import vlrlist, known
    kind_id = {"i": 0, "u": 1, "f": 2}
    fmts = sorted(dims.POINT_FORMAT_DIMENSIONS.keys())
    out = []
    # COPC struct formats
    from laspy import copc
    out.append(f"def copcVoxelKeyFormat : String := {lean_str(copc.VoxelKey.unpacker.format)}")
    out.append(f"def copcEntryFormat : String := {lean_str(copc.Entry.unpacker.format)}")
    return "\n".join(out)


TABLE_UNITS = [("TDims", tunit_dims), ("TComposed", tunit_composed), ("TVersions", tunit_versions), ("TVlr", tunit_vlr),
               ("TExtra", tunit_extra), ("TGeMasks", tunit_gemasks), ("TCopc", tunit_copc)]


def write_if_changed(path, text):
    try:
        with open(path) as f:
            if f.read() == text:
                return False
    except FileNotFoundError:
        pass
    os.makedirs(os.path.dirname(path), exist_ok=True)
    tmp = path + ".tmp%d" % os.getpid()
    with open(tmp, "w") as f:
        f.write(text)
    os.replace(tmp, path)
    return True


HEADER = "/- GENERATED by translator/py2lean.py from the live laspy package. Do not edit. -/\nnamespace Gen\n"
FOOTER = "end Gen\n"


def split_units(text):
    """unit name -> text between its markers in a previously generated file"""
    units = {}
    for m in re.finditer(r"-- BEGIN UNIT (\w+)\n(.*?)-- END UNIT \1\n", text, re.S):
        units[m.group(1)] = m.group(2)
    return units


PINNED_DIR = os.path.join(os.path.dirname(HERE), "lean", "pinned")


def generate(file_name, unit_list, status, pin=()):
    """every unit is generated on its own and compared with its *pinned* text (lean/pinned/<file>.lean: the text the
    proofs were written against, committed). Per unit:
      identical - the regenerated text equals the pinned one: the theorems are about what the code says now;
      changed   - it differs: the regenerated text is written, the theorems are re-checked against it;
      failed    - it cannot be regenerated (translation or introspection failure): the pinned text is written;
      pinned    - asked for with --pin (after the proofs failed on the regenerated text): the pinned text is written.
    For `failed` and `pinned` units the tie to the code is no longer the translation: the harness validates the pinned
    text against the live code by a dense differential run (harness/validators.py) before the property is accepted."""
    path = os.path.join(GEN_DIR, file_name + ".lean")
    try:
        pinned_units = split_units(open(os.path.join(PINNED_DIR, file_name + ".lean")).read())
    except FileNotFoundError:
        pinned_units = {}
    parts = [HEADER]
    for name, gen in unit_list:
        cand, err = None, None
        try:
            cand = gen().rstrip("\n") + "\n"
        except Exception as e:  # TranslationError or introspection failure
            err = f"{type(e).__name__}: {e}"[:500]
        pinned = pinned_units.get(name)
        if cand is not None and name not in pin:
            text = cand
            state = "identical" if cand == pinned else "changed"
        else:
            text = pinned if pinned is not None else ""
            state = "pinned" if cand is not None else "failed"
        ok = state in ("identical", "changed")
        status["units"][name] = {"ok": ok, "state": state}
        if err:
            status["units"][name]["error"] = err
        if not ok:
            status["ok"] = False
            status["errors"].append(f"{name}: {state}" + (f": {err}" if err else ""))
            status["units"][name]["stale"] = pinned is not None
        parts.append(f"-- BEGIN UNIT {name}\n{text}-- END UNIT {name}\n")
    parts.append(FOOTER)
    if write_if_changed(path, "\n".join(parts)):
        status["changed"].append(file_name)


def main():
    import argparse
    import shutil
    ap = argparse.ArgumentParser()
    ap.add_argument("--pin", default="", help="comma separated units to write with their pinned text")
    ap.add_argument("--accept", action="store_true", help="developer action: make the regenerated text the pinned text")
    args = ap.parse_args()
    pin = tuple(u for u in args.pin.split(",") if u)
    status = {"ok": True, "errors": [], "changed": [], "units": {}}
    generate("Tables", TABLE_UNITS, status, pin)
    generate("Funs", FUN_UNITS, status, pin)
    if args.accept:
        os.makedirs(PINNED_DIR, exist_ok=True)
        for f in ("Tables", "Funs"):
            shutil.copyfile(os.path.join(GEN_DIR, f + ".lean"), os.path.join(PINNED_DIR, f + ".lean"))
        status["accepted"] = True
    print(json.dumps(status))
    return 0 if status["ok"] else 3


if __name__ == "__main__":
    sys.exit(main())
