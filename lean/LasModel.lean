-- Root of the `LasModel` library: everything that `setup_cmd` builds.
import LasModel.Gen.Tables
import LasModel.Gen.Funs
import LasModel.Lemmas.Bits
import LasModel.Audit.C20
import LasModel.Audit.C09
import LasModel.Audit.C10
import LasModel.Audit.C08
import LasModel.Audit.C07
import LasModel.Audit.C02
import LasModel.Audit.C01
import LasModel.Audit.C03
import LasModel.Audit.C04
import LasModel.Audit.C05
import LasModel.Audit.C06
import LasModel.Audit.C19
import LasModel.Model.Date
import LasModel.Driver.Main
