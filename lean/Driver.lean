import LasModel.Driver.Main
def main : IO Unit := LasModel.Driver.main
