/-
Tables transcribed by hand from the ASPRS LAS 1.4 R15 specification (and LAS 1.1-1.3 for
the older headers).  Nothing here is derived from laspy; the theorems in Props/C02 state
that laspy's *generated* tables are equal to these.

Field kinds: 0 = signed integer, 1 = unsigned integer, 2 = IEEE floating point.
Dimension names are laspy's names for the specification's fields (the join key):
  X, Y, Z                      "X", "Y", "Z" (long)
  intensity                    "Intensity" (unsigned short)
  bit_fields                   the byte holding Return Number / Number of Returns /
                               (formats 0-5 also) Scan Direction Flag / Edge of Flight Line
  raw_classification           formats 0-5: Classification byte (5 bits class, Synthetic,
                               Key-point, Withheld)
  classification_flags         formats 6-10: Classification Flags (4 bits), Scanner Channel (2),
                               Scan Direction Flag, Edge of Flight Line
  classification               formats 6-10: Classification (unsigned char)
  scan_angle_rank / scan_angle "Scan Angle Rank" (char) / "Scan Angle" (short)
  user_data, point_source_id, gps_time, red, green, blue, nir
  wavepacket_index, wavepacket_offset, wavepacket_size, return_point_wave_location, x_t, y_t, z_t
-/
namespace Spec

abbrev Field := String × Nat × Nat × Nat   -- name, byte offset, width, kind

def core0 : List Field :=
  [("X", 0, 4, 0), ("Y", 4, 4, 0), ("Z", 8, 4, 0), ("intensity", 12, 2, 1), ("bit_fields", 14, 1, 1),
   ("raw_classification", 15, 1, 1), ("scan_angle_rank", 16, 1, 0), ("user_data", 17, 1, 1),
   ("point_source_id", 18, 2, 1)]

def core6 : List Field :=
  [("X", 0, 4, 0), ("Y", 4, 4, 0), ("Z", 8, 4, 0), ("intensity", 12, 2, 1), ("bit_fields", 14, 1, 1),
   ("classification_flags", 15, 1, 1), ("classification", 16, 1, 1), ("user_data", 17, 1, 1),
   ("scan_angle", 18, 2, 0), ("point_source_id", 20, 2, 1), ("gps_time", 22, 8, 2)]

def gps (o : Nat) : List Field := [("gps_time", o, 8, 2)]
def rgb (o : Nat) : List Field := [("red", o, 2, 1), ("green", o + 2, 2, 1), ("blue", o + 4, 2, 1)]
def nir (o : Nat) : List Field := [("nir", o, 2, 1)]
def wave (o : Nat) : List Field :=
  [("wavepacket_index", o, 1, 1), ("wavepacket_offset", o + 1, 8, 1), ("wavepacket_size", o + 9, 4, 1),
   ("return_point_wave_location", o + 13, 4, 2), ("x_t", o + 17, 4, 2), ("y_t", o + 21, 4, 2), ("z_t", o + 25, 4, 2)]

/-- Point Data Record Formats 0-10 -/
def recLayout : Nat → List Field
  | 0 => core0
  | 1 => core0 ++ gps 20
  | 2 => core0 ++ rgb 20
  | 3 => core0 ++ gps 20 ++ rgb 28
  | 4 => core0 ++ gps 20 ++ wave 28
  | 5 => core0 ++ gps 20 ++ rgb 28 ++ wave 34
  | 6 => core6
  | 7 => core6 ++ rgb 30
  | 8 => core6 ++ rgb 30 ++ nir 36
  | 9 => core6 ++ wave 30
  | 10 => core6 ++ rgb 30 ++ nir 36 ++ wave 38
  | _ => []

/-- record lengths of the specification -/
def recLen : Nat → Nat
  | 0 => 20 | 1 => 28 | 2 => 26 | 3 => 34 | 4 => 57 | 5 => 63
  | 6 => 30 | 7 => 36 | 8 => 38 | 9 => 59 | 10 => 67 | _ => 0

/-- bit assignments inside the packed bytes: (byte, [(sub-field, mask)]) -/
def bits05 : List (String × List (String × Nat)) :=
  [("bit_fields", [("return_number", 0b00000111), ("number_of_returns", 0b00111000),
                   ("scan_direction_flag", 0b01000000), ("edge_of_flight_line", 0b10000000)]),
   ("raw_classification", [("classification", 0b00011111), ("synthetic", 0b00100000),
                           ("key_point", 0b01000000), ("withheld", 0b10000000)])]

def bits610 : List (String × List (String × Nat)) :=
  [("bit_fields", [("return_number", 0b00001111), ("number_of_returns", 0b11110000)]),
   ("classification_flags", [("synthetic", 0b0001), ("key_point", 0b0010), ("withheld", 0b0100),
                             ("overlap", 0b1000), ("scanner_channel", 0b00110000),
                             ("scan_direction_flag", 0b01000000), ("edge_of_flight_line", 0b10000000)])]

def bits (fmt : Nat) : List (String × List (String × Nat)) :=
  if fmt ≤ 5 then bits05 else if fmt ≤ 10 then bits610 else []

/-- point formats allowed per minor version -/
def versionFormats : List (Nat × List Nat) :=
  [(1, [0, 1]), (2, [0, 1, 2, 3]), (3, [0, 1, 2, 3, 4, 5]), (4, [0, 1, 2, 3, 4, 5, 6, 7, 8, 9, 10])]

/-- Public Header Block: (field, width) in file order -/
def headerCommon : List (String × Nat) :=
  [("File Signature", 4), ("File Source ID", 2), ("Global Encoding", 2), ("Project ID GUID", 16),
   ("Version Major", 1), ("Version Minor", 1), ("System Identifier", 32), ("Generating Software", 32),
   ("File Creation Day of Year", 2), ("File Creation Year", 2), ("Header Size", 2),
   ("Offset to Point Data", 4), ("Number of Variable Length Records", 4),
   ("Point Data Record Format", 1), ("Point Data Record Length", 2),
   ("Legacy Number of Point Records", 4), ("Legacy Number of Points by Return", 20),
   ("X Scale Factor", 8), ("Y Scale Factor", 8), ("Z Scale Factor", 8),
   ("X Offset", 8), ("Y Offset", 8), ("Z Offset", 8),
   ("Max X", 8), ("Min X", 8), ("Max Y", 8), ("Min Y", 8), ("Max Z", 8), ("Min Z", 8)]

def header13 : List (String × Nat) := [("Start of Waveform Data Packet Record", 8)]
def header14 : List (String × Nat) :=
  [("Start of First Extended Variable Length Record", 8), ("Number of Extended Variable Length Records", 4),
   ("Number of Point Records", 8), ("Number of Points by Return", 120)]

def headerFields (minor : Nat) : List (String × Nat) :=
  headerCommon ++ (if minor ≥ 3 then header13 else []) ++ (if minor ≥ 4 then header14 else [])

def headerSize : List (Nat × Nat) := [(1, 227), (2, 227), (3, 235), (4, 375)]

/-- VLR header: Reserved 2, User ID 16, Record ID 2, Record Length After Header 2, Description 32 -/
def vlrHeader : List (String × Nat) :=
  [("Reserved", 2), ("User ID", 16), ("Record ID", 2), ("Record Length After Header", 2), ("Description", 32)]
/-- EVLR header: the record length is an unsigned long long -/
def evlrHeader : List (String × Nat) :=
  [("Reserved", 2), ("User ID", 16), ("Record ID", 2), ("Record Length After Header", 8), ("Description", 32)]

/-- Global Encoding bit field (LAS 1.4): bit 0 GPS time type, 1 waveform internal,
    2 waveform external, 3 synthetic return numbers, 4 WKT -/
def globalEncodingBits : List (String × Nat) :=
  [("GPS_TIME_TYPE_MASK", 1), ("SYNTHETIC_RETURN_NUMBERS_MASK", 8), ("WAVEFORM_EXTERNAL_MASK", 4),
   ("WAVEFORM_INTERNAL_MASK", 2), ("WKT_MASK", 16)]

/-- EXTRA_BYTES descriptor (192 bytes): (field, offset, size) -/
def ebStruct : List (String × Nat × Nat) :=
  [("reserved", 0, 2), ("data_type", 2, 1), ("options", 3, 1), ("name", 4, 32), ("unused", 36, 4),
   ("_no_data", 40, 24), ("_min", 64, 24), ("_max", 88, 24), ("_scale", 112, 24), ("_offset", 136, 24),
   ("description", 160, 32)]

/-- EXTRA_BYTES data types 1-30: (id, kind, element size, element count) -/
def extraBase : List (Nat × Nat) := [(1, 1), (0, 1), (1, 2), (0, 2), (1, 4), (0, 4), (1, 8), (0, 8), (2, 4), (2, 8)]
def extraTypes : List (Nat × Nat × Nat × Nat) :=
  (List.range 30).map fun i =>
    let b := extraBase.getD (i % 10) (0, 0)
    (i + 1, b.1, b.2, i / 10 + 1)

/-- options bits: no_data 0, min 1, max 2, scale 3, offset 4 -/
def ebOptionBits : List Nat := [1, 2, 4, 8, 16]

end Spec
