/- Round trip of the header codec: parseHdr / prefetch on encodeHdr. -/
import LasModel.Model.Header
import LasModel.Props.C08

namespace LasModel.Header
open LasModel.Bytes LasModel.Strings LasModel.Vlr

/-- size of the fixed part of the header for a supported minor version -/
def base (m : Nat) : Nat := if m ≤ 2 then 227 else if m = 3 then 235 else 375

theorem baseSize_of_minor (m : Nat) (h : 1 ≤ m ∧ m ≤ 4) : baseSize m = some (base m) := by
  have : m = 1 ∨ m = 2 ∨ m = 3 ∨ m = 4 := by omega
  rcases this with h | h | h | h <;> subst h <;> decide

theorem list12 {α} (l : List α) (h : l.length = 12) :
    ∃ a0 a1 a2 a3 a4 a5 a6 a7 a8 a9 a10 a11, l = [a0, a1, a2, a3, a4, a5, a6, a7, a8, a9, a10, a11] := by
  match l, h with
  | [a0, a1, a2, a3, a4, a5, a6, a7, a8, a9, a10, a11], _ => exact ⟨_, _, _, _, _, _, _, _, _, _, _, _, rfl⟩

theorem list15 {α} (l : List α) (h : l.length = 15) :
    ∃ a0 a1 a2 a3 a4 a5 a6 a7 a8 a9 a10 a11 a12 a13 a14,
      l = [a0, a1, a2, a3, a4, a5, a6, a7, a8, a9, a10, a11, a12, a13, a14] := by
  match l, h with
  | [a0, a1, a2, a3, a4, a5, a6, a7, a8, a9, a10, a11, a12, a13, a14], _ =>
    exact ⟨_, _, _, _, _, _, _, _, _, _, _, _, _, _, _, rfl⟩

theorem widthsC_eq (h : Hdr) (hw : h.WF) (hs off : Nat) :
    (blockC h hs off).map (·.1) = widthsC h.vMinor := by
  obtain ⟨r0, r1, r2, r3, r4, r5, r6, r7, r8, r9, r10, r11, r12, r13, r14, hr⟩ := list15 _ hw.ret.1
  obtain ⟨d0, d1, d2, d3, d4, d5, d6, d7, d8, d9, d10, d11, hd⟩ := list12 _ hw.doubles.1
  have hm := hw.minor
  unfold blockC widthsC legacyInts tailInts
  rw [hr, hd]
  have hm' : h.vMinor = 1 ∨ h.vMinor = 2 ∨ h.vMinor = 3 ∨ h.vMinor = 4 := by omega
  rcases hm' with hmm | hmm | hmm | hmm <;> simp only [hmm] <;> rfl

theorem blockC_length (h : Hdr) (hw : h.WF) (hs off : Nat) :
    (encInts (blockC h hs off)).length + 90 = (if h.vMinor ≤ 2 then 227 else if h.vMinor = 3 then 235 else 375) := by
  rw [encInts_length, widthsC_eq h hw]
  have hm := hw.minor
  have hm' : h.vMinor = 1 ∨ h.vMinor = 2 ∨ h.vMinor = 3 ∨ h.vMinor = 4 := by omega
  rcases hm' with hmm | hmm | hmm | hmm <;> rw [hmm] <;> decide

theorem blockC_bounds (h : Hdr) (hw : h.WF) (hs off : Nat) (hhs : hs < 2 ^ 16) (hoff : off < 2 ^ 32) :
    ∀ f ∈ blockC h hs off, f.2 < 256 ^ f.1 := by
  intro f hf
  unfold blockC legacyInts tailInts at hf
  have hm := hw.minor
  have hc := hw.count
  unfold maxPointCount at hc
  simp only [List.mem_append, List.mem_cons, List.mem_map, List.not_mem_nil, or_false] at hf
  rcases hf with ((hf | hf) | hf) | hf
  · rcases hf with hf | hf | hf | hf | hf | hf | hf <;> subst hf <;> simp only
    · exact hw.doy
    · exact hw.year
    · exact hhs
    · exact hoff
    · exact hw.nvlrs
    · exact hw.fmt
    · exact hw.recLen
  · split at hf
    · simp only [List.mem_cons, List.mem_replicate] at hf
      rcases hf with hf | ⟨_, hf⟩ <;> subst hf <;> decide
    · rename_i hlt
      simp only [List.mem_cons, List.mem_map] at hf
      rcases hf with hf | ⟨r, hr, hf⟩
      · subst hf; simp only
        have : h.vMinor ≤ 3 := by omega
        simp [this] at hc; omega
      · subst hf; simp only
        have := hw.ret.2 r (List.mem_of_mem_take hr)
        have h4 : ¬ h.vMinor ≥ 4 := hlt
        simp [h4] at this; omega
  · obtain ⟨d, hd, hf⟩ := hf
    subst hf
    exact hw.doubles.2 d hd
  · rcases hf with hf | hf
    · split at hf
      · simp at hf; subst hf; exact hw.wave
      · cases hf
    · split at hf
      · rename_i h4
        simp only [List.mem_append, List.mem_cons, List.mem_map, List.not_mem_nil, or_false] at hf
        rcases hf with (hf | hf | hf) | ⟨r, hr, hf⟩
        · subst hf; exact hw.evlr.1
        · subst hf; exact hw.evlr.2
        · subst hf; simp only
          have : ¬ h.vMinor ≤ 3 := by omega
          simp [this] at hc; omega
        · subst hf; simp only
          have := hw.ret.2 r hr
          simp [h4] at this; omega
      · cases hf


/-- the written header, re-associated to the right, with its total length -/
theorem encodeHdr_form (h : Hdr) (hw : h.WF) :
    ∃ vb, encodeVlrs false h.vlrs = .ok vb ∧
      vb.length = (h.vlrs.map fun v => headerLen false + v.payload.length).sum ∧
      (∀ rest, decodeVlrs false h.vlrs.length (vb ++ rest) = (h.vlrs, rest)) ∧
      encodeHdr h false 0 = .ok (Gen.fileSignature ++ (encInts [(2, h.fileSourceId), (2, h.globalEncoding)] ++
        (h.guid ++ (encInts [(1, h.vMajor), (1, h.vMinor)] ++ (writeString h.systemId 32 ++
        (writeString h.software 32 ++ (encInts (blockC h (base h.vMinor + h.extraHeader.length)
          (base h.vMinor + h.extraHeader.length + vb.length + h.extraVlr.length)) ++
        (h.extraHeader ++ (vb ++ h.extraVlr))))))))) := by
  obtain ⟨vb, hvb, hlen, hdec⟩ := LasModel.Props.C08.C08_framing false h.vlrs []
    (fun v hv => ⟨(hw.vlrs v hv).1, Or.inr (hw.vlrs v hv).2.1⟩)
  refine ⟨vb, hvb, hlen, ?_, ?_⟩
  · intro rest
    obtain ⟨vb', hvb', _, hdec'⟩ := LasModel.Props.C08.C08_framing false h.vlrs rest
      (fun v hv => ⟨(hw.vlrs v hv).1, Or.inr (hw.vlrs v hv).2.1⟩)
    rw [hvb] at hvb'
    injection hvb' with e
    subst e
    rw [hdec']
    congr 1
    have : ∀ l : List Vlr, (∀ v ∈ l, factory v = v) → l.map factory = l := by
      intro l hl
      induction l with
      | nil => rfl
      | cons a l ih => simp [hl a (by simp), ih (fun v hv => hl v (by simp [hv]))]
    exact this _ (fun v hv => (hw.vlrs v hv).2.2)
  · unfold encodeHdr
    have hc : ¬ h.count > maxPointCount h.vMinor := Nat.not_lt.mpr hw.count
    simp only [hc, if_false, hvb, baseSize_of_minor _ hw.minor]
    simp [Gen.SYSTEM_IDENTIFIER_LEN, Gen.GENERATING_SOFTWARE_LEN, List.append_assoc]


theorem parse_encoded (h : Hdr) (hw : h.WF) (vb : Bytes)
    (hdec : ∀ rest, decodeVlrs false h.vlrs.length (vb ++ rest) = (h.vlrs, rest))
    (hhs : base h.vMinor + h.extraHeader.length < 2 ^ 16)
    (hoff : base h.vMinor + h.extraHeader.length + vb.length + h.extraVlr.length < 2 ^ 32) :
    parseHdr (Gen.fileSignature ++ (encInts [(2, h.fileSourceId), (2, h.globalEncoding)] ++
        (h.guid ++ (encInts [(1, h.vMajor), (1, h.vMinor)] ++ (writeString h.systemId 32 ++
        (writeString h.software 32 ++ (encInts (blockC h (base h.vMinor + h.extraHeader.length)
          (base h.vMinor + h.extraHeader.length + vb.length + h.extraVlr.length)) ++
        (h.extraHeader ++ (vb ++ h.extraVlr))))))))) = .ok (canon h) := by
  generalize hHS : base h.vMinor + h.extraHeader.length = hs at *
  generalize hOFF : hs + vb.length + h.extraVlr.length = off at *
  have eA : ∀ r, decInts [2, 2] (encInts [(2, h.fileSourceId), (2, h.globalEncoding)] ++ r) =
      ([h.fileSourceId, h.globalEncoding], r) := fun r =>
    decInts_encInts [(2, h.fileSourceId), (2, h.globalEncoding)] r (by
      intro f hf; simp at hf; rcases hf with hf | hf <;> subst hf
      · exact hw.fsid
      · exact hw.ge)
  have eG : ∀ r, readN 16 (h.guid ++ r) = (h.guid, r) := fun r => readN_append' 16 _ r hw.guid
  have eB : ∀ r, decInts [1, 1] (encInts [(1, h.vMajor), (1, h.vMinor)] ++ r) = ([h.vMajor, h.vMinor], r) := fun r =>
    decInts_encInts [(1, h.vMajor), (1, h.vMinor)] r (by
      intro f hf; simp at hf; rcases hf with hf | hf <;> subst hf
      · exact hw.major
      · have := hw.minor; simp only; omega)
  have eY : ∀ r, readString 32 (writeString h.systemId 32 ++ r) = (h.systemId, r) := fun r =>
    (readString_writeString _ 32 r hw.sys.1 hw.sys.2).2
  have eW : ∀ r, readString 32 (writeString h.software 32 ++ r) = (h.software, r) := fun r =>
    (readString_writeString _ 32 r hw.soft.1 hw.soft.2).2
  have eC : ∀ r, decInts (widthsC h.vMinor) (encInts (blockC h hs off) ++ r) = ((blockC h hs off).map (·.2), r) := by
    intro r
    rw [← widthsC_eq h hw hs off]
    exact decInts_encInts _ r (blockC_bounds h hw hs off hhs hoff)
  have lC := blockC_length h hw hs off
  have lY := (readString_writeString h.systemId 32 [] hw.sys.1 hw.sys.2).1
  have lW := (readString_writeString h.software 32 [] hw.soft.1 hw.soft.2).1
  have lG := hw.guid
  have lA : (encInts [(2, h.fileSourceId), (2, h.globalEncoding)]).length = 4 := by simp [encInts]
  have lB : (encInts [(1, h.vMajor), (1, h.vMinor)]).length = 2 := by simp [encInts]
  have hsig : Gen.fileSignature.length = 4 := rfl
  generalize hC : encInts (blockC h hs off) = C at *
  unfold parseHdr
  rw [List.drop_left' hsig]
  simp only [eA, eG, eB, Gen.SYSTEM_IDENTIFIER_LEN, Gen.GENERATING_SOFTWARE_LEN, eY, eW,
    List.getD_cons_succ, List.getD_cons_zero, eC]
  -- header size and position
  have c2 : ((blockC h hs off).map (·.2)).getD 2 0 = hs := by simp [blockC]
  have c3 : ((blockC h hs off).map (·.2)).getD 3 0 = off := by simp [blockC]
  have c4 : ((blockC h hs off).map (·.2)).getD 4 0 = h.vlrs.length := by simp [blockC]
  rw [c2, c3, c4]
  have hbase : base h.vMinor = if h.vMinor ≤ 2 then 227 else if h.vMinor = 3 then 235 else 375 := rfl
  have pos1 : (Gen.fileSignature ++ (encInts [(2, h.fileSourceId), (2, h.globalEncoding)] ++ (h.guid ++
      (encInts [(1, h.vMajor), (1, h.vMinor)] ++ (writeString h.systemId 32 ++ (writeString h.software 32 ++
      (C ++ (h.extraHeader ++ (vb ++ h.extraVlr))))))))).length - (h.extraHeader ++ (vb ++ h.extraVlr)).length
      = base h.vMinor := by
    simp only [List.length_append, hsig, lA, lG, lB, lY, lW]; omega
  rw [pos1]
  have hle : ¬ base h.vMinor > hs := by omega
  simp only [hle, if_false]
  have hsub : hs - base h.vMinor = h.extraHeader.length := by omega
  rw [hsub, readN_append]
  simp only [hdec]
  have pos2 : (Gen.fileSignature ++ (encInts [(2, h.fileSourceId), (2, h.globalEncoding)] ++ (h.guid ++
      (encInts [(1, h.vMajor), (1, h.vMinor)] ++ (writeString h.systemId 32 ++ (writeString h.software 32 ++
      (C ++ (h.extraHeader ++ (vb ++ h.extraVlr))))))))).length - h.extraVlr.length
      = off - h.extraVlr.length := by
    simp only [List.length_append, hsig, lA, lG, lB, lY, lW]; omega
  rw [pos2]
  have hle2 : ¬ off - h.extraVlr.length > off := by omega
  simp only [hle2, if_false]
  have hsub2 : off - (off - h.extraVlr.length) = h.extraVlr.length := by omega
  have eX : readN h.extraVlr.length h.extraVlr = (h.extraVlr, []) := by
    have := readN_append h.extraVlr []; simpa using this
  rw [hsub2, eX]
  -- field by field
  obtain ⟨r0, r1, r2, r3, r4, r5, r6, r7, r8, r9, r10, r11, r12, r13, r14, hr⟩ := list15 _ hw.ret.1
  obtain ⟨d0, d1, d2, d3, d4, d5, d6, d7, d8, d9, d10, d11, hd⟩ := list12 _ hw.doubles.1
  have hm := hw.minor
  have hm' : h.vMinor = 1 ∨ h.vMinor = 2 ∨ h.vMinor = 3 ∨ h.vMinor = 4 := by omega
  obtain ⟨fsid, ge, guid, vMajor, vMinor, systemId, software, doy, year, fmtByte, recLen, count, byReturn,
    doubles, waveformStart, evlrStart, nEvlrs, extraHeader, vlrs, extraVlr⟩ := h
  simp only at hr hd hm' ⊢
  subst hr hd
  rcases hm' with hmm | hmm | hmm | hmm <;> subst hmm <;>
    simp [blockC, legacyInts, tailInts, canon]


theorem encInts_append (a b : List (Nat × Nat)) : encInts (a ++ b) = encInts a ++ encInts b := by
  induction a with
  | nil => rfl
  | cons f a ih => obtain ⟨w, n⟩ := f; simp [encInts, ih]

theorem slice_mid {α} (P M Q : List α) (n : Nat) (h : P.length + M.length ≤ n) :
    (((P ++ (M ++ Q)).take n).drop P.length).take M.length = M := by
  rw [List.drop_take, List.drop_left, List.take_take]
  have : min M.length (n - P.length) = M.length := by omega
  rw [this, List.take_left]

/-- the written header (followed by anything) is prefetched exactly, and its total length is
    the offset to point data it records -/
theorem prefetch_encoded' (h : Hdr) (hw : h.WF) (vb : Bytes) (rest : Bytes) (hs off : Nat)
    (hHS : base h.vMinor + h.extraHeader.length = hs) (hOFF : hs + vb.length + h.extraVlr.length = off)
    (hoff : off < 2 ^ 32) (enc : Bytes)
    (henc : enc = (Gen.fileSignature ++ (encInts [(2, h.fileSourceId), (2, h.globalEncoding)] ++
        (h.guid ++ (encInts [(1, h.vMajor), (1, h.vMinor)] ++ (writeString h.systemId 32 ++
        (writeString h.software 32 ++ (encInts (blockC h hs off) ++
        (h.extraHeader ++ (vb ++ h.extraVlr)))))))))) :
    enc.length = off ∧
    fileOffset (enc ++ rest) = enc.length ∧
    prefetch (enc ++ rest) = .ok enc := by
  have lC := blockC_length h hw hs off
  have lY := (readString_writeString h.systemId 32 [] hw.sys.1 hw.sys.2).1
  have lW := (readString_writeString h.software 32 [] hw.soft.1 hw.soft.2).1
  have lG := hw.guid
  have lA : (encInts [(2, h.fileSourceId), (2, h.globalEncoding)]).length = 4 := by simp [encInts]
  have lB : (encInts [(1, h.vMajor), (1, h.vMinor)]).length = 2 := by simp [encInts]
  have hsig : Gen.fileSignature.length = 4 := rfl
  have hbase : base h.vMinor = if h.vMinor ≤ 2 then 227 else if h.vMinor = 3 then 235 else 375 := rfl
  have hb227 : 227 ≤ base h.vMinor := by rw [hbase]; split <;> (try split) <;> omega
  have hlen : enc.length = off := by
    rw [henc]; simp only [List.length_append, hsig, lA, lG, lB, lY, lW]; omega
  -- isolate the four offset bytes at position 96
  have hsplit : ∃ P Q, enc = P ++ (leBytes 4 off ++ Q) ∧ P.length = 96 := by
    refine ⟨Gen.fileSignature ++ (encInts [(2, h.fileSourceId), (2, h.globalEncoding)] ++
        (h.guid ++ (encInts [(1, h.vMajor), (1, h.vMinor)] ++ (writeString h.systemId 32 ++
        (writeString h.software 32 ++ (leBytes 2 h.doy ++ (leBytes 2 h.year ++ leBytes 2 hs))))))),
        encInts ([(4, h.vlrs.length), (1, h.fmtByte), (2, h.recLen)] ++ legacyInts h ++
          h.doubles.map (fun d => (8, d)) ++ tailInts h) ++ (h.extraHeader ++ (vb ++ h.extraVlr)), ?_, ?_⟩
    · rw [henc]
      have : blockC h hs off = [(2, h.doy), (2, h.year), (2, hs), (4, off)] ++
          ([(4, h.vlrs.length), (1, h.fmtByte), (2, h.recLen)] ++ legacyInts h ++
          h.doubles.map (fun d => (8, d)) ++ tailInts h) := by
        simp [blockC]
      rw [this, encInts_append]
      simp only [encInts, List.append_assoc, List.append_nil]
    · simp only [List.length_append, hsig, lA, lG, lB, lY, lW, leBytes_length]
  obtain ⟨P, Q, hPQ, hP⟩ := hsplit
  have hoffbytes : ∀ n, 100 ≤ n → leNat ((((enc ++ rest).take n).drop 96).take 4) = off := by
    intro n hn
    rw [hPQ, List.append_assoc, List.append_assoc]
    have := slice_mid P (leBytes 4 off) (Q ++ rest) n (by simp [hP]; omega)
    rw [hP, leBytes_length] at this
    rw [this, leNat_leBytes_of_lt 4 off hoff]
  refine ⟨hlen, ?_, ?_⟩
  · unfold fileOffset
    have := hoffbytes (enc ++ rest).length (by simp; omega)
    rw [List.take_length] at this
    rw [this, hlen]
  · unfold prefetch
    have h4 : ((enc ++ rest).take 227).take 4 = Gen.fileSignature := by
      rw [List.take_take, henc]
      simp only [List.append_assoc]
      exact List.take_left' hsig
    have hl227 : ((enc ++ rest).take 227).length = 227 := by simp; omega
    simp only [h4, hl227]
    have hne : ¬ (Gen.fileSignature = []) := by decide
    simp only [hne, if_false, ne_eq, not_true_eq_false, Nat.lt_irrefl]
    rw [hoffbytes 227 (by omega)]
    have : off ≥ 227 := by omega
    simp only [this, if_true]
    rw [← hlen, List.take_left]


/-- the bytes of a written header, right-associated -/
def encForm (h : Hdr) (vb : Bytes) : Bytes :=
  Gen.fileSignature ++ (encInts [(2, h.fileSourceId), (2, h.globalEncoding)] ++
    (h.guid ++ (encInts [(1, h.vMajor), (1, h.vMinor)] ++ (writeString h.systemId 32 ++
    (writeString h.software 32 ++ (encInts (blockC h (base h.vMinor + h.extraHeader.length)
      (base h.vMinor + h.extraHeader.length + vb.length + h.extraVlr.length)) ++
    (h.extraHeader ++ (vb ++ h.extraVlr))))))))

/-- complete characterisation of `encodeHdr` on the legal domain -/
theorem encodeHdr_eq (h : Hdr) (hw : h.WF) (b : Bool) (old : Nat) :
    ∃ vb, encodeVlrs false h.vlrs = .ok vb ∧
      vb.length = (h.vlrs.map fun v => headerLen false + v.payload.length).sum ∧
      (∀ rest, decodeVlrs false h.vlrs.length (vb ++ rest) = (h.vlrs, rest)) ∧
      encodeHdr h b old =
        if (b && (base h.vMinor + h.extraHeader.length + vb.length + h.extraVlr.length != old)) = true
        then .error .sameSize else .ok (encForm h vb) := by
  obtain ⟨vb, hvb, hl, hdec, _⟩ := encodeHdr_form h hw
  refine ⟨vb, hvb, hl, hdec, ?_⟩
  unfold encodeHdr encForm
  have hc : ¬ h.count > maxPointCount h.vMinor := Nat.not_lt.mpr hw.count
  simp only [hc, if_false, hvb, baseSize_of_minor _ hw.minor]
  split
  · rfl
  · simp [Gen.SYSTEM_IDENTIFIER_LEN, Gen.GENERATING_SOFTWARE_LEN, List.append_assoc]

theorem encForm_length (h : Hdr) (hw : h.WF) (vb : Bytes) :
    (encForm h vb).length = base h.vMinor + h.extraHeader.length + vb.length + h.extraVlr.length := by
  have lC := blockC_length h hw (base h.vMinor + h.extraHeader.length)
      (base h.vMinor + h.extraHeader.length + vb.length + h.extraVlr.length)
  have lY := (readString_writeString h.systemId 32 [] hw.sys.1 hw.sys.2).1
  have lW := (readString_writeString h.software 32 [] hw.soft.1 hw.soft.2).1
  have lA : (encInts [(2, h.fileSourceId), (2, h.globalEncoding)]).length = 4 := by simp [encInts]
  have lB : (encInts [(1, h.vMajor), (1, h.vMinor)]).length = 2 := by simp [encInts]
  have hsig : Gen.fileSignature.length = 4 := rfl
  have hbase : base h.vMinor = if h.vMinor ≤ 2 then 227 else if h.vMinor = 3 then 235 else 375 := rfl
  unfold encForm
  simp only [List.length_append, hsig, lA, hw.guid, lB, lY, lW]
  omega

theorem parse_encForm (h : Hdr) (hw : h.WF) (vb : Bytes)
    (hdec : ∀ rest, decodeVlrs false h.vlrs.length (vb ++ rest) = (h.vlrs, rest))
    (hhs : base h.vMinor + h.extraHeader.length < 2 ^ 16)
    (hoff : base h.vMinor + h.extraHeader.length + vb.length + h.extraVlr.length < 2 ^ 32) :
    parseHdr (encForm h vb) = .ok (canon h) := parse_encoded h hw vb hdec hhs hoff

theorem prefetch_encForm (h : Hdr) (hw : h.WF) (vb rest : Bytes)
    (hoff : base h.vMinor + h.extraHeader.length + vb.length + h.extraVlr.length < 2 ^ 32) :
    fileOffset (encForm h vb ++ rest) = (encForm h vb).length ∧
    prefetch (encForm h vb ++ rest) = .ok (encForm h vb) :=
  (prefetch_encoded' h hw vb rest _ _ rfl rfl hoff _ rfl).2

end LasModel.Header
