/-
Bit-level helper lemmas over `Nat` (core Lean only).
`a & ~b` of Python (for non-negative a, b) is modelled as `a ^^^ (a &&& b)`.
-/
namespace LasModel.Bits

/-- clearing the bits of `m` in `a` -/
def clear (a m : Nat) : Nat := a ^^^ (a &&& m)

theorem testBit_clear (a m i : Nat) :
    (clear a m).testBit i = (a.testBit i && !m.testBit i) := by
  unfold clear
  rw [Nat.testBit_xor, Nat.testBit_and]
  cases a.testBit i <;> cases m.testBit i <;> rfl

theorem testBit_or_pow (a k i : Nat) :
    (a ||| 2 ^ k).testBit i = (a.testBit i || decide (k = i)) := by
  rw [Nat.testBit_or, Nat.testBit_two_pow]

theorem testBit_clear_pow (a k i : Nat) :
    (a ^^^ (a &&& 2 ^ k)).testBit i = (a.testBit i && !decide (k = i)) := by
  have := testBit_clear a (2 ^ k) i
  unfold clear at this
  rw [this, Nat.testBit_two_pow]

theorem and_pow_ne_zero (a k : Nat) : ((a &&& 2 ^ k) != 0) = a.testBit k := by
  have h : a &&& 2 ^ k = if a.testBit k then 2 ^ k else 0 := by
    apply Nat.eq_of_testBit_eq
    intro i
    rw [Nat.testBit_and, Nat.testBit_two_pow]
    by_cases hk : k = i
    · subst hk
      cases h : a.testBit k <;> simp
    · cases h : a.testBit k <;> simp [hk]
  rw [h]
  cases a.testBit k
  · simp
  · simp

/-- variants stated for an opaque mask constant `m` known to be the single bit `k` -/
theorem or_mask {m k : Nat} (hm : m = 2 ^ k) (a i : Nat) :
    (a ||| m).testBit i = (a.testBit i || decide (k = i)) := by
  subst hm; exact testBit_or_pow a k i

theorem clear_mask {m k : Nat} (hm : m = 2 ^ k) (a i : Nat) :
    (a ^^^ (a &&& m)).testBit i = (a.testBit i && !decide (k = i)) := by
  subst hm; exact testBit_clear_pow a k i

theorem and_mask {m k : Nat} (hm : m = 2 ^ k) (a i : Nat) :
    (a &&& m).testBit i = (a.testBit i && decide (k = i)) := by
  subst hm; rw [Nat.testBit_and, Nat.testBit_two_pow]

theorem and_mask_ne_zero {m k : Nat} (hm : m = 2 ^ k) (a : Nat) :
    ((a &&& m) != 0) = a.testBit k := by
  subst hm; exact and_pow_ne_zero a k

end LasModel.Bits
