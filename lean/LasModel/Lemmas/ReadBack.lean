/- Reading what a session wrote. -/
import LasModel.Lemmas.Session

namespace LasModel.FileIO
open LasModel.Bytes LasModel.Header LasModel.Vlr

theorem flatten_length_uniform (recs : List Rec) (k : Nat) (h : ∀ r ∈ recs, r.length = k) :
    recs.flatten.length = recs.length * k := by
  induction recs with
  | nil => simp
  | cons r rs ih =>
    simp only [List.flatten_cons, List.length_append, List.length_cons]
    rw [ih (fun x hx => h x (by simp [hx])), h r (by simp)]
    rw [Nat.add_mul, Nat.one_mul, Nat.add_comm]

theorem splitRecs_flatten (recs : List Rec) (k : Nat) (h : ∀ r ∈ recs, r.length = k) (rest : Bytes) :
    splitRecs k recs.length (recs.flatten ++ rest) = recs := by
  induction recs with
  | nil => rfl
  | cons r rs ih =>
    have hr : r.length = k := h r (by simp)
    simp only [List.length_cons, splitRecs, List.flatten_cons, List.append_assoc]
    rw [List.take_left' hr, List.drop_left' hr, ih (fun x hx => h x (by simp [hx]))]

/-- what `laspy.read` returns for a file of the shape produced by a writer session -/
theorem readFile_form (fin : Hdr) (hw : fin.WF) (vb : Bytes)
    (hdec : ∀ rest, decodeVlrs false fin.vlrs.length (vb ++ rest) = (fin.vlrs, rest))
    (hhs : base fin.vMinor + fin.extraHeader.length < 2 ^ 16)
    (hoff : base fin.vMinor + fin.extraHeader.length + vb.length + fin.extraVlr.length < 2 ^ 32)
    (recs : List Rec) (ev : List Vlr) (eb : Bytes)
    (hebdec : ∀ rest, decodeVlrs true ev.length (eb ++ rest) = (ev.map factory, rest))
    (hfmt : Gen.formatIds.contains (fmtOf fin) = true) (hrl : Gen.recLen (fmtOf fin) ≤ fin.recLen) (hpos : 0 < fin.recLen)
    (hrec : ∀ r ∈ recs, r.length = fin.recLen) (hcount : fin.count = recs.length)
    (hev : if ev.isEmpty then fin.nEvlrs = 0
           else fin.vMinor ≥ 4 ∧ fin.nEvlrs = ev.length ∧
             fin.evlrStart = base fin.vMinor + fin.extraHeader.length + vb.length + fin.extraVlr.length + recs.flatten.length) :
    readFile (encForm fin vb ++ recs.flatten ++ eb) =
      .ok { hdr := canon fin, records := recs, evlrs := ev.map factory } := by
  have hL := encForm_length fin hw vb
  obtain ⟨hfo, hpre⟩ := prefetch_encForm fin hw vb (recs.flatten ++ eb) hoff
  have hparse := parse_encForm fin hw vb hdec hhs hoff
  have hd : decodeHdr (encForm fin vb ++ recs.flatten ++ eb) = .ok (canon fin) := by
    rw [List.append_assoc]
    unfold decodeHdr
    rw [hpre]
    exact hparse
  have hflat := flatten_length_uniform recs fin.recLen hrec
  have hfo' : fileOffset (encForm fin vb ++ recs.flatten ++ eb) = (encForm fin vb).length := by
    rw [List.append_assoc]; exact hfo
  -- records
  have hrecs : readRecords (canon fin) (encForm fin vb).length (encForm fin vb ++ recs.flatten ++ eb) = .ok recs := by
    unfold readRecords
    have c2 : (canon fin).recLen = fin.recLen := rfl
    have c3 : (canon fin).count = fin.count := rfl
    rw [c2, c3]
    have havail : ((encForm fin vb ++ recs.flatten ++ eb).drop (encForm fin vb).length).take (fin.count * fin.recLen)
        = recs.flatten := by
      rw [List.append_assoc, List.drop_left, hcount, ← hflat, List.take_left]
    simp only [havail]
    have hmod : ¬ (fin.recLen ≠ 0 ∧ recs.flatten.length % fin.recLen ≠ 0) := by
      rw [hflat]; simp
    have hne : ¬ fin.recLen = 0 := by omega
    simp only [hmod, if_false, hne]
    have hdiv : recs.flatten.length / fin.recLen = recs.length := by
      rw [hflat, Nat.mul_div_cancel _ hpos]
    rw [hdiv]
    have := splitRecs_flatten recs fin.recLen hrec []
    simp only [List.append_nil] at this
    rw [this]
  -- EVLRs
  have hevl : readEvlrs (canon fin) (encForm fin vb ++ recs.flatten ++ eb) = ev.map factory := by
    unfold readEvlrs
    have c4 : (canon fin).vMinor = fin.vMinor := rfl
    rw [c4]
    by_cases hemp : ev.isEmpty = true
    · have hev0 : ev = [] := List.isEmpty_iff.mp hemp
      subst hev0
      simp only [List.isEmpty_nil, if_true] at hev
      have : (canon fin).nEvlrs = 0 := by simp [canon, hev]
      simp [this]
    · simp only [hemp, Bool.false_eq_true, if_false] at hev
      obtain ⟨h4, hn, hs⟩ := hev
      have hne : (canon fin).nEvlrs = ev.length := by simp [canon, h4, hn]
      have hse : (canon fin).evlrStart = (encForm fin vb).length + recs.flatten.length := by
        simp [canon, h4, hs, hL]
      have hpos' : ev.length > 0 := by
        cases hh : ev with
        | nil => simp [hh] at hemp
        | cons a l => simp
      rw [hne, hse]
      simp only [h4, hpos', and_self, if_true]
      have : (encForm fin vb ++ recs.flatten ++ eb).drop ((encForm fin vb).length + recs.flatten.length) = eb := by
        rw [← List.length_append]; exact List.drop_left
      rw [this]
      have := hebdec []
      simp only [List.append_nil] at this
      rw [this]
  unfold readFile
  rw [hd]
  simp only
  unfold readBody
  have c1 : fmtOf (canon fin) = fmtOf fin := rfl
  have c2 : (canon fin).recLen = fin.recLen := rfl
  rw [c1, c2, hfo', hrecs, hevl]
  have hnl : ¬ (fin.recLen < Gen.recLen (fmtOf fin)) := by omega
  simp only [hfmt, not_true_eq_false, if_false, hnl]

end LasModel.FileIO
