/- Extrema of chunked sessions equal extrema of the whole, under explicit float laws. -/
import LasModel.Lemmas.Session

namespace LasModel.FileIO

/-- **FloatLaws** — the assumptions on the floating-point domain under which the running
    max/min of `grow` equals the extremum of the whole cloud.  `good` singles out the values
    that occur (no NaN): the reset values and everything `render` produces.  On them `gt` is a
    strict weak order, `lt` is its converse, `render a` is monotone and ties are equal
    (IEEE: `X*s + o` for finite positive `s` is monotone in `X`; validated by correspondence). -/
structure Laws {F} (o : FOps F) (good : F → Prop) : Prop where
  good_render : ∀ a x, good (o.render a x)
  good_lowest : good o.lowest
  good_highest : good o.highest
  lt_iff : ∀ a b, o.lt a b = o.gt b a
  trans : ∀ a b c, good a → good b → good c → o.gt a b = true → o.gt b c = true → o.gt a c = true
  negtrans : ∀ a b c, good a → good b → good c → o.gt a b = false → o.gt b c = false → o.gt a c = false
  mono : ∀ a x y, x ≤ y → o.gt (o.render a x) (o.render a y) = false
  tie_eq : ∀ a x y, o.gt (o.render a x) (o.render a y) = false → o.gt (o.render a y) (o.render a x) = false →
    o.render a x = o.render a y

theorem pymax_good {F} (o : FOps F) (good : F → Prop) (a b : F) (ha : good a) (hb : good b) : good (pymax o a b) := by
  unfold pymax; split <;> assumption

theorem pymin_good {F} (o : FOps F) (good : F → Prop) (a b : F) (ha : good a) (hb : good b) : good (pymin o a b) := by
  unfold pymin; split <;> assumption

theorem pymax_merge {F} (o : FOps F) (good : F → Prop) (L : Laws o good) (ax : Nat) (m : F) (hm : good m) (x y : Int) :
    pymax o (pymax o m (o.render ax x)) (o.render ax y) = pymax o m (o.render ax (max x y)) := by
  have gu := L.good_render ax x
  have gv := L.good_render ax y
  rcases Int.le_total x y with hxy | hxy
  · rw [Int.max_eq_right hxy]
    have hm1 := L.mono ax x y hxy
    unfold pymax
    by_cases h1 : o.gt (o.render ax x) m = true
    · simp only [h1, if_true]
      by_cases h2 : o.gt (o.render ax y) (o.render ax x) = true
      · simp only [h2, if_true, L.trans _ _ _ gv gu hm h2 h1]
      · have h2' : o.gt (o.render ax y) (o.render ax x) = false := by simpa using h2
        have he := L.tie_eq ax x y hm1 h2'
        simp only [h2', Bool.false_eq_true, if_false]
        rw [← he, h1]; simp
    · simp [h1]
  · rw [Int.max_eq_left hxy]
    have hm1 := L.mono ax y x hxy
    unfold pymax
    by_cases h1 : o.gt (o.render ax x) m = true
    · simp only [h1, if_true, hm1, Bool.false_eq_true, if_false]
    · have h1' : o.gt (o.render ax x) m = false := by simpa using h1
      simp only [h1', Bool.false_eq_true, if_false]
      have := L.negtrans _ _ _ gv gu hm hm1 h1'
      simp [this]

theorem pymin_merge {F} (o : FOps F) (good : F → Prop) (L : Laws o good) (ax : Nat) (m : F) (hm : good m) (x y : Int) :
    pymin o (pymin o m (o.render ax x)) (o.render ax y) = pymin o m (o.render ax (min x y)) := by
  have gu := L.good_render ax x
  have gv := L.good_render ax y
  unfold pymin
  simp only [L.lt_iff]
  rcases Int.le_total x y with hxy | hxy
  · rw [Int.min_eq_left hxy]
    have hm1 := L.mono ax x y hxy   -- ¬ gt (r x) (r y)
    by_cases h1 : o.gt m (o.render ax x) = true
    · simp only [h1, if_true, hm1, Bool.false_eq_true, if_false]
    · have h1' : o.gt m (o.render ax x) = false := by simpa using h1
      simp only [h1', Bool.false_eq_true, if_false]
      have := L.negtrans _ _ _ hm gu gv h1' hm1
      simp [this]
  · rw [Int.min_eq_right hxy]
    have hm1 := L.mono ax y x hxy   -- ¬ gt (r y) (r x)
    by_cases h1 : o.gt m (o.render ax x) = true
    · simp only [h1, if_true]
      by_cases h2 : o.gt (o.render ax x) (o.render ax y) = true
      · simp only [h2, if_true, L.trans _ _ _ hm gu gv h1 h2]
      · have h2' : o.gt (o.render ax x) (o.render ax y) = false := by simpa using h2
        have he := L.tie_eq ax x y h2' hm1
        simp only [h2', Bool.false_eq_true, if_false]
        rw [← he, h1]; simp
    · simp [h1]

theorem foldl_max_le (xs : List Int) (a : Int) : a ≤ xs.foldl max a := by
  induction xs generalizing a with
  | nil => exact Int.le_refl _
  | cons x xs ih => exact Int.le_trans (Int.le_max_left a x) (ih _)

theorem foldl_max_assoc (xs : List Int) (a b : Int) : xs.foldl max (max a b) = max a (xs.foldl max b) := by
  induction xs generalizing b with
  | nil => rfl
  | cons x xs ih => simp only [List.foldl_cons]; rw [Int.max_assoc, ih]

theorem foldl_min_assoc (xs : List Int) (a b : Int) : xs.foldl min (min a b) = min a (xs.foldl min b) := by
  induction xs generalizing b with
  | nil => rfl
  | cons x xs ih => simp only [List.foldl_cons]; rw [Int.min_assoc, ih]

theorem intMax_append (xs ys : List Int) (hx : xs ≠ []) (hy : ys ≠ []) :
    intMax (xs ++ ys) = max (intMax xs) (intMax ys) := by
  cases xs with
  | nil => exact absurd rfl hx
  | cons x xs =>
    cases ys with
    | nil => exact absurd rfl hy
    | cons y ys =>
      simp only [intMax, List.cons_append, List.foldl_append, List.foldl_cons]
      rw [foldl_max_assoc]

theorem intMin_append (xs ys : List Int) (hx : xs ≠ []) (hy : ys ≠ []) :
    intMin (xs ++ ys) = min (intMin xs) (intMin ys) := by
  cases xs with
  | nil => exact absurd rfl hx
  | cons x xs =>
    cases ys with
    | nil => exact absurd rfl hy
    | cons y ys =>
      simp only [intMin, List.cons_append, List.foldl_append, List.foldl_cons]
      rw [foldl_min_assoc]

/-- statistics are `Good` when their extrema are good values and the lists have three entries -/
def GoodStats {F} (o : FOps F) (good : F → Prop) (s : Stats F) : Prop :=
  s.maxs.length = 3 ∧ s.mins.length = 3 ∧ (∀ m ∈ s.maxs, good m) ∧ (∀ m ∈ s.mins, good m) ∧ good o.zero

theorem list3 {α} (l : List α) (h : l.length = 3) : ∃ a b c, l = [a, b, c] := by
  match l, h with
  | [a, b, c], _ => exact ⟨a, b, c, rfl⟩

/-- growing by two non-empty chunks in turn = growing by their concatenation -/
theorem grow_grow {F} (o : FOps F) (good : F → Prop) (L : Laws o good) (fmt : Nat) (s : Stats F)
    (hs : GoodStats o good s) (a b : List Rec) (ha : a ≠ []) (hb : b ≠ []) :
    grow o fmt (grow o fmt s a) b = grow o fmt s (a ++ b) ∧ GoodStats o good (grow o fmt s a) := by
  obtain ⟨l1, l2, g1, g2, gz⟩ := hs
  obtain ⟨m0, m1, m2, hmx⟩ := list3 _ l1
  obtain ⟨n0, n1, n2, hmn⟩ := list3 _ l2
  have gm : good m0 ∧ good m1 ∧ good m2 := by
    rw [hmx] at g1; exact ⟨g1 _ (by simp), g1 _ (by simp), g1 _ (by simp)⟩
  have gn : good n0 ∧ good n1 ∧ good n2 := by
    rw [hmn] at g2; exact ⟨g2 _ (by simp), g2 _ (by simp), g2 _ (by simp)⟩
  have hane : ∀ ax, a.map (recCoord ax) ≠ [] := fun ax => by simpa using ha
  have hbne : ∀ ax, b.map (recCoord ax) ≠ [] := fun ax => by simpa using hb
  constructor
  · unfold grow
    simp only [hmx, hmn, List.range, List.range.loop, List.map_cons, List.map_nil, List.getD_cons_zero,
      List.getD_cons_succ, List.map_append, growReturns_append, List.length_append, Nat.add_assoc]
    congr 1
    · simp only [intMax_append _ _ (hane _) (hbne _), pymax_merge o good L _ _ gm.1, pymax_merge o good L _ _ gm.2.1,
        pymax_merge o good L _ _ gm.2.2]
    · simp only [intMin_append _ _ (hane _) (hbne _), pymin_merge o good L _ _ gn.1, pymin_merge o good L _ _ gn.2.1,
        pymin_merge o good L _ _ gn.2.2]
  · unfold grow GoodStats
    simp only [hmx, hmn, List.range, List.range.loop, List.map_cons, List.map_nil, List.getD_cons_zero,
      List.getD_cons_succ, List.length_cons, List.length_nil, List.mem_cons, List.not_mem_nil, or_false, true_and]
    refine ⟨?_, ?_, gz⟩
    · rintro m (h | h | h) <;> subst h
      · exact pymax_good o good _ _ gm.1 (L.good_render _ _)
      · exact pymax_good o good _ _ gm.2.1 (L.good_render _ _)
      · exact pymax_good o good _ _ gm.2.2 (L.good_render _ _)
    · rintro m (h | h | h) <;> subst h
      · exact pymin_good o good _ _ gn.1 (L.good_render _ _)
      · exact pymin_good o good _ _ gn.2.1 (L.good_render _ _)
      · exact pymin_good o good _ _ gn.2.2 (L.good_render _ _)

/-- the statistics after any sequence of chunks are those of the concatenation -/
theorem foldStats_flatten {F} (o : FOps F) (good : F → Prop) (L : Laws o good) (fmt : Nat) (s : Stats F)
    (hs : GoodStats o good s) (chunks : List (List Rec)) :
    foldStats o fmt s chunks = if chunks.flatten = [] then s else grow o fmt s chunks.flatten := by
  induction chunks generalizing s with
  | nil => simp [foldStats]
  | cons c cs ih =>
    unfold foldStats
    simp only [List.foldl_cons, List.flatten_cons]
    by_cases hc : c = []
    · subst hc
      simp only [List.isEmpty_nil, if_true, List.nil_append]
      exact ih s hs
    · have hce : c.isEmpty = false := by cases c <;> simp_all
      simp only [hce, Bool.false_eq_true, if_false]
      have hg := grow_grow o good L fmt s hs c
      have := ih (grow o fmt s c) ((hg c hc hc).2)
      unfold foldStats at this
      rw [this]
      by_cases hcs : cs.flatten = []
      · simp [hcs, hc]
      · simp only [hcs, if_false]
        have : ¬ (c ++ cs.flatten = []) := by simp [hc]
        simp only [this, if_false]
        exact (hg cs.flatten hc hcs).1

theorem resetStats_good {F} (o : FOps F) (good : F → Prop) (L : Laws o good) (gz : good o.zero) :
    GoodStats o good (resetStats o) := by
  refine ⟨by simp [resetStats], by simp [resetStats], ?_, ?_, gz⟩
  · intro m hm; simp [resetStats, List.mem_replicate] at hm; rw [hm]; exact L.good_lowest
  · intro m hm; simp [resetStats, List.mem_replicate] at hm; rw [hm]; exact L.good_highest

end LasModel.FileIO
