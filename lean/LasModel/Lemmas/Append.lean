/- The appender on files produced by the writer. -/
import LasModel.Model.Appender
import LasModel.Lemmas.ReadBack
import LasModel.Lemmas.Stats
import LasModel.Lemmas.EncCongr

namespace LasModel.Appender
open LasModel.Bytes LasModel.Header LasModel.Vlr LasModel.FileIO

theorem writeAt_append (a b data : Bytes) : writeAt (a ++ b) a.length data = a ++ data ++ b.drop data.length := by
  unfold writeAt
  have : ¬ ((a ++ b).length < a.length) := by simp
  simp only [this, if_false]
  rw [List.take_left, ← List.drop_drop, List.drop_left]

theorem writeAt_zero (enc enc' rest : Bytes) (h : enc'.length = enc.length) :
    writeAt (enc ++ rest) 0 enc' = enc' ++ rest := by
  unfold writeAt
  simp only [Nat.not_lt_zero, if_false, List.take_zero, List.nil_append, Nat.zero_add]
  rw [h, List.drop_left]

theorem appendAll_form {F} (o : FOps F) (h : Hdr) (s : AState F)
    (hh : fmtOf s.hdr = fmtOf h ∧ s.hdr.recLen = h.recLen ∧ s.hdr.vMinor = h.vMinor) (P T : Bytes)
    (hst : s.store = P ++ T) (hp : s.pos = P.length) (Bs : List (List Rec))
    (hcap : s.stats.count + Bs.flatten.length ≤ maxPointCount h.vMinor) :
    appendAll o s (Bs.map (mkChunk h)) =
      .ok { s with stats := foldStats o (fmtOf h) s.stats Bs,
                   store := P ++ Bs.flatten.flatten ++ T.drop Bs.flatten.flatten.length,
                   pos := P.length + Bs.flatten.flatten.length } := by
  induction Bs generalizing s P T with
  | nil =>
    simp only [List.map_nil, appendAll, foldStats, List.foldl_nil, List.flatten_nil, List.append_nil, List.length_nil,
      List.drop_zero, Nat.add_zero]
    rw [← hst, ← hp]
  | cons c cs ih =>
    simp only [List.map_cons, appendAll]
    have hcapc : ¬ (maxPointCount h.vMinor - s.stats.count < c.length) := by
      simp only [List.flatten_cons, List.length_append] at hcap; omega
    by_cases he : c.isEmpty = true
    · have hc0 : c = [] := List.isEmpty_iff.mp he
      subst hc0
      have : appendPoints o s (mkChunk h []) = .ok s := by
        unfold appendPoints mkChunk
        simp [hh.1, hh.2.1]
      rw [this]
      simp only
      rw [ih s hh P T hst hp (by simpa using hcap)]
      simp [foldStats]
    · have hne : ¬ c = [] := fun hc => he (by simp [hc])
      have : appendPoints o s (mkChunk h c) =
          .ok { s with stats := grow o (fmtOf h) s.stats c, store := P ++ c.flatten ++ T.drop c.flatten.length,
                       pos := P.length + c.flatten.length } := by
        unfold appendPoints mkChunk
        simp only [hh.1, hh.2.1, hh.2.2, ne_eq, not_true_eq_false, or_self, if_false, hcapc, he, Bool.false_eq_true]
        rw [hst, hp, writeAt_append]
      rw [this]
      simp only
      rw [ih { s with stats := grow o (fmtOf h) s.stats c, store := P ++ c.flatten ++ T.drop c.flatten.length,
                      pos := P.length + c.flatten.length } hh (P ++ c.flatten) (T.drop c.flatten.length)
            rfl (by simp) (by simp only [grow, List.flatten_cons, List.length_append] at hcap ⊢; omega)]
      simp [foldStats, hne, List.append_assoc, List.drop_drop, Nat.add_assoc, Nat.add_comm]


/-! ### statistics bookkeeping -/

theorem bump_getD' (l : List Nat) (i j : Nat) (hi : i < l.length) :
    (bump l i).getD j 0 = l.getD j 0 + (if i = j then 1 else 0) := by
  unfold bump
  by_cases h : i = j
  · subst h; simp [List.getD_eq_getElem?_getD, List.getElem?_set, hi]
  · simp [List.getD_eq_getElem?_getD, List.getElem?_set, h]

/-- bin `j` after growing depends only on bin `j` before -/
theorem growReturns_getD (fmt : Nat) (l : List Nat) (hl : l.length = 15) (recs : List Rec) (j : Nat) (hj : j < 15) :
    (growReturns fmt l recs).getD j 0 =
      l.getD j 0 + (recs.filter fun r => recReturn fmt r = j + 1).length := by
  unfold growReturns
  induction recs generalizing l with
  | nil => simp
  | cons r rs ih =>
    simp only [List.foldl_cons, List.filter_cons]
    by_cases h0 : recReturn fmt r = 0 ∨ recReturn fmt r > 15
    · simp only [h0, if_true]
      rw [ih l hl]
      have : ¬ recReturn fmt r = j + 1 := by omega
      simp [this]
    · simp only [h0, if_false]
      have hlt : recReturn fmt r - 1 < l.length := by omega
      rw [ih _ (by rw [bump_length]; exact hl), bump_getD' _ _ _ hlt]
      by_cases he : recReturn fmt r = j + 1
      · have : recReturn fmt r - 1 = j := by omega
        simp [he, this]; omega
      · have : ¬ recReturn fmt r - 1 = j := by omega
        simp [he, this]

theorem take5_congr (l l' : List Nat) (hl : l.length = 15) (hl' : l'.length = 15)
    (h : ∀ j < 5, l.getD j 0 = l'.getD j 0) : l.take 5 = l'.take 5 := by
  apply List.ext_getElem
  · simp [hl, hl']
  · intro i h1 h2
    have hi : i < 5 := by simp [hl] at h1; omega
    have := h i hi
    simp only [List.getElem_take]
    simp only [List.getD_eq_getElem?_getD] at this
    rw [List.getElem?_eq_getElem (by omega), List.getElem?_eq_getElem (by omega)] at this
    simpa using this

/-- growing two histograms that agree on their first five bins keeps them agreeing there -/
theorem growReturns_take5 (fmt : Nat) (l l' : List Nat) (hl : l.length = 15) (hl' : l'.length = 15)
    (h : l.take 5 = l'.take 5) (recs : List Rec) :
    (growReturns fmt l recs).take 5 = (growReturns fmt l' recs).take 5 := by
  apply take5_congr _ _ (by rw [growReturns_length]; exact hl) (by rw [growReturns_length]; exact hl')
  intro j hj
  rw [growReturns_getD fmt l hl recs j (by omega), growReturns_getD fmt l' hl' recs j (by omega)]
  have : l.getD j 0 = l'.getD j 0 := by
    have e1 : (l.take 5).getD j 0 = l.getD j 0 := by
      simp [List.getD_eq_getElem?_getD, List.getElem?_take, hj]
    have e2 : (l'.take 5).getD j 0 = l'.getD j 0 := by
      simp [List.getD_eq_getElem?_getD, List.getElem?_take, hj]
    rw [← e1, ← e2, h]
  rw [this]

theorem foldStats_append {F} (o : FOps F) (fmt : Nat) (s : Stats F) (a b : List (List Rec)) :
    foldStats o fmt s (a ++ b) = foldStats o fmt (foldStats o fmt s a) b := by
  unfold foldStats; rw [List.foldl_append]

/-- the extrema after a sequence of chunks depend only on the extrema before -/
theorem foldStats_ext_congr {F} (o : FOps F) (fmt : Nat) (s s' : Stats F) (hm : s.maxs = s'.maxs)
    (hn : s.mins = s'.mins) (Bs : List (List Rec)) :
    (foldStats o fmt s Bs).maxs = (foldStats o fmt s' Bs).maxs ∧
    (foldStats o fmt s Bs).mins = (foldStats o fmt s' Bs).mins := by
  induction Bs generalizing s s' with
  | nil => exact ⟨hm, hn⟩
  | cons c cs ih =>
    unfold foldStats
    simp only [List.foldl_cons]
    by_cases he : c.isEmpty = true
    · simp only [he, if_true]; exact ih s s' hm hn
    · simp only [he, Bool.false_eq_true, if_false]
      exact ih _ _ (by simp [grow, hm]) (by simp [grow, hn])

/-- decoding what the writer wrote (part of `readFile_form`, needed on its own) -/
theorem decode_form (fin : Hdr) (hw : fin.WF) (vb rest : Bytes)
    (hdec : ∀ rest, decodeVlrs false fin.vlrs.length (vb ++ rest) = (fin.vlrs, rest))
    (hhs : base fin.vMinor + fin.extraHeader.length < 2 ^ 16)
    (hoff : base fin.vMinor + fin.extraHeader.length + vb.length + fin.extraVlr.length < 2 ^ 32) :
    decodeHdr (encForm fin vb ++ rest) = .ok (canon fin) ∧ fileOffset (encForm fin vb ++ rest) = (encForm fin vb).length := by
  obtain ⟨hfo, hpre⟩ := prefetch_encForm fin hw vb rest hoff
  refine ⟨?_, hfo⟩
  unfold decodeHdr
  rw [hpre]
  exact parse_encForm fin hw vb hdec hhs hoff

end LasModel.Appender
