/- Which header fields the encoding depends on (so that `canon` and lost in-memory bins do not matter). -/
import LasModel.Lemmas.HeaderRT

namespace LasModel.Header
open LasModel.Bytes LasModel.Strings LasModel.Vlr

/-- two headers that are written as the same bytes -/
structure SameEnc (h h' : Hdr) : Prop where
  fsid : h.fileSourceId = h'.fileSourceId
  ge : h.globalEncoding = h'.globalEncoding
  guid : h.guid = h'.guid
  major : h.vMajor = h'.vMajor
  minor : h.vMinor = h'.vMinor
  sys : h.systemId = h'.systemId
  soft : h.software = h'.software
  doy : h.doy = h'.doy
  year : h.year = h'.year
  fmt : h.fmtByte = h'.fmtByte
  recLen : h.recLen = h'.recLen
  nvlrs : h.vlrs.length = h'.vlrs.length
  xh : h.extraHeader = h'.extraHeader
  xv : h.extraVlr = h'.extraVlr
  count : h.count = h'.count
  doubles : h.doubles = h'.doubles
  wave : h.vMinor ≥ 3 → h.waveformStart = h'.waveformStart
  v14 : h.vMinor ≥ 4 → h.evlrStart = h'.evlrStart ∧ h.nEvlrs = h'.nEvlrs ∧ h.byReturn = h'.byReturn
  legacy : h.vMinor < 4 → h.byReturn.take 5 = h'.byReturn.take 5

theorem blockC_congr (h h' : Hdr) (e : SameEnc h h') (a b : Nat) : blockC h a b = blockC h' a b := by
  unfold blockC legacyInts tailInts
  rw [← e.minor, ← e.doy, ← e.year, ← e.nvlrs, ← e.fmt, ← e.recLen, ← e.doubles, ← e.count]
  by_cases h4 : h.vMinor ≥ 4
  · obtain ⟨e1, e2, e3⟩ := e.v14 h4
    have h3 : h.vMinor ≥ 3 := by omega
    simp only [h4, h3, if_true, e.wave h3, e1, e2, e3]
  · have hl := e.legacy (by omega)
    simp only [h4, if_false, hl]
    by_cases h3 : h.vMinor ≥ 3
    · simp only [h3, if_true, e.wave h3]
    · simp only [h3, if_false]

theorem encForm_congr (h h' : Hdr) (e : SameEnc h h') (vb : Bytes) : encForm h vb = encForm h' vb := by
  unfold encForm
  rw [blockC_congr h h' e]
  rw [← e.fsid, ← e.ge, ← e.guid, ← e.major, ← e.minor, ← e.sys, ← e.soft, ← e.xh, ← e.xv]

theorem encodeHdr_congr (h h' : Hdr) (e : SameEnc h h') (hv : h.vlrs = h'.vlrs) (b : Bool) (old : Nat) :
    encodeHdr h b old = encodeHdr h' b old := by
  unfold encodeHdr
  simp only [blockC_congr h h' e, e.fsid, e.ge, e.guid, e.major, e.minor, e.sys, e.soft, e.xh, e.xv, e.count, hv]

theorem sameEnc_canon (h : Hdr) (hl : 5 ≤ h.byReturn.length) : SameEnc (canon h) h :=
  { fsid := rfl, ge := rfl, guid := rfl, major := rfl, minor := rfl, sys := rfl, soft := rfl, doy := rfl, year := rfl,
    fmt := rfl, recLen := rfl, nvlrs := rfl, xh := rfl, xv := rfl, count := rfl, doubles := rfl,
    wave := by intro h3; have h3' : h.vMinor ≥ 3 := h3; simp [canon, h3'],
    v14 := by intro h4; have h4' : h.vMinor ≥ 4 := h4; simp [canon, h4'],
    legacy := by
      intro h4
      have h4' : ¬ h.vMinor ≥ 4 := by have : (canon h).vMinor = h.vMinor := rfl; omega
      simp only [canon, h4', if_false]
      rw [List.take_append_of_le_length (by simp; omega), List.take_take]
      simp }

theorem canon_wf (h : Hdr) (hw : h.WF) : (canon h).WF :=
  { fsid := hw.fsid, ge := hw.ge, guid := hw.guid, major := hw.major, minor := hw.minor, sys := hw.sys,
    soft := hw.soft, doy := hw.doy, year := hw.year, fmt := hw.fmt, recLen := hw.recLen, count := hw.count,
    ret := by
      have hr := hw.ret
      by_cases h4 : h.vMinor ≥ 4
      · simpa [canon, h4] using hr
      · simp only [canon, h4, if_false]
        refine ⟨by simp [hr.1], ?_⟩
        intro r hrm
        rcases List.mem_append.mp hrm with hm | hm
        · have := hr.2 r (List.mem_of_mem_take hm); simpa [h4] using this
        · simp [List.mem_replicate] at hm; subst hm; first | decide | (split <;> decide),
    doubles := hw.doubles,
    wave := by simp only [canon]; split; exact hw.wave; decide,
    evlr := by
      simp only [canon]
      constructor
      · split; exact hw.evlr.1; decide
      · split; exact hw.evlr.2; decide,
    vlrs := hw.vlrs, nvlrs := hw.nvlrs }

end LasModel.Header
