/- Structure of writer sessions: what the destination holds after init / points / EVLRs / close. -/
import LasModel.Model.FileIO
import LasModel.Lemmas.HeaderRT

namespace LasModel.FileIO
open LasModel.Bytes LasModel.Header LasModel.Vlr LasModel.Layout LasModel.SubField

/-! ### histogram bounds -/

theorem bump_length (l : List Nat) (i : Nat) : (bump l i).length = l.length := by simp [bump]

theorem bump_getD_le (l : List Nat) (i j : Nat) : (bump l i).getD j 0 ≤ l.getD j 0 + 1 := by
  unfold bump
  by_cases h : i = j
  · subst h
    by_cases hl : i < l.length
    · simp [List.getD_eq_getElem?_getD, List.getElem?_set, hl]
    · simp [List.getD_eq_getElem?_getD, List.getElem?_set, hl]
  · simp [List.getD_eq_getElem?_getD, List.getElem?_set, h]

theorem growReturns_length (fmt : Nat) (l : List Nat) (c : List Rec) :
    (growReturns fmt l c).length = l.length := by
  unfold growReturns
  induction c generalizing l with
  | nil => rfl
  | cons r c ih =>
    simp only [List.foldl_cons]
    rw [ih]
    split <;> simp [bump_length]

theorem growReturns_getD_le (fmt : Nat) (l : List Nat) (c : List Rec) (j : Nat) :
    (growReturns fmt l c).getD j 0 ≤ l.getD j 0 + c.length := by
  unfold growReturns
  induction c generalizing l with
  | nil => simp
  | cons r c ih =>
    simp only [List.foldl_cons, List.length_cons]
    refine Nat.le_trans (ih _) ?_
    split
    · omega
    · have := bump_getD_le l (recReturn fmt r - 1) j; omega

theorem growReturns_append (fmt : Nat) (l : List Nat) (a b : List Rec) :
    growReturns fmt l (a ++ b) = growReturns fmt (growReturns fmt l a) b := by
  unfold growReturns; rw [List.foldl_append]

/-! ### statistics over several chunks -/

/-- statistics after a sequence of `write_points` calls (empty chunks are ignored) -/
def foldStats {F} (o : FOps F) (fmt : Nat) (s : Stats F) (chunks : List (List Rec)) : Stats F :=
  chunks.foldl (fun s c => if c.isEmpty then s else grow o fmt s c) s

theorem foldStats_count {F} (o : FOps F) (fmt : Nat) (s : Stats F) (chunks : List (List Rec)) :
    (foldStats o fmt s chunks).count = s.count + chunks.flatten.length := by
  unfold foldStats
  induction chunks generalizing s with
  | nil => simp
  | cons c cs ih =>
    simp only [List.foldl_cons, List.flatten_cons, List.length_append]
    rw [ih]
    split
    · rename_i he; simp [List.isEmpty_iff.mp he]
    · simp [grow]; omega

theorem foldStats_returns {F} (o : FOps F) (fmt : Nat) (s : Stats F) (chunks : List (List Rec)) :
    (foldStats o fmt s chunks).byReturn = growReturns fmt s.byReturn chunks.flatten := by
  unfold foldStats
  induction chunks generalizing s with
  | nil => simp [growReturns]
  | cons c cs ih =>
    simp only [List.foldl_cons, List.flatten_cons]
    rw [ih, growReturns_append]
    split
    · rename_i he; simp [List.isEmpty_iff.mp he, growReturns]
    · simp [grow]

/-! ### the writer's store -/

def mkChunk (h : Hdr) (recs : List Rec) : Chunk := ⟨fmtOf h, h.recLen, recs⟩

theorem runOps_points {F} (o : FOps F) (h : Hdr) (s : WState F) (hh : s.hdr = h) (hnd : s.done = false)
    (chunks : List (List Rec))
    (hcap : s.stats.count + chunks.flatten.length ≤ maxPointCount h.vMinor) :
    runOps o s (chunks.map fun c => WOp.points (mkChunk h c)) =
      .ok { s with stats := foldStats o (fmtOf h) s.stats chunks,
                   store := s.store ++ chunks.flatten.flatten } := by
  induction chunks generalizing s with
  | nil => simp [runOps, foldStats]
  | cons c cs ih =>
    simp only [List.map_cons, runOps, writerStep]
    by_cases he : c.isEmpty = true
    · have : writePoints o s (mkChunk h c) = .ok s := by simp [writePoints, mkChunk, he]
      rw [this]
      simp only
      have hc0 : c = [] := List.isEmpty_iff.mp he
      subst hc0
      rw [ih s hh hnd (by simpa using hcap)]
      simp [foldStats]
    · have hlen : c.length ≤ maxPointCount h.vMinor - s.stats.count := by
        simp only [List.flatten_cons, List.length_append] at hcap; omega
      have : writePoints o s (mkChunk h c) =
          .ok { s with stats := grow o (fmtOf h) s.stats c, store := s.store ++ c.flatten } := by
        unfold writePoints mkChunk
        simp only [he, hnd, hh, Bool.false_eq_true, if_false, ne_eq, not_true_eq_false, or_self]
        have : ¬ (maxPointCount h.vMinor - s.stats.count < c.length) := by omega
        simp [this]
      rw [this]
      simp only
      rw [ih { s with stats := grow o (fmtOf h) s.stats c, store := s.store ++ c.flatten } hh hnd (by
        simp only [grow, List.flatten_cons, List.length_append] at hcap ⊢; omega)]
      have hne : ¬ c = [] := fun hc => he (by simp [hc])
      simp [foldStats, hne, List.append_assoc]


/-! ### the header stays in the legal domain when only statistics change -/

structure BitsOK {F} (o : FOps F) : Prop where
  bits_lt : ∀ x, o.bits x < 2 ^ 64

theorem maxPointCount_lt (m : Nat) : maxPointCount m < (if m ≥ 4 then 2 ^ 64 else 2 ^ 32) := by
  unfold maxPointCount
  by_cases h : m ≤ 3
  · have : ¬ m ≥ 4 := by omega
    simp [h, this]
  · have : m ≥ 4 := by omega
    simp [h, this]

theorem wf_stats (h : Hdr) (hw : h.WF) (count : Nat) (byReturn doubles : List Nat) (es ne : Nat)
    (hc : count ≤ maxPointCount h.vMinor)
    (hr : byReturn.length = 15 ∧ ∀ r ∈ byReturn, r ≤ count)
    (hd : doubles.length = 12 ∧ ∀ d ∈ doubles, d < 2 ^ 64) (he : es < 2 ^ 64) (hn : ne < 2 ^ 32) :
    ({ h with count := count, byReturn := byReturn, doubles := doubles, evlrStart := es, nEvlrs := ne } : Hdr).WF :=
  { fsid := hw.fsid, ge := hw.ge, guid := hw.guid, major := hw.major, minor := hw.minor, sys := hw.sys,
    soft := hw.soft, doy := hw.doy, year := hw.year, fmt := hw.fmt, recLen := hw.recLen, count := hc,
    ret := ⟨hr.1, fun r hrm => Nat.lt_of_le_of_lt (Nat.le_trans (hr.2 r hrm) hc) (maxPointCount_lt _)⟩,
    doubles := hd, wave := hw.wave, evlr := ⟨he, hn⟩, vlrs := hw.vlrs, nvlrs := hw.nvlrs }

theorem ext_doubles {F} (o : FOps F) (bo : BitsOK o) (h : Hdr) (hw : h.WF) (mx mn : List F) :
    let ext := (List.range 3).flatMap fun a => [o.bits (mx.getD a o.zero), o.bits (mn.getD a o.zero)]
    (h.doubles.take 6 ++ ext).length = 12 ∧ ∀ d ∈ h.doubles.take 6 ++ ext, d < 2 ^ 64 := by
  intro ext
  constructor
  · simp [ext, hw.doubles.1, List.range, List.range.loop]
  · intro d hd
    rcases List.mem_append.mp hd with hd | hd
    · exact hw.doubles.2 d (List.mem_of_mem_take hd)
    · simp only [ext, List.mem_flatMap] at hd
      obtain ⟨a, _, hd⟩ := hd
      simp at hd
      rcases hd with hd | hd <;> subst hd <;> exact bo.bits_lt _

theorem mem_le_of_getD {l : List Nat} {b : Nat} (h : ∀ j, l.getD j 0 ≤ b) : ∀ r ∈ l, r ≤ b := by
  intro r hr
  obtain ⟨i, hi, rfl⟩ := List.getElem_of_mem hr
  have := h i
  simpa [List.getD_eq_getElem?_getD, hi] using this

theorem initialHdr_wf {F} (o : FOps F) (bo : BitsOK o) (h : Hdr) (hw : h.WF) : (initialHdr o h).WF := by
  unfold initialHdr
  exact wf_stats h hw 0 _ _ 0 0 (Nat.zero_le _)
    ⟨by simp [resetStats], by intro r hr; simp [resetStats, List.mem_replicate] at hr; omega⟩
    (ext_doubles o bo h hw _ _) (by decide) (by decide)

theorem withStats_wf {F} (o : FOps F) (bo : BitsOK o) (h : Hdr) (hw : h.WF) (chunks : List (List Rec))
    (es ne : Nat) (hcap : chunks.flatten.length ≤ maxPointCount h.vMinor) (he : es < 2 ^ 64) (hn : ne < 2 ^ 32) :
    (withStats o h (foldStats o (fmtOf h) (resetStats o) chunks) es ne).WF := by
  unfold withStats
  have hcount : (foldStats o (fmtOf h) (resetStats o) chunks).count = chunks.flatten.length := by
    rw [foldStats_count]; simp [resetStats]
  have hret : (foldStats o (fmtOf h) (resetStats o) chunks).byReturn =
      growReturns (fmtOf h) (List.replicate 15 0) chunks.flatten := by
    rw [foldStats_returns]; rfl
  refine wf_stats h hw _ _ _ es ne (by rw [hcount]; simpa using hcap) ⟨?_, ?_⟩ (ext_doubles o bo h hw _ _) he hn
  · rw [hret, growReturns_length]; simp
  · rw [hret, hcount]
    apply mem_le_of_getD
    intro j
    have := growReturns_getD_le (fmtOf h) (List.replicate 15 0) chunks.flatten j
    have h0 : (List.replicate 15 0).getD j 0 = 0 := by
      rw [List.getD_eq_getElem?_getD, List.getElem?_replicate]
      split <;> rfl
    omega


/-! ### the whole session -/

/-- operations of a chunked session: the chunks, then (from LAS 1.4) the EVLRs -/
def sessionOps (h : Hdr) (chunks : List (List Rec)) (ev : List Vlr) : List WOp :=
  (chunks.map fun c => WOp.points (mkChunk h c)) ++ (if h.vMinor ≥ 4 then [WOp.evlrs ev] else [])

/-- hypotheses under which a session succeeds -/
structure SessionOK {F} (o : FOps F) (h : Hdr) (chunks : List (List Rec)) (ev : List Vlr) : Prop where
  wf : h.WF
  bits : BitsOK o
  compat : ∃ r, Compat.writerInit (h.vMinor, fmtOf h) = .ok r
  hsize : base h.vMinor + h.extraHeader.length < 2 ^ 16
  offset : base h.vMinor + h.extraHeader.length +
      (h.vlrs.map fun v => headerLen false + v.payload.length).sum + h.extraVlr.length < 2 ^ 32
  cap : chunks.flatten.length ≤ maxPointCount h.vMinor
  evWF : ∀ v ∈ ev, v.WF true
  evVersion : h.vMinor < 4 → ev = []
  evCount : ev.length < 2 ^ 32
  fileSize : base h.vMinor + h.extraHeader.length +
      (h.vlrs.map fun v => headerLen false + v.payload.length).sum + h.extraVlr.length +
      chunks.flatten.flatten.length < 2 ^ 64

/-- final statistics, EVLR pointer and count of a session -/
def finalStats {F} (o : FOps F) (h : Hdr) (chunks : List (List Rec)) : Stats F :=
  foldStats o (fmtOf h) (resetStats o) chunks

def headerLenOf (h : Hdr) : Nat :=
  base h.vMinor + h.extraHeader.length + (h.vlrs.map fun v => headerLen false + v.payload.length).sum + h.extraVlr.length

def finalHdr {F} (o : FOps F) (h : Hdr) (chunks : List (List Rec)) (ev : List Vlr) : Hdr :=
  withStats o h (finalStats o h chunks)
    (if ev.isEmpty then 0 else headerLenOf h + chunks.flatten.flatten.length) (if ev.isEmpty then 0 else ev.length)

theorem overwrite_same (a a' rest : Bytes) (h : a'.length = a.length) : overwrite (a ++ rest) a' = a' ++ rest := by
  unfold overwrite
  rw [h, List.drop_left]

/-- **structure of a session's output**: the final header (statistics of all the points),
    immediately followed by the records in order, immediately followed by the EVLRs -/
theorem session_form {F} (o : FOps F) (h : Hdr) (chunks : List (List Rec)) (ev : List Vlr)
    (ok : SessionOK o h chunks ev) :
    ∃ vb eb, encodeVlrs false h.vlrs = .ok vb ∧ encodeVlrs true ev = .ok eb ∧
      vb.length = (h.vlrs.map fun v => headerLen false + v.payload.length).sum ∧
      (∀ rest, decodeVlrs false h.vlrs.length (vb ++ rest) = (h.vlrs, rest)) ∧
      (∀ rest, decodeVlrs true ev.length (eb ++ rest) = (ev.map factory, rest)) ∧
      (finalHdr o h chunks ev).WF ∧
      session o h (sessionOps h chunks ev) =
        .ok (encForm (finalHdr o h chunks ev) vb ++ chunks.flatten.flatten ++ eb) := by
  have hw := ok.wf
  have hwI := initialHdr_wf o ok.bits h hw
  obtain ⟨vb, hvb, hvl, hdec, hencI⟩ := encodeHdr_eq (initialHdr o h) hwI false 0
  have hvbI : encodeVlrs false h.vlrs = .ok vb := by simpa [initialHdr] using hvb
  obtain ⟨eb, heb, hebl, hebdec⟩ := LasModel.Props.C08.C08_framing true ev []
    (fun v hv => ⟨ok.evWF v hv, Or.inl rfl⟩)
  have hebdec' : ∀ rest, decodeVlrs true ev.length (eb ++ rest) = (ev.map factory, rest) := by
    intro rest
    obtain ⟨eb', heb', _, hd'⟩ := LasModel.Props.C08.C08_framing true ev rest
      (fun v hv => ⟨ok.evWF v hv, Or.inl rfl⟩)
    rw [heb] at heb'; injection heb' with e; subst e; exact hd'
  simp only [Bool.false_and, Bool.false_eq_true, if_false] at hencI
  have hvl' : vb.length = (h.vlrs.map fun v => headerLen false + v.payload.length).sum := by
    simpa [initialHdr] using hvl
  have hlenI := encForm_length (initialHdr o h) hwI vb
  have hHL : (encForm (initialHdr o h) vb).length = headerLenOf h := by
    rw [hlenI]; simp [initialHdr, headerLenOf, hvl']
  -- final header
  have hes : (if ev.isEmpty then 0 else headerLenOf h + chunks.flatten.flatten.length) < 2 ^ 64 := by
    split
    · decide
    · have := ok.fileSize; simp only [headerLenOf]; omega
  have hne : (if ev.isEmpty then 0 else ev.length) < 2 ^ 32 := by
    split
    · decide
    · exact ok.evCount
  have hwF : (finalHdr o h chunks ev).WF := withStats_wf o ok.bits h hw chunks _ _ ok.cap hes hne
  have hlenF := encForm_length (finalHdr o h chunks ev) hwF vb
  have hHLF : (encForm (finalHdr o h chunks ev) vb).length = headerLenOf h := by
    rw [hlenF]; simp [finalHdr, withStats, headerLenOf, hvl']
  refine ⟨vb, eb, hvbI, heb, hvl', ?_, hebdec', hwF, ?_⟩
  · intro rest; simpa [initialHdr] using hdec rest
  -- run the session
  obtain ⟨r, hr⟩ := ok.compat
  unfold session writerInit
  rw [hr]
  simp only [hencI]
  unfold sessionOps
  -- points
  have hrun := runOps_points o h
    { hdr := h, stats := resetStats o, store := encForm (initialHdr o h) vb, done := false, closed := false,
      evlrStart := 0, nEvlrs := 0, offset := (encForm (initialHdr o h) vb).length } rfl rfl chunks
    (by simpa [resetStats] using ok.cap)
  -- generic: runOps over an append
  have runOps_append : ∀ (s : WState F) (a b : List WOp) (s' : WState F),
      runOps o s a = .ok s' → runOps o s (a ++ b) = runOps o s' b := by
    intro s a
    induction a generalizing s with
    | nil => intro b s' h; simp [runOps] at h; subst h; rfl
    | cons x xs ih =>
      intro b s' h
      simp only [runOps, List.cons_append] at h ⊢
      cases hx : writerStep o s x with
      | error e => simp [hx] at h
      | ok s1 => simp only [hx] at h ⊢; exact ih s1 b s' h
  rw [runOps_append _ _ _ _ hrun]
  simp only
  by_cases h4 : h.vMinor ≥ 4
  · simp only [h4, if_true, runOps, writerStep]
    unfold writeEvlrs
    have hlt : ¬ h.vMinor < 4 := by omega
    simp only [hlt, if_false]
    by_cases hev : ev.isEmpty = true
    · have hev0 : ev = [] := List.isEmpty_iff.mp hev
      subst hev0
      have hebn : eb = [] := by
        simp [encodeVlrs, pure, Except.pure] at heb; exact heb
      subst hebn
      simp only [List.isEmpty_nil, if_true]
      unfold writerClose
      simp only
      have hclose := encodeHdr_eq (finalHdr o h chunks []) hwF true (encForm (initialHdr o h) vb).length
      obtain ⟨vb2, hvb2, _, _, henc2⟩ := hclose
      have : vb2 = vb := by
        have : encodeVlrs false h.vlrs = .ok vb2 := by simpa [finalHdr, withStats] using hvb2
        rw [hvbI] at this; injection this with e; exact e.symm
      subst this
      have hsame : (base (finalHdr o h chunks []).vMinor + (finalHdr o h chunks []).extraHeader.length + vb2.length +
          (finalHdr o h chunks []).extraVlr.length != (encForm (initialHdr o h) vb2).length) = false := by
        rw [← hlenF, hHLF, hHL]; simp
      simp only [hsame, Bool.and_false, Bool.false_eq_true, if_false] at henc2
      have hfin : finalHdr o h chunks [] = withStats o h (foldStats o (fmtOf h) (resetStats o) chunks) 0 0 := by
        simp [finalHdr, finalStats]
      rw [← hfin, henc2]
      simp only
      rw [List.append_assoc, overwrite_same _ _ _ (by rw [hHLF, hHL])]
      simp
    · simp only [hev, Bool.false_eq_true, if_false, heb]
      unfold writerClose
      simp only
      have hstore : (encForm (initialHdr o h) vb ++ chunks.flatten.flatten).length =
          headerLenOf h + chunks.flatten.flatten.length := by
        rw [List.length_append, hHL]
      have hfin : finalHdr o h chunks ev =
          withStats o h (foldStats o (fmtOf h) (resetStats o) chunks)
            (encForm (initialHdr o h) vb ++ chunks.flatten.flatten).length ev.length := by
        simp [finalHdr, finalStats, hev, hstore]
      rw [← hfin]
      have hclose := encodeHdr_eq (finalHdr o h chunks ev) hwF true (encForm (initialHdr o h) vb).length
      obtain ⟨vb2, hvb2, _, _, henc2⟩ := hclose
      have : vb2 = vb := by
        have : encodeVlrs false h.vlrs = .ok vb2 := by simpa [finalHdr, withStats] using hvb2
        rw [hvbI] at this; injection this with e; exact e.symm
      subst this
      have hsame : (base (finalHdr o h chunks ev).vMinor + (finalHdr o h chunks ev).extraHeader.length + vb2.length +
          (finalHdr o h chunks ev).extraVlr.length != (encForm (initialHdr o h) vb2).length) = false := by
        rw [← hlenF, hHLF, hHL]; simp
      simp only [hsame, Bool.and_false, Bool.false_eq_true, if_false] at henc2
      rw [henc2]
      simp only
      rw [List.append_assoc, overwrite_same _ _ _ (by rw [hHLF, hHL])]
      simp [List.append_assoc]
  · have hev0 : ev = [] := ok.evVersion (by omega)
    subst hev0
    have hebn : eb = [] := by
      simp [encodeVlrs, pure, Except.pure] at heb; exact heb
    subst hebn
    simp only [h4, if_false, runOps]
    unfold writerClose
    simp only
    have hclose := encodeHdr_eq (finalHdr o h chunks []) hwF true (encForm (initialHdr o h) vb).length
    obtain ⟨vb2, hvb2, _, _, henc2⟩ := hclose
    have : vb2 = vb := by
      have : encodeVlrs false h.vlrs = .ok vb2 := by simpa [finalHdr, withStats] using hvb2
      rw [hvbI] at this; injection this with e; exact e.symm
    subst this
    have hsame : (base (finalHdr o h chunks []).vMinor + (finalHdr o h chunks []).extraHeader.length + vb2.length +
        (finalHdr o h chunks []).extraVlr.length != (encForm (initialHdr o h) vb2).length) = false := by
      rw [← hlenF, hHLF, hHL]; simp
    simp only [hsame, Bool.and_false, Bool.false_eq_true, if_false] at henc2
    have hfin : finalHdr o h chunks [] = withStats o h (foldStats o (fmtOf h) (resetStats o) chunks) 0 0 := by
      simp [finalHdr, finalStats]
    rw [← hfin, henc2]
    simp only
    rw [overwrite_same _ _ _ (by rw [hHLF, hHL])]
    simp

end LasModel.FileIO
