import LasModel.Props.C05
open LasModel.Props.C05
#print axioms seek_spec
#print axioms step_refines
#print axioms C05_refines
#print axioms C05_read
#print axioms C05_seek
#print axioms C05_bound
#print axioms C05_bytes
#print axioms readPoints_generated
