import LasModel.Props.C15
import LasModel.Props.C15Geo
open LasModel.Props.C15
#print axioms lookup_deep
#print axioms C15_reachable
#print axioms loop_collect
#print axioms mem_collect
#print axioms anc_path
#print axioms C15_nodes_partial
#print axioms C15_malformed_revisit
#print axioms C15_malformed_undefined
#print axioms C15_outcomes
#print axioms C15_child_inside
#print axioms mono_range
#print axioms C15_range_cut
#print axioms C15_inside_kept
#print axioms C15_kept_near
#print axioms C15_2d
#print axioms C15_resolution
#print axioms lazy_collect
#print axioms C15_nodes_paged
#print axioms loop_succeeds
#print axioms C15_nodes
#print axioms groupNodes_spec
#print axioms C15_fetch
