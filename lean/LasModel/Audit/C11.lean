import LasModel.Props.C11
open LasModel.Props.C11
#print axioms round_err
#print axioms round_bounds
#print axioms apply_remove_err
#print axioms C11_assign
#print axioms C11_refused
#print axioms C11_inv_step
#print axioms C11_refused_keeps
#print axioms C11_present
#print axioms C11_write
#print axioms C11_stream
