import LasModel.Props.C03
open LasModel.Props.C03
#print axioms C03_histogram
#print axioms C03_file
#print axioms C03_extrema
#print axioms C03_mem
#print axioms C03_mem_file
