import LasModel.Props.C02
open LasModel.Props.C02
#print axioms C02_layout
#print axioms C02_sizes
#print axioms C02_formats
#print axioms C02_contiguous
#print axioms C02_dims
#print axioms C02_bits
#print axioms C02_versions
#print axioms C02_header_sizes
#print axioms C02_header_layout
#print axioms C02_vlr_header
#print axioms C02_global_encoding
#print axioms C02_extra_bytes
#print axioms C02_point
#print axioms C02_point_conv
#print axioms C02_signed
#print axioms C02_packed
#print axioms C02_packed_surjective
