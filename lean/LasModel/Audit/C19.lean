import LasModel.Props.C19
import LasModel.Props.C19Retry
open LasModel.Props.C19 LasModel.Props.C19Retry
#print axioms C19_torn_counter
#print axioms C19_truncated_counter
#print axioms splitRecs_prefix
#print axioms C19_records_prefix
#print axioms image_single
#print axioms decInts_getD
#print axioms parseHdr_fields
#print axioms mix_slice
#print axioms C19_header_rewrite
#print axioms encForm_slices
#print axioms C19_rewrite_session
#print axioms C19_short_file
#print axioms image_seq
#print axioms C19_writer_crash
#print axioms C19_intact_header
#print axioms image_over
#print axioms C19_appender_crash
#print axioms C19_truncated
#print axioms C19_rewrite_session_cut
#print axioms C19_writer_crash_torn
#print axioms C19_appender_crash_torn
#print axioms C19_count_after_write
#print axioms C19_retry
#print axioms readFile_form_tail
#print axioms C19_retry_read
