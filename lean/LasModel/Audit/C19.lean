import LasModel.Props.C19
open LasModel.Props.C19
#print axioms C19_torn_counter
#print axioms C19_truncated_counter
#print axioms splitRecs_prefix
#print axioms C19_records_prefix
#print axioms image_single
