import LasModel.Props.C16
open LasModel.Props.C16
#print axioms C16_measure
#print axioms inv_init
#print axioms inv_step
#print axioms inv_run
#print axioms C16_terminal
#print axioms C16_joined
#print axioms C16_result
#print axioms C16_bound
#print axioms C16_schedule_independent
#print axioms C16_sorted
#print axioms D16_old_shape_deadlock
