import LasModel.Props.C01
open LasModel.Props.C01
#print axioms LasModel.FileIO.session_form
#print axioms LasModel.FileIO.readFile_form
#print axioms C01_roundtrip
#print axioms C01_header_fields
#print axioms C01_pure
#print axioms C01_idempotent
