import LasModel.Props.C18
open LasModel.Props.C18
#print axioms C18_read
#print axioms C18_position
#print axioms C18_write
#print axioms C18_lasdata_write
#print axioms C18_append
#print axioms C18_write_evlrs
#print axioms C18_read_las
