import LasModel.Props.C06
open LasModel.Props.C06
#print axioms C06_placeholder
