import LasModel.Props.C06
open LasModel.Props.C06
#print axioms LasModel.Appender.appendAll_form
#print axioms statsOfHdr_final
#print axioms append_sameEnc
#print axioms C06_bytes
#print axioms C06_format
#print axioms C06_sessions
