import LasModel.Props.C04
open LasModel.Props.C04
#print axioms LasModel.FileIO.session_form
#print axioms LasModel.FileIO.foldStats_flatten
#print axioms C04_stats
#print axioms C04_bytes
#print axioms C04_empty
#print axioms C04_after_done
#print axioms C04_done_after_evlrs
#print axioms C04_done_after_close
#print axioms C04_wrong_format
