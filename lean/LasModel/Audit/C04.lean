import LasModel.Props.C04
import LasModel.Props.C04Fmt
open LasModel.Props.C04 LasModel.Props.C04Fmt
#print axioms LasModel.FileIO.session_form
#print axioms LasModel.FileIO.foldStats_flatten
#print axioms C04_stats
#print axioms C04_bytes
#print axioms C04_empty
#print axioms C04_after_done
#print axioms C04_done_after_evlrs
#print axioms C04_done_after_close
#print axioms C04_wrong_format
#print axioms tuple_fields_known
#print axioms eq_compares_every_field
#print axioms dimEq_eq
#print axioms C04_format_identity
#print axioms C04_accepted_same_length
#print axioms C04_format_refl
#print axioms D04_old_equality_conflates
