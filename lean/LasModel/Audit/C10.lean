import LasModel.Props.C10
open LasModel.Props.C10
#print axioms getBits_le
#print axioms cmp_in_range
#print axioms C10_cmp
#print axioms C10_cmp_above
#print axioms C10_cmp_col
#print axioms C10_index_sub
#print axioms C10_index_elem
#print axioms C10_index_points
#print axioms C10_minmax
#print axioms C10_delegation_ops
#print axioms C10_delegation_complete
#print axioms C10_delegation_minmax
#print axioms C10_cmp_routing
