import LasModel.Props.C08
open LasModel.Props.C08
#print axioms C08_header_len
#print axioms C08_record
#print axioms C08_oversize
#print axioms C08_oversize_list
#print axioms C08_framing
#print axioms C08_norm_idem
#print axioms C08_norm_identity
#print axioms C08_raw
#print axioms C08_factory_idem
#print axioms C08_classLookup_idem
#print axioms C08_norm_idem_all
#print axioms C08_factory_idem_all
