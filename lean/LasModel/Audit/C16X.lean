import LasModel.Props.C16X
open LasModel.Props.C16X
#print axioms X_measure
#print axioms xinv_init
#print axioms xinv_step
#print axioms xinv_run
#print axioms X_terminal
#print axioms X_bound
#print axioms C16_executor
