import LasModel.Props.C17
open LasModel.Props.C17
#print axioms C17_no_seek
#print axioms C17_evlrs_sequential
#print axioms C17_mmap_frame
