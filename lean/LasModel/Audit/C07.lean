import LasModel.Props.C07
open LasModel.Props.C07
#print axioms C07_base_sizes
#print axioms C07_roundtrip
#print axioms C07_roundtrip_exact
#print axioms C07_inplace
#print axioms C07_date
#print axioms C07_string32
#print axioms C07_compat_mkHeader
#print axioms C07_compat_setVersion
#print axioms C07_compat_setFormat
#print axioms C07_compat_setBoth
#print axioms C07_compat_convert
#print axioms C07_compat_writer
#print axioms C07_table
