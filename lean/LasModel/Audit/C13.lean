import LasModel.Props.C13
open LasModel.Props.C13
#print axioms typeRow_spec
#print axioms C13_descriptor
#print axioms C13_payload
#print axioms C13_reclen
#print axioms C13_add
#print axioms C13_remove_bad
#print axioms C13_remove
