import LasModel.Props.C14
open LasModel.Props.C14
#print axioms C14_decision_open
#print axioms C14_decision_write
#print axioms C14_bit
#print axioms C14_one_vlr
#print axioms C14_hidden
#print axioms C14_no_dup
#print axioms C14_user_vlrs
#print axioms C14_transparent
