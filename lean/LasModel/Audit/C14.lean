import LasModel.Props.C14
import LasModel.Props.C14File
import LasModel.Props.C14Append
open LasModel.Props.C14 LasModel.Props.C14File LasModel.Props.C14Append
#print axioms C14_decision_open
#print axioms C14_decision_write
#print axioms C14_bit
#print axioms C14_one_vlr
#print axioms C14_hidden
#print axioms C14_no_dup
#print axioms C14_user_vlrs
#print axioms C14_transparent
#print axioms stub_codecLaws
#print axioms sessionC_form
#print axioms C14_file_roundtrip
#print axioms C14_file_transparent
#print axioms stub_appendLaws
#print axioms readFileC_form
#print axioms C14_append_roundtrip
