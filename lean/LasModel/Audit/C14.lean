import LasModel.Props.C14
import LasModel.Props.C14File
import LasModel.Props.C14Append
import LasModel.Props.C14Sel
open LasModel.Props.C14 LasModel.Props.C14File LasModel.Props.C14Append LasModel.Props.C14Sel
#print axioms C14_decision_open
#print axioms C14_decision_write
#print axioms C14_bit
#print axioms C14_one_vlr
#print axioms C14_hidden
#print axioms C14_no_dup
#print axioms C14_user_vlrs
#print axioms C14_transparent
#print axioms stub_codecLaws
#print axioms sessionC_form
#print axioms C14_file_roundtrip
#print axioms C14_file_transparent
#print axioms stub_appendLaws
#print axioms readFileC_form
#print axioms C14_append_roundtrip
#print axioms sel_flags
#print axioms sel_all_base
#print axioms sel_skip_decompress
#print axioms sel_lazrs_map
#print axioms sel_laszip_map
#print axioms toBackend_lazrs
#print axioms toBackend_laszip
#print axioms selection_faithful
#print axioms C14_selection_lazrs
#print axioms C14_selection_laszip
#print axioms stub_disjoint
#print axioms laszip_disjoint
#print axioms stub_values
#print axioms stub_all
