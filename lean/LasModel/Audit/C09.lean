import LasModel.Props.C09
open LasModel.Props.C09
#print axioms C09_bits_of_the_dimension
#print axioms C09_masks_cover
#print axioms C09_bytes_in_layout
#print axioms C09_lsb_correct
#print axioms C09_disjoint
#print axioms C09_get_set
#print axioms C09_isolated
#print axioms getBits_of_clear_eq
#print axioms C09_siblings
#print axioms C09_range
#print axioms scatter_frame
#print axioms scatter_spec
#print axioms C09_frame
#print axioms C09_addressed
#print axioms C09_history
