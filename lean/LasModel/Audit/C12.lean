import LasModel.Props.C12
open LasModel.Props.C12
#print axioms C12_names_nodup
#print axioms C12_coords_common
#print axioms C12_common
#print axioms C12_loud
#print axioms C12_count
#print axioms C12_extra
#print axioms C12_lost
#print axioms C12_version
