import LasModel.Props.C20
open LasModel.Props.C20
#print axioms masks_spec
#print axioms set_testBit
#print axioms get_testBit
#print axioms C20_get_set
#print axioms C20_frame
#print axioms C20_independent
#print axioms C20_width
#print axioms C20_history
#print axioms C20_history_get
#print axioms C20_roundtrip
