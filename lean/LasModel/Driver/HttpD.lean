/- Driver commands for the HTTP fetch protocol model (C16). -/
import LasModel.Model.Http
import LasModel.Driver.Util
namespace LasModel.Driver.HttpD
open LasModel.Http

def showPc : WPc → String
  | .top => "top"
  | .get => "get"
  | .fetch r => s!"fetch@{r.offset}"
  | .put r ok => s!"put@{r.offset}/{if ok then 1 else 0}"
  | .taskDone => "taskdone"
  | .done => "done"

def showMain : MPc → String
  | .joinQ => "joinQ"
  | .joinT i => s!"joinT{i}"
  | .drain => "drain"
  | .finished .raised => "raised"
  | .finished (.data o) => "data:" ++ ",".intercalate (o.map fun r => toString r.offset)

def enabled (cfg : Cfg) (s : Sys) : List Nat :=
  (List.range (s.workers.length + 1)).filter fun t => (step cfg s t).isSome

def showState (cfg : Cfg) (s : Sys) : String :=
  s!"{showMain s.main}|{",".intercalate (s.workers.map showPc)}|{",".intercalate ((enabled cfg s).map toString)}"

/-- follow the schedule, printing after each step the state and the enabled set; a choice that is
    not enabled is reported and stops the run -/
def trace (cfg : Cfg) : Sys → List Nat → List String → List String
  | s, [], acc => (showState cfg s :: acc).reverse
  | s, t :: ts, acc =>
    match step cfg s t with
    | some s' => trace cfg s' ts (showState cfg s :: acc)
    | none => (s!"disabled:{t}" :: showState cfg s :: acc).reverse

def handle (args : List String) : Option String :=
  match args with
  | ["run", nowait, joinT, offs, fails, threads, sched] => do
      let offs ← Util.parseNats offs
      let fl ← Util.parseNats fails
      let reqs := offs.map fun o => (⟨o, 10⟩ : Req)
      let cfg : Cfg := ⟨nowait == "1", joinT == "1", fun r => fl.contains r.offset⟩
      let sched ← Util.parseNats sched
      return " ".intercalate (trace cfg (init reqs (← threads.toNat?)) sched [])
  | ["mu", n, threads] => do
      let n ← n.toNat?
      let reqs := (List.range n).map fun i => (⟨100 * i, 10⟩ : Req)
      return toString (mu (init reqs (← threads.toNat?)))
  | _ => none

end LasModel.Driver.HttpD
