/- Driver commands for the HTTP fetch protocol model (C16). -/
import LasModel.Model.Http
import LasModel.Driver.Util
namespace LasModel.Driver.HttpD
open LasModel.Http

def showPc : WPc → String
  | .top => "top"
  | .get => "get"
  | .fetch r => s!"fetch@{r.offset}"
  | .put r ok => s!"put@{r.offset}/{if ok then 1 else 0}"
  | .taskDone => "taskdone"
  | .done => "done"

def showMain : MPc → String
  | .joinQ => "joinQ"
  | .joinT i => s!"joinT{i}"
  | .drain => "drain"
  | .finished .raised => "raised"
  | .finished (.data o) => "data:" ++ ",".intercalate (o.map fun r => toString r.offset)

def enabled (cfg : Cfg) (s : Sys) : List Nat :=
  (List.range (s.workers.length + 1)).filter fun t => (step cfg s t).isSome

def showState (cfg : Cfg) (s : Sys) : String :=
  s!"{showMain s.main}|{",".intercalate (s.workers.map showPc)}|{",".intercalate ((enabled cfg s).map toString)}"

/-- follow the schedule, printing after each step the state and the enabled set; a choice that is
    not enabled is reported and stops the run -/
def trace (cfg : Cfg) : Sys → List Nat → List String → List String
  | s, [], acc => (showState cfg s :: acc).reverse
  | s, t :: ts, acc =>
    match step cfg s t with
    | some s' => trace cfg s' ts (showState cfg s :: acc)
    | none => (s!"disabled:{t}" :: showState cfg s :: acc).reverse

def showXW : XW → String
  | .idle => "idle"
  | .run r => s!"run@{r.offset}"
  | .exited => "exited"

def showXM : XM → String
  | .wait i => s!"wait{i}"
  | .exiting _ => "exiting"
  | .joining _ => "joining"
  | .finished .raised => "raised"
  | .finished (.data o) => "data:" ++ ",".intercalate (o.map fun r => toString r.offset)

def xenabled (f : Req → Bool) (s : XSys) : List Nat :=
  (List.range (s.workers.length + 1)).filter fun t => (xstep f s t).isSome

def showXState (f : Req → Bool) (s : XSys) : String :=
  s!"{showXM s.main}|{",".intercalate (s.workers.map showXW)}|{",".intercalate ((xenabled f s).map toString)}"

def xtrace (f : Req → Bool) : XSys → List Nat → List String → List String
  | s, [], acc => (showXState f s :: acc).reverse
  | s, t :: ts, acc =>
    match xstep f s t with
    | some s' => xtrace f s' ts (showXState f s :: acc)
    | none => (s!"disabled:{t}" :: showXState f s :: acc).reverse

def handle (args : List String) : Option String :=
  match args with
  | ["run", nowait, joinT, offs, fails, threads, sched] => do
      let offs ← Util.parseNats offs
      let fl ← Util.parseNats fails
      let reqs := offs.map fun o => (⟨o, 10⟩ : Req)
      let cfg : Cfg := ⟨nowait == "1", joinT == "1", fun r => fl.contains r.offset⟩
      let sched ← Util.parseNats sched
      return " ".intercalate (trace cfg (init reqs (← threads.toNat?)) sched [])
  | ["xrun", offs, fails, threads, sched] => do
      let offs ← Util.parseNats offs
      let fl ← Util.parseNats fails
      let reqs := offs.map fun o => (⟨o, 10⟩ : Req)
      let f : Req → Bool := fun r => fl.contains r.offset
      let sched ← Util.parseNats sched
      return " ".intercalate (xtrace f (xinit reqs (← threads.toNat?)) sched [])
  | ["mu", n, threads] => do
      let n ← n.toNat?
      let reqs := (List.range n).map fun i => (⟨100 * i, 10⟩ : Req)
      return toString (mu (init reqs (← threads.toNat?)))
  | _ => none

end LasModel.Driver.HttpD
