/- Driver commands for VLR framing and known types (C08). -/
import LasModel.Model.Vlr
import LasModel.Driver.Util
namespace LasModel.Driver.VlrD
open LasModel.Vlr LasModel.Driver.Util

def toBytes (l : List Nat) : List UInt8 := l.map UInt8.ofNat
def ofBytes (l : List UInt8) : List Nat := l.map (·.toNat)

def parseRec (s : String) : Option Vlr :=
  match s.splitOn ":" with
  | [u, r, d, p] => do
      return ⟨toBytes (← parseHex u), ← r.toNat?, toBytes (← parseHex d), toBytes (← parseHex p)⟩
  | _ => none

def showRec (v : Vlr) : String :=
  s!"{toHex (ofBytes v.userId)}:{v.recordId}:{toHex (ofBytes v.description)}:{toHex (ofBytes v.payload)}"

def handle (args : List String) : Option String :=
  match args with
  | "enc" :: ext :: recs => do
      let vs ← recs.mapM parseRec
      match encodeVlrs (ext == "1") vs with
      | .ok bs => return "ok " ++ toHex (ofBytes bs)
      | .error .tooLong => return "err TooLong"
      | .error .other => return "err Other"
  | ["dec", ext, n, hex] => do
      let (vs, rest) := decodeVlrs (ext == "1") (← n.toNat?) (toBytes (← parseHex hex))
      return " ".intercalate (vs.map showRec) ++ s!" | {rest.length}"
  | ["norm", u, r, p] => do
      let uid := toBytes (← parseHex u)
      match classify uid (← r.toNat?) with
      | none => return "unknown"
      | some k => match norm k (toBytes (← parseHex p)) with
        | some q => return "some " ++ toHex (ofBytes q)
        | none => return "none"
  | _ => none

end LasModel.Driver.VlrD
