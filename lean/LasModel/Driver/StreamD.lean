/- Driver commands for the stream ownership / access path model (C17, C18). -/
import LasModel.Model.Streams
import LasModel.Props.C18
namespace LasModel.Driver.StreamD
open LasModel.Streams

def b (s : String) : Bool := s == "1"

def callName : Call → String
  | .read => "read" | .readinto => "readinto" | .write => "write" | .seek => "seek" | .tell => "tell"
  | .seekable => "seekable" | .close => "close"

def showStream (s : Stream) : String :=
  s!"closed={if s.closed then 1 else 0} pos={s.pos} log={",".intercalate (s.log.map callName)}"

def parseFile (a : List String) : Option FileInfo :=
  match a with
  | [sig, hc, coh, wr, m4, np, ne, off, rl] => do
      return ⟨b sig, b hc, b coh, b wr, b m4, ← np.toNat?, ← ne.toNat?, ← off.toNat?, ← rl.toNat?⟩
  | _ => none

def handle (args : List String) : Option String :=
  match args with
  | "read" :: sk :: ri :: sig :: hc :: coh :: wr :: m4 :: np :: ne :: off :: rl :: cfd :: rev :: ops => do
      let f ← parseFile [sig, hc, coh, wr, m4, np, ne, off, rl]
      let s : Stream := ⟨b sk, b ri, 0, false, []⟩
      let ops ← ops.mapM fun o => if o = "a" then some Props.C18.ROp.all else (o.drop 1).toNat?.map Props.C18.ROp.points
      match openRead s f (b cfd) (b rev) with
      | .error s' => return "err " ++ showStream s'
      | .ok r =>
        let posOpen := r.stream.pos
        let r := Props.C18.runR r ops
        return s!"ok open_pos={posOpen} " ++ showStream (closeReader r)
  | ["write", cfd, comp, body] => do
      let s : Stream := ⟨true, true, 0, false, []⟩
      return showStream (writeSession s (b cfd) (b comp) (b body))
  | ["writeev", cfd, pts, body] => do
      let s : Stream := ⟨true, true, 0, false, []⟩
      return showStream (writeSessionEvlrs s (b cfd) (b pts) (b body))
  | "readlas" :: sk :: ri :: sig :: hc :: coh :: wr :: m4 :: np :: ne :: off :: rl :: cfd :: late :: [] => do
      let f ← parseFile [sig, hc, coh, wr, m4, np, ne, off, rl]
      let s : Stream := ⟨b sk, b ri, 0, false, []⟩
      let lf := if late = "source" then LateFailure.source else if late = "read" then LateFailure.read else LateFailure.none
      let (s', fl) := readLas s f (b cfd) lf
      return (match fl with | .none => "ok " | .laspy => "laspy " | .other => "other ") ++ showStream s'
  | "append" :: sk :: sig :: hc :: coh :: wr :: m4 :: np :: ne :: off :: rl :: cfd :: body :: [] => do
      let f ← parseFile [sig, hc, coh, wr, m4, np, ne, off, rl]
      let s : Stream := ⟨b sk, true, 0, false, []⟩
      let (s', fl) := appendSession s f (b cfd) (b body)
      return (match fl with | .none => "ok " | .laspy => "laspy " | .other => "other ") ++ showStream s'
  | _ => none

end LasModel.Driver.StreamD
