/- Driver commands for the generated GlobalEncoding functions (C20). -/
import LasModel.Gen.Funs
namespace LasModel.Driver.Ge
open Gen.GE

def setFlag (flag : String) (v : Nat) (b : Nat) : Option Nat :=
  match flag with
  | "gps_time_type" => some (set_gps_time_type v b)
  | "waveform_data_packets_internal" => some (set_waveform_data_packets_internal v (b != 0))
  | "waveform_data_packets_external" => some (set_waveform_data_packets_external v (b != 0))
  | "synthetic_return_numbers" => some (set_synthetic_return_numbers v (b != 0))
  | "wkt" => some (set_wkt v (b != 0))
  | _ => none

def getFlag (flag : String) (v : Nat) : Option Nat :=
  match flag with
  | "gps_time_type" => some (get_gps_time_type v)
  | "waveform_data_packets_internal" => some (get_waveform_data_packets_internal v).toNat
  | "waveform_data_packets_external" => some (get_waveform_data_packets_external v).toNat
  | "synthetic_return_numbers" => some (get_synthetic_return_numbers v).toNat
  | "wkt" => some (get_wkt v).toNat
  | _ => none

/-- `ge sweep <flag> <b> <lo> <hi>` : one line with set/get results for every v in [lo,hi) -/
def sweep (flag : String) (b lo hi : Nat) : Option String := do
  let mut acc : Array String := #[]
  for v in [lo:hi] do
    let s ← setFlag flag v b
    let g ← getFlag flag s
    acc := acc.push s!"{s}:{g}"
  return " ".intercalate acc.toList

def handle (args : List String) : Option String :=
  match args with
  | ["set", flag, v, b] => do
      let s ← setFlag flag (← v.toNat?) (← b.toNat?)
      return toString s
  | ["get", flag, v] => do
      let g ← getFlag flag (← v.toNat?)
      return toString g
  | ["sweep", flag, b, lo, hi] => do sweep flag (← b.toNat?) (← lo.toNat?) (← hi.toNat?)
  | "run" :: v :: ops => do
      -- ops: flag=b ...
      let mut s ← v.toNat?
      for op in ops do
        match op.splitOn "=" with
        | [f, b] => s ← setFlag f s (← b.toNat?)
        | _ => none
      return toString s
  | _ => none

end LasModel.Driver.Ge
