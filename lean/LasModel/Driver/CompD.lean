/- Driver commands for the compression glue (C14). -/
import LasModel.Model.Compress
import LasModel.Driver.Util
namespace LasModel.Driver.CompD
open LasModel.Compress

def optB (s : String) : Option (Option Bool) :=
  if s = "-" then some none else if s = "1" then some (some true) else if s = "0" then some (some false) else none

def dest (s : String) : Dest := if s = "stream" then .stream else .path s

def handle (args : List String) : Option String :=
  match args with
  | ["open", d, dc, bg] => do return if openDecision (dest d) (← optB dc) (bg == "1") then "1" else "0"
  | ["write", d, dc, bg] => do return if writeDecision (dest d) (← optB dc) (bg == "1") then "1" else "0"
  | ["bit", f] => do
      let f ← f.toNat?
      let c := Gen.Compression.uncompressed_id_to_compressed f
      return s!"{c} {if Gen.Compression.is_point_format_compressed c then 1 else 0} {Gen.Compression.compressed_id_to_uncompressed c} {if Gen.Compression.is_point_format_compressed f then 1 else 0}"
  | ["vlrs", c, rd, l] => do
      -- l: string of 0/1 (1 = a LasZip record in the caller's list); written then presented
      let vs := (l.toList.filter (· != '-')).zipIdx.map fun (ch, i) => (⟨ch == '1', i + 1⟩ : V)
      let w := writtenVlrs (c == "1") vs
      let p := presentedVlrs (c == "1") w
      let sh (x : List V) := String.mk (x.map fun v => if v.isLasZip then 'Z' else 'u')
      return s!"{sh w} {if rd == "1" then sh p else "-"}"
  | _ => none

end LasModel.Driver.CompD
