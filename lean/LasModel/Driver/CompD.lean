/- Driver commands for the compression glue (C14). -/
import LasModel.Model.Compress
import LasModel.Model.CompressIO
import LasModel.Driver.FileD
namespace LasModel.Driver.CompD
open LasModel.Compress LasModel.CompressIO LasModel.FileIO LasModel.Driver.Util LasModel.Driver.VlrD LasModel.Driver.HdrD LasModel.Driver.FileD

def optB (s : String) : Option (Option Bool) :=
  if s = "-" then some none else if s = "1" then some (some true) else if s = "0" then some (some false) else none

def dest (s : String) : Dest := if s = "stream" then .stream else .path s

def handle (args : List String) : Option String :=
  match args with
  | ["open", d, dc, bg] => do return if openDecision (dest d) (← optB dc) (bg == "1") then "1" else "0"
  | ["write", d, dc, bg] => do return if writeDecision (dest d) (← optB dc) (bg == "1") then "1" else "0"
  | ["bit", f] => do
      let f ← f.toNat?
      let c := Gen.Compression.uncompressed_id_to_compressed f
      return s!"{c} {if Gen.Compression.is_point_format_compressed c then 1 else 0} {Gen.Compression.compressed_id_to_uncompressed c} {if Gen.Compression.is_point_format_compressed f then 1 else 0}"
  | ["vlrs", c, rd, l] => do
      -- l: string of 0/1 (1 = a LasZip record in the caller's list); written then presented
      let vs := (l.toList.filter (· != '-')).zipIdx.map fun (ch, i) => (⟨ch == '1', i + 1⟩ : V)
      let w := writtenVlrs (c == "1") vs
      let p := presentedVlrs (c == "1") w
      let sh (x : List V) := String.mk (x.map fun v => if v.isLasZip then 'Z' else 'u')
      return s!"{sh w} {if rd == "1" then sh p else "-"}"
  | "session" :: cs :: rest => do
      -- a compressed writer session on the backend double with chunk size `cs`
      let cs ← cs.toNat?
      let (hargs, ops) := splitAt "--" rest
      let (h, _, _) ← parseHdrArgs hargs
      let ops ← ops.mapM parseOp
      match sessionC (stubCodec cs) (floatOps h) h ops with
      | .ok bs => return "ok " ++ toHex (ofBytes bs)
      | .error e => return "err " ++ werr e
  | "append" :: cs :: hex :: ops => do
      let cs ← cs.toNat?
      let file := toBytes (← parseHex hex)
      let ops ← ops.mapM parseOp
      let chunks := ops.filterMap fun op => match op with | .points c => some c | _ => none
      let o := match Header.decodeHdr file with
        | .ok h => floatOps h
        | .error _ => floatOps emptyHdr
      match appendSessionC (stubCodec cs) o file chunks with
      | .ok bs => return "ok " ++ toHex (ofBytes bs)
      | .error _ => return "err"
  | ["read", cs, hex] => do
      let cs ← cs.toNat?
      match readFileC (stubCodec cs) (toBytes (← parseHex hex)) with
      | .ok r =>
          let recs := toHex (ofBytes r.records.flatten)
          let ev := " ".intercalate (r.evlrs.map showRec)
          return s!"ok {showHdr r.hdr} # {r.records.length} {recs} # {ev}"
      | .error (.read e) => return "err " ++ rerr e
      | .error .noLasZip => return "err NoLasZip"
      | .error .decompress => return "err Decompress"
  | _ => none

end LasModel.Driver.CompD
