/- Driver commands for extra dimensions (C13). -/
import LasModel.Model.ExtraDims
import LasModel.Driver.VlrD
namespace LasModel.Driver.XdD
open LasModel.ExtraDims LasModel.Driver.Util LasModel.Driver.VlrD

def parseScaling (sc : String) : Option (Option (List Nat × List Nat)) :=
  if sc = "-" then some none else
  match sc.splitOn ";" with
  | [a, b] => do
      let x ← parseNats a
      let y ← parseNats b
      return some (x, y)
  | _ => none

def parseDim (s : String) : Option ExtraDim :=
  match s.splitOn ":" with
  | [n, d, t, c, sc] => do
      let scaling ← parseScaling sc
      let nm ← parseHex n
      let ds ← parseHex d
      let ti ← t.toNat?
      let cn ← c.toNat?
      return { name := toBytes nm, description := toBytes ds, typeId := ti, count := cn, scaling := scaling }
  | _ => none

def showDim (d : ExtraDim) : String :=
  let sc := match d.scaling with | some (a, b) => showNats a ++ ";" ++ showNats b | none => "-"
  s!"{toHex (ofBytes d.name)}:{toHex (ofBytes d.description)}:{d.typeId}:{d.count}:{sc}"

def splitDims (m : LasMem) (rec : List UInt8) : (List UInt8 × List (List UInt8)) :=
  let rec go (bs : List UInt8) : List ExtraDim → List (List UInt8)
    | [] => []
    | d :: ds => bs.take (dimSize d) :: go (bs.drop (dimSize d)) ds
  (rec.take m.std, go (rec.drop m.std) m.dims)

def chunk (n : Nat) (bs : List UInt8) : List (List UInt8) :=
  if n = 0 then [] else
  let rec go : Nat → List UInt8 → List (List UInt8)
    | 0, _ => []
    | k + 1, b => b.take n :: go k (b.drop n)
  go (bs.length / n) bs

def handle (args : List String) : Option String :=
  match args with
  | ["desc", d] => do return toHex (ofBytes (descriptor (← parseDim d)))
  | ["parse", hex] => do return " ".intercalate ((parsePayload (toBytes (← parseHex hex))).map showDim)
  | "hist" :: std :: dims :: recs :: ops => do
      let std ← std.toNat?
      let ds ← if dims = "-" then some [] else (dims.splitOn "|").mapM parseDim
      let m0 : LasMem := { std := std, dims := ds, recs := [] }
      let raw := toBytes (← parseHex recs)
      let m0 := { m0 with recs := (chunk (recLen m0) raw).map (splitDims m0) }
      let mut m := m0
      let mut flags := ""
      for op in ops do
        match op.splitOn "=" with
        | ["A", l] =>
          let nd ← (l.splitOn "|").mapM parseDim
          m := addDims m nd
          flags := flags ++ "1"
        | ["R", l] =>
          let names ← (l.splitOn "|").mapM fun x => (parseHex x).map toBytes
          match removeDims m names with
          | .ok m' => m := m'; flags := flags ++ "1"
          | .error _ => flags := flags ++ "0"
        | _ => none
      return s!"{if flags.isEmpty then "-" else flags} {recLen m} {toHex (ofBytes (m.recs.flatMap flatRec))} {toHex (ofBytes (payload m.dims))}"
  | _ => none

end LasModel.Driver.XdD
