/- driver commands for the point-format equality model: `fe eq <idA> <idB> <dimsA> <dimsB>`;
   a dimension list is `-` (none) or dims joined by `;`, a dimension is
   `name:kind:bits:elems:std:description:offsets:scales` with name/description as identifiers made by the harness (no spaces, `:` or `;`)
   and offsets/scales `n` (None) or integers joined by `,` -/
import LasModel.Model.FormatEq

namespace LasModel.Driver.FmtD
open LasModel.FormatEq

def parseInts (s : String) : Option (Option (List Int)) :=
  if s = "n" then some none
  else ((s.splitOn ",").mapM (fun (t : String) => t.toInt?)).map some

def parseDim (s : String) : Option XDim :=
  match s.splitOn ":" with
  | [name, kind, bits, elems, std, desc, offs, scs] => do
    let k ← kind.toNat?
    let b ← bits.toNat?
    let e ← elems.toNat?
    let o ← parseInts offs
    let c ← parseInts scs
    some { name := name, kind := k, numBits := b, numElements := e, isStandard := std = "1", description := desc, offsets := o, scales := c }
  | _ => none

def parseDims (s : String) : Option (List XDim) :=
  if s = "-" then some [] else (s.splitOn ";").mapM parseDim

def handle : List String → Option String
  | ["eq", a, b, xs, ys] => do
    let ia ← a.toNat?
    let ib ← b.toNat?
    let dx ← parseDims xs
    let dy ← parseDims ys
    some (if codeEq ia ib dx dy then "1" else "0")
  | ["fields"] => some (",".intercalate Gen.FormatEq.dimFields ++ " | " ++ ",".intercalate Gen.FormatEq.tupleFields ++
      s!" | id={Gen.FormatEq.comparesId} all={Gen.FormatEq.pairsAll}")
  | _ => none

end LasModel.Driver.FmtD
