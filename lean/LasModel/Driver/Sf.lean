/- Driver commands for the sub-field model (C09, C10). -/
import LasModel.Model.SubField
import LasModel.Model.Views
import LasModel.Driver.Util
namespace LasModel.Driver.Sf
open LasModel.SubField LasModel.Driver.Util

def showRes : Except Err (List Nat) → String
  | .ok c => "ok " ++ toHex c
  | .error .overflow => "err Overflow"
  | .error .index => "err Index"
  | .error .other => "err Other"

def handle (args : List String) : Option String :=
  match args with
  | ["sweep", mask, v] => do
      -- one-byte assignment of v on every prior byte 0..255
      let m ← mask.toNat?
      let v ← v.toInt?
      let res := (List.range 256).map fun b =>
        match assignCol m [b] [0] [v] with
        | .ok [x] => hexOfNat x
        | .ok _ => "??"
        | .error _ => "EE"
      return String.join res
  | ["assign", mask, col, idxs, vals] => do
      return showRes (assignCol (← mask.toNat?) (← parseHex col) (← parseNats idxs) (← parseInts vals))
  | ["read", mask, col] => do
      return showNats (readCol (← mask.toNat?) (← parseHex col))
  | ["cmp", op, mask, col, c] => do
      let op ← match op with
        | "lt" => some Views.Cmp.lt | "le" => some Views.Cmp.le
        | "gt" => some Views.Cmp.gt | "ge" => some Views.Cmp.ge | _ => none
      let r := Views.cmpCol op (← mask.toNat?) (← parseHex col) (← c.toInt?)
      return String.mk (r.map fun b => if b then '1' else '0')
  | ["index", mask, col, idxs] => do
      return showNats (Views.indexSub (← mask.toNat?) (← parseHex col) (← parseNats idxs))
  | ["max", mask] => do return toString (maxOf (← mask.toNat?))
  | _ => none

end LasModel.Driver.Sf
