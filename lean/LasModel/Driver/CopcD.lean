/- Driver commands for the COPC model (C15). Rationals are written `num/den`; `inf` = unbounded face. -/
import LasModel.Model.Copc
import LasModel.Driver.Util
import LasModel.Driver.ScalD
namespace LasModel.Driver.CopcD
open LasModel.Copc Gen.Copc LasModel.Driver.ScalD

def parseKey (s : String) : Option Key :=
  match s.splitOn "." with
  | [l, x, y, z] => do return ⟨← l.toNat?, ← x.toNat?, ← y.toNat?, ← z.toNat?⟩
  | _ => none

def showKey (k : Key) : String := s!"{k.level}.{k.x}.{k.y}.{k.z}"

def parseEntry (s : String) : Option (Key × Entry) :=
  match s.splitOn ":" with
  | [k, o, sz, c] => do return (← parseKey k, ⟨← o.toNat?, ← sz.toNat?, ← c.toInt?⟩)
  | _ => none

def parsePage (s : String) : Option Page :=
  if s = "-" then some [] else (s.splitOn ",").mapM parseEntry

def parsePages (s : String) : Option (List (Ref × Page)) :=
  if s = "-" then some [] else
  (s.splitOn ";").mapM fun p =>
    match p.splitOn "=" with
    | [r, es] =>
      match r.splitOn ":" with
      | [o, sz] => do return ((← o.toNat?, ← sz.toNat?), ← parsePage es)
      | _ => none
    | _ => none

def parseFace (s : String) : Option (Option Rat) :=
  if s = "inf" then some none else (parseRat s).map some

def parseBox (s : String) : Option (Option Box) :=
  if s = "-" then some none else
  match s.splitOn "," with
  | [a, b, c, d, e, f] => do
      return some ⟨← parseFace a, ← parseFace b, ← parseFace c, ← parseFace d, ← parseFace e, ← parseFace f⟩
  | _ => none

def parseNode (t : String) : Option Node :=
  match t.splitOn ":" with
  | [k, o, sz, c] => do return ⟨← parseKey k, ← o.toNat?, ← sz.toNat?, ← c.toInt?⟩
  | _ => none

def showNode (n : Node) : String := s!"{showKey n.key}:{n.offset}:{n.byteSize}:{n.count}"

def handle (args : List String) : Option String :=
  match args with
  | ["load", geo, box, rng, root, pages] => do
      let g ← parseRats geo
      let geo : Geo ← match g with | [a, b, c, d] => some ⟨a, b, c, d⟩ | _ => none
      let box ← parseBox box
      let ov : Key → Bool := match box with | none => fun _ => true | some b => ovKey geo b
      let q : Query ← if rng = "-" then some (noRangeQuery ov) else
        match (← Util.parseInts rng) with
        | [a, b, c] => some (rangeQuery ov a b c)
        | _ => none
      let H : Hier := ⟨← parsePage root, ← parsePages pages⟩
      match load H q with
      | .ok st => return "ok " ++ " ".intercalate (st.out.map showNode)
      | .error e => return "err " ++ e
  | ["fetch", nodes] => do
      -- nodes in traversal order; prints the read requests and the chunk table
      let ns ← if nodes = "-" then some [] else (nodes.splitOn ",").mapM parseNode
      let gs := groupNodes (sortNodes ns)
      let qs := byteQueries gs
      return ",".intercalate (qs.map fun q => s!"{q.1}:{q.2}") ++ " | " ++
        ",".intercalate ((chunkTable gs.flatten).map fun c => s!"{c.1}:{c.2}")
  | ["grid", s, o, b0, b1, x] => do
      let s ← parseRat s
      let o ← parseRat o
      let b0 ← parseFace b0
      let b1 ← parseFace b1
      let x ← x.toInt?
      return s!"{gridLo s o b0} {gridHi s o b1} {if keepAxis s o b0 b1 x then 1 else 0}"
  | ["res", sp, r] => do return toString (levelMax (← parseRat sp) (← parseRat r) 80)
  | ["child", k, d] => do return showKey (child (← parseKey k) (← d.toNat?))
  | ["inrange", a, b, c, l] => do
      return if inPyRange (← a.toInt?) (← b.toInt?) (← c.toInt?) (← l.toNat?) then "1" else "0"
  | _ => none

end LasModel.Driver.CopcD
