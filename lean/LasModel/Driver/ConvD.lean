/- Driver commands for point-format conversion (C12). -/
import LasModel.Model.Convert
import LasModel.Driver.FileD
namespace LasModel.Driver.ConvD
open LasModel.Convert LasModel.Driver.Util LasModel.Driver.VlrD LasModel.Driver.FileD

def handle (args : List String) : Option String :=
  match args with
  | ["recs", src, tgt, reclen, hex] => do
      let recs := chunkRecs (← reclen.toNat?) (toBytes (← parseHex hex))
      match convertRecs (← src.toNat?) (← tgt.toNat?) recs with
      | .ok out => return "ok " ++ toHex (ofBytes out.flatten)
      | .error .overflow => return "err Overflow"
      | .error .format => return "err Format"
  | ["lost", a, b] => do
      return " ".intercalate (lostDimensions (← a.toNat?) (← b.toNat?))
  | ["names", f] => do return " ".intercalate (namesOf (← f.toNat?))
  | _ => none

end LasModel.Driver.ConvD
