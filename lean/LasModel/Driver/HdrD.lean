/- Driver commands for the header codec, dates and the compatibility API (C07). -/
import LasModel.Model.Header
import LasModel.Model.Date
import LasModel.Model.Compat
import LasModel.Driver.VlrD
namespace LasModel.Driver.HdrD
open LasModel.Header LasModel.Driver.Util LasModel.Driver.VlrD

def errName : Err → String
  | .empty => "Empty" | .signature => "Signature" | .tooSmall => "TooSmall" | .headerSize => "HeaderSize"
  | .offset => "Offset" | .countTooLarge => "CountTooLarge" | .version => "Version"
  | .vlrTooLong => "VlrTooLong" | .sameSize => "SameSize"

def parseHdrArgs (a : List String) : Option (Hdr × Bool × Nat) :=
  match a with
  | fsid :: ge :: guid :: vmaj :: vmin :: sys :: soft :: doy :: year :: fmt :: reclen :: count :: ret :: dbl ::
      wave :: evlr :: nevlr :: xh :: xv :: ensure :: old :: vlrs => do
    let vs ← vlrs.mapM parseRec
    let fsid ← fsid.toNat?
    let ge ← ge.toNat?
    let guid ← parseHex guid
    let vmaj ← vmaj.toNat?
    let vmin ← vmin.toNat?
    let sys ← parseHex sys
    let soft ← parseHex soft
    let doy ← doy.toNat?
    let year ← year.toNat?
    let fmt ← fmt.toNat?
    let reclen ← reclen.toNat?
    let count ← count.toNat?
    let ret ← parseNats ret
    let dbl ← parseNats dbl
    let wave ← wave.toNat?
    let evlr ← evlr.toNat?
    let nevlr ← nevlr.toNat?
    let xh ← parseHex xh
    let xv ← parseHex xv
    let old ← old.toNat?
    let h : Hdr := {
      fileSourceId := fsid
      globalEncoding := ge
      guid := toBytes guid
      vMajor := vmaj
      vMinor := vmin
      systemId := toBytes sys
      software := toBytes soft
      doy := doy
      year := year
      fmtByte := fmt
      recLen := reclen
      count := count
      byReturn := ret
      doubles := dbl
      waveformStart := wave
      evlrStart := evlr
      nEvlrs := nevlr
      extraHeader := toBytes xh
      vlrs := vs
      extraVlr := toBytes xv }
    return (h, ensure == "1", old)
  | _ => none

def showHdr (h : Hdr) : String :=
  " ".intercalate ([toString h.fileSourceId, toString h.globalEncoding, toHex (ofBytes h.guid), toString h.vMajor,
    toString h.vMinor, toHex (ofBytes h.systemId), toHex (ofBytes h.software), toString h.doy, toString h.year,
    toString h.fmtByte, toString h.recLen, toString h.count, showNats h.byReturn, showNats h.doubles,
    toString h.waveformStart, toString h.evlrStart, toString h.nEvlrs, toHex (ofBytes h.extraHeader),
    toHex (ofBytes h.extraVlr), toString h.vlrs.length] ++ h.vlrs.map showRec)

def apiErr : Compat.ApiErr → String
  | .formatNotSupported => "FormatNotSupported" | .versionNotSupported => "VersionNotSupported"
  | .incompatible => "Incompatible"

def showPair : Except Compat.ApiErr (Nat × Nat) → String
  | .ok (v, f) => s!"ok {v} {f}"
  | .error e => "err " ++ apiErr e

def optNat (s : String) : Option (Option Nat) := if s = "-" then some none else s.toNat?.map some

def handle (args : List String) : Option String :=
  match args with
  | "enc" :: rest => do
      let (h, ens, old) ← parseHdrArgs rest
      match encodeHdr h ens old with
      | .ok bs => return "ok " ++ toHex (ofBytes bs)
      | .error e => return "err " ++ errName e
  | ["dec", hex] => do
      match decodeHdr (toBytes (← parseHex hex)) with
      | .ok h => return "ok " ++ showHdr h
      | .error e => return "err " ++ errName e
  | ["date", y, d] => do
      match Date.fromYearDay (← y.toNat?) (← d.toNat?) with
      | .date c => return s!"{c.y}-{c.m}-{c.d}"
      | .none => return "none"
      | .overflow => return "overflow"
  | ["yday", y, m, d] => do
      return toString (Date.dayOfYear ⟨← y.toNat?, ← m.toNat?, ← d.toNat?⟩)
  | ["mk", v, f] => do return showPair (Compat.mkHeader (← optNat v) (← optNat f))
  | ["setv", cv, cf, v] => do return showPair (Compat.setVersion (← cv.toNat?, ← cf.toNat?) (← v.toNat?))
  | ["setf", cv, cf, f] => do return showPair (Compat.setFormat (← cv.toNat?, ← cf.toNat?) (← f.toNat?))
  | ["both", v, f] => do return showPair (Compat.setBoth (← v.toNat?) (← f.toNat?))
  | ["conv", cur, f, req] => do return showPair (Compat.convert (← cur.toNat?) (← f.toNat?) (← optNat req))
  | ["writer", v, f] => do return showPair (Compat.writerInit (← v.toNat?, ← f.toNat?))
  | _ => none

end LasModel.Driver.HdrD
