/- Driver commands for the scaling model (C11). Rationals are written `num/den`. -/
import LasModel.Model.Scaling
import LasModel.Driver.Util
namespace LasModel.Driver.ScalD
open LasModel.Scaling LasModel.Driver.Util

def parseRat (s : String) : Option Rat :=
  match s.splitOn "/" with
  | [n] => do return ((← n.toInt?) : Rat)
  | [n, d] => do return mkRat (← n.toInt?) (← d.toNat?)
  | _ => none

def parseRats (s : String) : Option (List Rat) :=
  if s = "-" then some [] else (s.splitOn ",").mapM parseRat

def optRats (s : String) : Option (Option (List Rat)) :=
  if s = "-" then some none else (parseRats s).map some

def parseOp (s : String) : Option Op :=
  match s.splitOn ":" with
  | ["hs", a, v] => do return .hdrEditScale (← a.toNat?) (← parseRat v)
  | ["ho", a, v] => do return .hdrEditOffset (← a.toNat?) (← parseRat v)
  | ["HS", v] => do return .hdrRebindScales (← parseRats v)
  | ["HO", v] => do return .hdrRebindOffsets (← parseRats v)
  | ["al", a, v] => do return .assignLas (← a.toNat?) (← parseRats v)
  | ["ar", a, v] => do return .assignRec (← a.toNat?) (← parseRats v)
  | ["cs", s, o] => do return .changeScaling (← optRats s) (← optRats o)
  | _ => none

def showRat (r : Rat) : String := s!"{r.num}/{r.den}"
def showCols (pts : List (List Int)) : String := ";".intercalate (pts.map showInts)

def handle (args : List String) : Option String :=
  match args with
  | "run" :: hs :: ho :: x :: y :: z :: ops => do
      let hs ← parseRats hs
      let ho ← parseRats ho
      let ops ← ops.mapM parseOp
      let st0 : State := ⟨⟨hs, ho⟩, ⟨hs, ho⟩, false, false, [← parseInts x, ← parseInts y, ← parseInts z]⟩
      let (st, oks) := run st0 ops
      let w := match writeOut st with
        | .ok (_, pts) => "W:" ++ showCols pts
        | .error _ => "W:overflow"
      let flags := String.mk (oks.map fun b => if b then '1' else '0')
      return s!"{if flags.isEmpty then "-" else flags} {showCols st.pts} {",".intercalate (st.rsc.s.map showRat)} {",".intercalate (st.rsc.o.map showRat)} {w}"
  | _ => none

end LasModel.Driver.ScalD
