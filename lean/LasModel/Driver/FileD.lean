/- Driver commands for writer/reader sessions (C01, C03, C04, C19). -/
import LasModel.Model.FileIO
import LasModel.Model.Appender
import LasModel.Driver.HdrD
namespace LasModel.Driver.FileD
open LasModel.Header LasModel.FileIO LasModel.Driver.Util LasModel.Driver.VlrD LasModel.Driver.HdrD

def f64 (bits : Nat) : Float := Float.ofBits (UInt64.ofNat bits)

/-- hardware doubles: `np.int32 * np.float64 + np.float64`, IEEE comparisons -/
def floatOps (h : Hdr) : FOps Float :=
  { render := fun a x => Float.ofInt x * f64 (h.doubles.getD a 0) + f64 (h.doubles.getD (3 + a) 0),
    gt := fun a b => a > b,
    lt := fun a b => a < b,
    bits := fun x => x.toBits.toNat,
    ofBits := f64,
    lowest := f64 0xFFEFFFFFFFFFFFFF,
    highest := f64 0x7FEFFFFFFFFFFFFF,
    zero := 0.0 }

def emptyHdr : Hdr :=
  { fileSourceId := 0
    globalEncoding := 0
    guid := []
    vMajor := 1
    vMinor := 2
    systemId := []
    software := []
    doy := 0
    year := 0
    fmtByte := 0
    recLen := 0
    count := 0
    byReturn := []
    doubles := []
    waveformStart := 0
    evlrStart := 0
    nEvlrs := 0
    extraHeader := []
    vlrs := []
    extraVlr := [] }

def werr : WErr → String
  | .header e => "Header:" ++ errName e | .incompatible => "Incompatible" | .done => "Done" | .format => "Format"
  | .capacity => "Capacity" | .evlrVersion => "EvlrVersion" | .vlr => "Vlr"

def rerr : RErr → String
  | .header e => "Header:" ++ errName e | .pointSize => "PointSize" | .partialRecord => "PartialRecord"
  | .format => "Format"

def chunkRecs (recLen : Nat) (bs : List UInt8) : List (List UInt8) :=
  if recLen = 0 then [] else splitRecs recLen (bs.length / recLen) bs

def parseOp (s : String) : Option WOp :=
  match s.splitOn "," with
  | ["P", fmt, reclen, hex] => do
      let rl ← reclen.toNat?
      return .points ⟨← fmt.toNat?, rl, chunkRecs rl (toBytes (← parseHex hex))⟩
  | ["E", recs] => do
      if recs = "-" then return .evlrs []
      let vs ← (recs.splitOn "|").mapM parseRec
      return .evlrs vs
  | _ => none

def splitAt (sep : String) (l : List String) : List String × List String :=
  (l.takeWhile (· ≠ sep), (l.dropWhile (· ≠ sep)).drop 1)

def handle (args : List String) : Option String :=
  match args with
  | "session" :: rest => do
      let (hargs, ops) := splitAt "--" rest
      let (h, _, _) ← parseHdrArgs hargs
      let ops ← ops.mapM parseOp
      match session (floatOps h) h ops with
      | .ok bs => return "ok " ++ toHex (ofBytes bs)
      | .error e => return "err " ++ werr e
  | "stats" :: rest => do
      -- in-memory `header.update(points)`: count, per-return counts, max/min bit patterns per axis
      let (hargs, tail) := splitAt "--" rest
      let (h, _, _) ← parseHdrArgs hargs
      match tail with
      | [reclen, hex] =>
        let rl ← reclen.toNat?
        let recs := chunkRecs rl (toBytes (← parseHex hex))
        let o := floatOps h
        let st : Stats Float := if recs.isEmpty then resetStats o else grow o (fmtOf h) (resetStats o) recs
        let hd := withStats o h st 0 0
        return s!"{hd.count} {showNats hd.byReturn} {showNats (hd.doubles.drop 6)}"
      | _ => none
  | "append" :: hex :: ops => do
      let file := toBytes (← parseHex hex)
      let ops ← ops.mapM parseOp
      let chunks := ops.filterMap fun op => match op with | .points c => some c | _ => none
      let o := match decodeHdr file with
        | .ok h => floatOps h
        | .error _ => floatOps emptyHdr
      match Appender.appendSession o file chunks with
      | .ok bs => return "ok " ++ toHex (ofBytes bs)
      | .error e => return "err " ++ (match e with
          | .header e => "Header:" ++ errName e | .format => "Format" | .capacity => "Capacity"
          | .evlrPosition => "EvlrPosition" | .vlr => "Vlr" | .rewrite e => "Rewrite:" ++ errName e
          | .pointFormat => "PointFormat")
  | ["readpts", hex] => do
      -- only what C19 constrains: the verdict and the returned point bytes
      match readFile (toBytes (← parseHex hex)) with
      | .ok r => return s!"ok {r.records.length} {toHex (ofBytes r.records.flatten)}"
      | .error e => return "err " ++ rerr e
  | ["read", hex] => do
      match readFile (toBytes (← parseHex hex)) with
      | .ok r =>
          let recs := toHex (ofBytes r.records.flatten)
          let ev := " ".intercalate (r.evlrs.map showRec)
          return s!"ok {showHdr r.hdr} # {r.records.length} {recs} # {ev}"
      | .error e => return "err " ++ rerr e
  | _ => none

end LasModel.Driver.FileD
