/- Driver commands for the reader cursor (C05). -/
import LasModel.Model.Reader
import LasModel.Driver.Util
namespace LasModel.Driver.ReaderD
open LasModel.Reader

def parseOp (s : String) : Option ROp :=
  match s.splitOn ":" with
  | ["r", n] => do return .read (← n.toInt?)
  | ["s", p, w] => do return .seek (← p.toInt?) (← w.toInt?)
  | ["n", k] => do return .next (← k.toInt?)
  | ["a"] => some .readAll
  | _ => none

def showOut : ROut → String
  | .slice a l => s!"slice:{a}:{l}"
  | .cursor c => s!"cursor:{c}"
  | .stop => "stop"
  | .indexError => "IndexError"
  | .valueError => "ValueError"

def handle (args : List String) : Option String :=
  match args with
  | "run" :: count :: ops => do
      let ops ← ops.mapM parseOp
      let (s, outs) := run ⟨← count.toNat?, 0⟩ ops
      return " ".intercalate (outs.map showOut) ++ s!" | {s.cursor}"
  | _ => none

end LasModel.Driver.ReaderD
