/- Driver: record decoder / encoder written over the *specification* tables only (C02). -/
import LasModel.Spec.Asprs
import LasModel.Model.Layout
import LasModel.Driver.VlrD
namespace LasModel.Driver.SpecD
open LasModel.Layout LasModel.Driver.Util LasModel.Driver.VlrD

/-- spec layout of a format followed by extra-byte elements of the given widths -/
def layoutOf (fmt : Nat) (extra : List Nat) : List Field :=
  Spec.recLayout fmt ++ extra.map fun w => ("extra", 0, w, 1)

partial def decAll (layout : List Field) (n : Nat) (bs : List UInt8) (acc : List String) : List String × Nat :=
  if n = 0 then (acc.reverse, bs.length) else
  let (vals, rest) := decodeRec layout bs
  decAll layout (n - 1) rest (showNats vals :: acc)

def handle (args : List String) : Option String :=
  match args with
  | ["decpoints", fmt, extra, n, hex] => do
      let layout := layoutOf (← fmt.toNat?) (← parseNats extra)
      let (rows, left) := decAll layout (← n.toNat?) (toBytes (← parseHex hex)) []
      return " ".intercalate rows ++ s!" | {left}"
  | "encpoints" :: fmt :: extra :: rows => do
      let layout := layoutOf (← fmt.toNat?) (← parseNats extra)
      let recs ← rows.mapM parseNats
      return toHex (ofBytes (recs.flatMap fun r => encodeRec layout r))
  | ["unpack", fmt, byteName, b] => do
      let subs ← (Spec.bits (← fmt.toNat?)).lookup byteName
      return showNats (unpackByte subs (← b.toNat?))
  | ["pack", fmt, byteName, vals] => do
      let subs ← (Spec.bits (← fmt.toNat?)).lookup byteName
      return toString (packByte subs (← parseNats vals))
  | ["fields", fmt] => do
      return " ".intercalate ((Spec.recLayout (← fmt.toNat?)).map fun f => s!"{f.1}:{f.2.1}:{f.2.2.1}:{f.2.2.2}")
  | _ => none

end LasModel.Driver.SpecD
