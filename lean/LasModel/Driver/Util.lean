/- parsing / printing helpers shared by the driver modules -/
namespace LasModel.Driver.Util

def hexDigit (c : Char) : Option Nat :=
  if '0' ≤ c ∧ c ≤ '9' then some (c.toNat - '0'.toNat)
  else if 'a' ≤ c ∧ c ≤ 'f' then some (c.toNat - 'a'.toNat + 10)
  else if 'A' ≤ c ∧ c ≤ 'F' then some (c.toNat - 'A'.toNat + 10)
  else none

/-- "-" denotes the empty byte string -/
def parseHex (s : String) : Option (List Nat) :=
  if s = "-" then some [] else
  let rec go : List Char → List Nat → Option (List Nat)
    | [], acc => some acc.reverse
    | [_], _ => none
    | a :: b :: rest, acc => do
        let x ← hexDigit a
        let y ← hexDigit b
        go rest ((16 * x + y) :: acc)
  go s.toList []

def hexOfNat (n : Nat) : String :=
  let d (k : Nat) : Char := if k < 10 then Char.ofNat (48 + k) else Char.ofNat (87 + k)
  String.mk [d (n / 16 % 16), d (n % 16)]

def toHex (bs : List Nat) : String :=
  if bs.isEmpty then "-" else String.join (bs.map hexOfNat)

def parseInt (s : String) : Option Int := s.toInt?

/-- comma separated list, "-" = empty -/
def parseNats (s : String) : Option (List Nat) :=
  if s = "-" then some [] else (s.splitOn ",").mapM (·.toNat?)

def parseInts (s : String) : Option (List Int) :=
  if s = "-" then some [] else (s.splitOn ",").mapM (·.toInt?)

def showNats (l : List Nat) : String :=
  if l.isEmpty then "-" else ",".intercalate (l.map toString)

def showInts (l : List Int) : String :=
  if l.isEmpty then "-" else ",".intercalate (l.map toString)

end LasModel.Driver.Util
