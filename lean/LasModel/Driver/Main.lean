/- Line-protocol driver: one command per input line, one output line per command. -/
import LasModel.Driver.Ge
import LasModel.Driver.Sf
import LasModel.Driver.VlrD
import LasModel.Driver.HdrD
import LasModel.Driver.SpecD
import LasModel.Driver.FileD
import LasModel.Driver.ReaderD
import LasModel.Driver.ScalD
import LasModel.Driver.ConvD
import LasModel.Driver.XdD
import LasModel.Driver.StreamD
import LasModel.Driver.CompD
import LasModel.Driver.CopcD
import LasModel.Driver.HttpD
import LasModel.Model.Selection
import LasModel.Driver.FmtD
namespace LasModel.Driver

/-- the operator tables of the view classes as the model has them (`Gen.Views`) -/
def viewTables : String :=
  let sh (l : List (String × String)) := ",".intercalate (l.map fun p => p.1 ++ ":" ++ p.2)
  s!"ops={sh Gen.Views.arrayViewOps} minmax={sh Gen.Views.arrayViewMinMax} sub={sh Gen.Views.subFieldCmp} scaled={sh Gen.Views.scaledCmp}"

def dispatch (line : String) : String :=
  match (line.trimAscii.toString.splitOn " ").filter (· ≠ "") with
  | "ge" :: rest => (Ge.handle rest).getD "bad-op"
  | "sf" :: rest => (Sf.handle rest).getD "bad-op"
  | "vlr" :: rest => (VlrD.handle rest).getD "bad-op"
  | "hdr" :: rest => (HdrD.handle rest).getD "bad-op"
  | "spec" :: rest => (SpecD.handle rest).getD "bad-op"
  | "file" :: rest => (FileD.handle rest).getD "bad-op"
  | "rd" :: rest => (ReaderD.handle rest).getD "bad-op"
  | "sc" :: rest => (ScalD.handle rest).getD "bad-op"
  | "cv" :: rest => (ConvD.handle rest).getD "bad-op"
  | "xd" :: rest => (XdD.handle rest).getD "bad-op"
  | "st" :: rest => (StreamD.handle rest).getD "bad-op"
  | "cz" :: rest => (CompD.handle rest).getD "bad-op"
  | "cp" :: rest => (CopcD.handle rest).getD "bad-op"
  | "ht" :: rest => (HttpD.handle rest).getD "bad-op"
  | "fe" :: rest => (FmtD.handle rest).getD "bad-op"
  | ["vw", "tables"] => viewTables
  | ["od", "flags"] => s!"writer={if Gen.Order.writerCountsAfterWrite then 1 else 0} appender={if Gen.Order.appenderCountsAfterWrite then 1 else 0}"
  | ["sel", "lazrs", n] => (match n.toNat? with
      | some k => (match Selection.toBackend Gen.Selection.lazrsMap Gen.Selection.lazrsAlways Selection.stubBk k with
          | some r => toString r | none => "KeyError")
      | none => "bad-op")
  | ["sel", "laszip", n] => (match n.toNat? with
      | some k => (match Selection.toBackend Gen.Selection.laszipMap Gen.Selection.laszipAlways Selection.laszipBk k with
          | some r => toString r | none => "KeyError")
      | none => "bad-op")
  | ["sel", "tables"] => s!"all={Gen.Selection.allValue} base={Gen.Selection.baseValue} skip={Gen.Selection.skipFromAll.map (·.2)} dec={Gen.Selection.decompressFromBase.map (·.2)}"
  | _ => "bad-op"

partial def loop (h : IO.FS.Stream) (out : IO.FS.Stream) : IO Unit := do
  let line ← h.getLine
  if line.isEmpty then return ()
  out.putStrLn (dispatch line)
  loop h out

def main : IO Unit := do
  let out ← IO.getStdout
  loop (← IO.getStdin) out
  out.flush

end LasModel.Driver
