/-
Byte-level foundations (core Lean only): little-endian integers as `int.to_bytes(w, "little")`
/ `int.from_bytes(.., "little")`, and *lenient* sequential readers with `BytesIO.read`
semantics (a short read returns what is there; `int.from_bytes` of fewer bytes decodes a
partial integer).
-/
namespace LasModel.Bytes

abbrev Bytes := List UInt8

def leBytes : Nat → Nat → Bytes
  | 0, _ => []
  | w + 1, n => UInt8.ofNat (n % 256) :: leBytes w (n / 256)

def leNat : Bytes → Nat
  | [] => 0
  | b :: bs => b.toNat + 256 * leNat bs

@[simp] theorem leBytes_length (w n : Nat) : (leBytes w n).length = w := by
  induction w generalizing n with
  | zero => rfl
  | succ w ih => simp [leBytes, ih]

theorem leNat_leBytes (w n : Nat) : leNat (leBytes w n) = n % 256 ^ w := by
  induction w generalizing n with
  | zero => simp [leBytes, leNat, Nat.mod_one]
  | succ w ih =>
    simp only [leBytes, leNat, ih]
    have h1 : (UInt8.ofNat (n % 256)).toNat = n % 256 := by
      simp [UInt8.toNat_ofNat']
    rw [h1, Nat.pow_succ, Nat.mul_comm (256 ^ w) 256, Nat.mod_mul]

theorem leNat_leBytes_of_lt (w n : Nat) (h : n < 256 ^ w) : leNat (leBytes w n) = n := by
  rw [leNat_leBytes, Nat.mod_eq_of_lt h]

theorem leNat_lt (bs : Bytes) : leNat bs < 256 ^ bs.length := by
  induction bs with
  | nil => simp [leNat]
  | cons b bs ih =>
    simp only [leNat, List.length_cons, Nat.pow_succ]
    have := b.toNat_lt
    omega

theorem leBytes_leNat (bs : Bytes) : leBytes bs.length (leNat bs) = bs := by
  induction bs with
  | nil => rfl
  | cons b bs ih =>
    simp only [List.length_cons, leBytes, leNat]
    have hb := b.toNat_lt
    have h1 : (b.toNat + 256 * leNat bs) % 256 = b.toNat := by omega
    have h2 : (b.toNat + 256 * leNat bs) / 256 = leNat bs := by omega
    rw [h1, h2, ih]
    simp

/-- `stream.read(k)` on the remaining bytes: what is returned and what remains -/
def readN (k : Nat) (bs : Bytes) : Bytes × Bytes := (bs.take k, bs.drop k)

/-- `int.from_bytes(stream.read(w), "little")` -/
def readLE (w : Nat) (bs : Bytes) : Nat × Bytes := (leNat (bs.take w), bs.drop w)

@[simp] theorem readN_append (a rest : Bytes) : readN a.length (a ++ rest) = (a, rest) := by
  simp [readN]

theorem readN_append' (k : Nat) (a rest : Bytes) (h : a.length = k) :
    readN k (a ++ rest) = (a, rest) := by subst h; simp

theorem readLE_append (w n : Nat) (rest : Bytes) (h : n < 256 ^ w) :
    readLE w (leBytes w n ++ rest) = (n, rest) := by
  unfold readLE
  have hl : (leBytes w n).length = w := leBytes_length w n
  rw [List.take_append_of_le_length (by omega), List.drop_append_of_le_length (by omega)]
  rw [List.take_of_length_le (by omega), List.drop_of_length_le (by omega)]
  rw [leNat_leBytes_of_lt w n h, List.nil_append]

/-- **torn-counter lemma** (C19): a little-endian counter being overwritten from `old` to
    `new ≥ old`, interrupted after `k` bytes, decodes to a value that does not exceed `new`. -/
theorem torn_counter (w old new k : Nat) (hon : old ≤ new) (hn : new < 256 ^ w) :
    leNat ((leBytes w new).take k ++ (leBytes w old).drop k) ≤ new := by
  induction w generalizing old new k with
  | zero => simp [leBytes, leNat]
  | succ w ih =>
    cases k with
    | zero =>
      simp only [List.take_zero, List.drop_zero, List.nil_append]
      rw [leNat_leBytes]
      exact Nat.le_trans (Nat.mod_le _ _) hon
    | succ k =>
      simp only [leBytes, List.take_succ_cons, List.drop_succ_cons, List.cons_append, leNat]
      have h1 : (UInt8.ofNat (new % 256)).toNat = new % 256 := by
        simp [UInt8.toNat_ofNat']
      rw [h1]
      have hn' : new / 256 < 256 ^ w := by
        rw [Nat.pow_succ] at hn
        exact Nat.div_lt_of_lt_mul (by rw [Nat.mul_comm]; exact hn)
      have := ih (old / 256) (new / 256) k (Nat.div_le_div_right hon) hn'
      have := Nat.div_add_mod new 256
      omega

end LasModel.Bytes
