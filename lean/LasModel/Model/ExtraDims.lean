/-
Extra dimensions: the 192-byte EXTRA_BYTES descriptor as `LasHeader._sync_extra_bytes_vlr`
builds it and `ExtraBytesVlr.type_of_extra_dims` reads it (laspy/header.py,
laspy/vlrs/known.py), and adding / removing extra dimensions on a LasData (laspy/lasdata.py).
Widths, type ids and option bits come from the generated tables.
-/
import LasModel.Model.Header
namespace LasModel.ExtraDims
open LasModel.Bytes LasModel.Strings LasModel.Header

structure ExtraDim where
  name : Bytes
  description : Bytes
  /-- 1..30 for the typed element types, 0 for an opaque array of unsigned bytes -/
  typeId : Nat
  /-- element count of an opaque array (4..255); unused for typed dimensions -/
  count : Nat
  /-- 64-bit patterns of scales / offsets (one per element) when the dimension is scaled -/
  scaling : Option (List Nat × List Nat)
deriving DecidableEq, Repr

def typeRow (id : Nat) : Option (Nat × Nat × Nat) := (Gen.extraTypes.lookup id)

def nElems (d : ExtraDim) : Nat :=
  if d.typeId = 0 then d.count else match typeRow d.typeId with | some (_, _, n) => n | none => 0

/-- bytes one value of the dimension occupies in a record -/
def dimSize (d : ExtraDim) : Nat :=
  if d.typeId = 0 then d.count else match typeRow d.typeId with | some (_, sz, n) => sz * n | none => 0

def pad3 (l : List Nat) : List Nat := (l ++ List.replicate 3 0).take 3

/-- the options byte: for an opaque array it *is* the element count; for typed dimensions the
    scale / offset bits -/
def optionsOf (d : ExtraDim) : Nat :=
  if d.typeId = 0 then d.count
  else match d.scaling with
    | some _ => Gen.EB_SCALE_BIT_MASK + Gen.EB_OFFSET_BIT_MASK
    | none => 0

def scalesOf (d : ExtraDim) : List Nat := match d.scaling with | some (s, _) => pad3 s | none => [0, 0, 0]
def offsetsOf (d : ExtraDim) : List Nat := match d.scaling with | some (_, o) => pad3 o | none => [0, 0, 0]

/-- `_sync_extra_bytes_vlr`: one 192-byte descriptor -/
def descriptor (d : ExtraDim) : Bytes :=
  let sc := scalesOf d
  let of := offsetsOf d
  [0, 0] ++ [UInt8.ofNat d.typeId, UInt8.ofNat (optionsOf d)] ++ writeString d.name 32 ++ List.replicate 4 0 ++
  List.replicate 72 0 ++ encInts (sc.map fun x => (8, x)) ++ encInts (of.map fun x => (8, x)) ++ writeString d.description 32

def payload (ds : List ExtraDim) : Bytes := ds.flatMap descriptor

/-- `bytes.rstrip(b"\0")` -/
def rstripNul (bs : Bytes) : Bytes := (bs.reverse.dropWhile (· == 0)).reverse

/-- `ExtraBytesStruct.from_buffer_copy` + `type_of_extra_dims` on one descriptor -/
def parseDescriptor (bs : Bytes) : ExtraDim :=
  let typeId := (bs.getD 2 0).toNat
  let options := (bs.getD 3 0).toNat
  -- ctypes c_char arrays read up to the first NUL; `format_name` strips trailing NULs
  let name := rstripNul (cutNul ((bs.drop 4).take 32))
  let desc := rstripNul (cutNul ((bs.drop 160).take 32))
  let n := if typeId = 0 then options else match typeRow typeId with | some (_, _, n) => n | none => 0
  let sc := (decInts [8, 8, 8] (bs.drop 112)).1
  let of := (decInts [8, 8, 8] (bs.drop 136)).1
  let hasS := typeId ≠ 0 ∧ options / Gen.EB_SCALE_BIT_MASK % 2 = 1
  let hasO := typeId ≠ 0 ∧ options / Gen.EB_OFFSET_BIT_MASK % 2 = 1
  -- doubles 1.0 and 0.0 are the defaults when only one of the two is present
  let one := 0x3FF0000000000000
  let scaling :=
    if hasS ∨ hasO then
      some (if hasS then sc.take n else List.replicate n one, if hasO then of.take n else List.replicate n 0)
    else none
  { name := name, description := desc, typeId := typeId, count := if typeId = 0 then options else 0, scaling := scaling }

def chunks192 : Nat → Bytes → List Bytes
  | 0, _ => []
  | n + 1, bs => bs.take 192 :: chunks192 n (bs.drop 192)

def parsePayload (p : Bytes) : List ExtraDim := (chunks192 (p.length / 192) p).map parseDescriptor

/-- what the API accepts -/
structure ExtraDim.WF (d : ExtraDim) : Prop where
  name : NulFree d.name ∧ d.name.length ≤ 32
  desc : NulFree d.description ∧ d.description.length ≤ 32
  kind : (d.typeId = 0 ∧ 4 ≤ d.count ∧ d.count ≤ 255 ∧ d.scaling = none) ∨
         (1 ≤ d.typeId ∧ d.typeId ≤ 30 ∧ d.count = 0)
  scal : ∀ s o, d.scaling = some (s, o) → s.length = nElems d ∧ o.length = nElems d ∧
           (∀ x ∈ s, x < 2 ^ 64) ∧ (∀ x ∈ o, x < 2 ^ 64)

/-! ### records with extra dimensions -/

structure LasMem where
  std : Nat                 -- size of the standard part of a record
  dims : List ExtraDim
  recs : List (Bytes × List Bytes)    -- standard bytes, one byte string per extra dimension
deriving DecidableEq

inductive Err | notExtra | duplicate
deriving DecidableEq, Repr

def recLen (m : LasMem) : Nat := m.std + (m.dims.map dimSize).sum

/-- `add_extra_dims`: the new dimensions come last and hold zeros; everything else is copied -/
def addDims (m : LasMem) (ds : List ExtraDim) : LasMem :=
  { m with dims := m.dims ++ ds, recs := m.recs.map fun r => (r.1, r.2 ++ ds.map fun d => List.replicate (dimSize d) 0) }

def eraseIdx {α} (l : List α) (is : List Nat) : List α :=
  (l.zipIdx.filter fun p => !is.contains p.2).map (·.1)

/-- `remove_extra_dims`: every name must be an extra dimension, otherwise nothing changes -/
def removeDims (m : LasMem) (names : List Bytes) : Except Err LasMem :=
  if names.all fun n => m.dims.any (·.name == n) then
    let is := (m.dims.zipIdx.filter fun p => names.contains p.1.name).map (·.2)
    .ok { m with dims := eraseIdx m.dims is, recs := m.recs.map fun r => (r.1, eraseIdx r.2 is) }
  else .error .notExtra

def flatRec (r : Bytes × List Bytes) : Bytes := r.1 ++ r.2.flatten

end LasModel.ExtraDims
