/-
COPC octree traversal (laspy/copc.py): voxel keys (the `child` function is generated from
`VoxelKey.child`), hierarchy pages as dictionaries, `load_octree_for_query` as the worklist
it is — a stack of keys, lazy page loading with `dict.update`, re-insertion of the key at
the bottom of the stack — and the level / resolution / integer-grid box arithmetic.

The traversal is defined by well-founded recursion: Lean accepts the definition only with
the termination proof below, for *every* hierarchy (well-formed or not), with no fuel.
-/
import LasModel.Gen.Funs
import LasModel.Model.Scaling
namespace LasModel.Copc
open Gen.Copc

structure Entry where
  offset : Nat
  byteSize : Nat
  count : Int            -- -1: the node is described in another page at (offset, byteSize)
deriving DecidableEq, Repr

abbrev Page := List (Key × Entry)
abbrev Ref := Nat × Nat

/-- `entries[key]` of a dict kept as an association list, newest binding first -/
def lookup : Page → Key → Option Entry
  | [], _ => none
  | (j, e) :: rest, k => if j = k then some e else lookup rest k

/-- `entries.update(page.entries)`; inside a page a later record for the same key wins -/
def update (es page : Page) : Page := page.reverse ++ es

structure Hier where
  root : Page
  pages : List (Ref × Page)

def findPage : List (Ref × Page) → Ref → Page
  | [], _ => []
  | p :: ps, r => if p.1 = r then p.2 else findPage ps r

/-- what `source.seek(offset); source.read(size)` parses to (nothing where the file has no page) -/
def pageAt (H : Hier) (r : Ref) : Page := findPage H.pages r

def refsOf : Page → List Ref
  | [] => []
  | x :: xs => if x.2.count = -1 then (x.2.offset, x.2.byteSize) :: refsOf xs else refsOf xs

def refsOfPages : List (Ref × Page) → List Ref
  | [] => []
  | p :: ps => refsOf p.2 ++ refsOfPages ps

def allRefs (H : Hier) : List Ref := refsOf H.root ++ refsOfPages H.pages

def maxLevelOf : Page → Nat
  | [] => 0
  | x :: xs => max x.1.level (maxLevelOf xs)

def depthPages : List (Ref × Page) → Nat
  | [] => 0
  | p :: ps => max (maxLevelOf p.2) (depthPages ps)

/-- deepest level any record of the file mentions -/
def depth (H : Hier) : Nat := max (maxLevelOf H.root) (depthPages H.pages)

structure Query where
  ov : Key → Bool          -- the node's cube overlaps the query box (true when there is no box)
  inRange : Nat → Bool     -- `level in level_range` (true when there is no range)
  cut : Nat → Bool         -- the level is beyond the last level of the range

structure Node where
  key : Key
  offset : Nat
  byteSize : Nat
  count : Int
deriving DecidableEq, Repr

structure St where
  entries : Page
  todo : List Key          -- head = top of the stack (`nodes_to_load[-1]`)
  visited : List Ref
  out : List Node

def rootKey : Key := ⟨0, 0, 0, 0⟩

/-- children are appended 0..7, so 7 is on top -/
def childrenRev (k : Key) : List Key := [7, 6, 5, 4, 3, 2, 1, 0].map (child k)

/-! ### termination measure -/

def weight (D : Nat) (k : Key) : Nat := 9 ^ (D + 2 - k.level)

def todoWeight (D : Nat) : List Key → Nat
  | [] => 0
  | k :: ks => weight D k + todoWeight D ks

def unvisited : List Ref → List Ref → Nat
  | [], _ => 0
  | u :: us, vis => (if u ∈ vis then 0 else 1) + unvisited us vis

theorem weight_pos (D : Nat) (k : Key) : 0 < weight D k := Nat.pow_pos (by decide)

theorem todoWeight_append (D : Nat) (a b : List Key) : todoWeight D (a ++ b) = todoWeight D a + todoWeight D b := by
  induction a with
  | nil => simp [todoWeight]
  | cons x xs ih => simp [todoWeight, ih]; omega

theorem children_weight (D : Nat) (k : Key) (h : k.level ≤ D) : todoWeight D (childrenRev k) < weight D k := by
  have e : D + 2 - k.level = (D + 2 - (k.level + 1)) + 1 := by omega
  simp only [childrenRev, List.map, todoWeight, weight, child]
  rw [e, Nat.pow_succ]
  have := Nat.pow_pos (a := 9) (n := D + 2 - (k.level + 1)) (by decide)
  omega

theorem unvisited_le (U vis : List Ref) (r : Ref) : unvisited U (r :: vis) ≤ unvisited U vis := by
  induction U with
  | nil => simp [unvisited]
  | cons u us ih =>
    simp only [unvisited, List.mem_cons]
    by_cases h1 : u ∈ vis <;> by_cases h2 : u = r <;> simp [h1, h2] <;> omega

theorem unvisited_lt (U vis : List Ref) (r : Ref) (hU : r ∈ U) (hv : r ∉ vis) :
    unvisited U (r :: vis) < unvisited U vis := by
  induction U with
  | nil => cases hU
  | cons u us ih =>
    simp only [unvisited, List.mem_cons]
    by_cases h2 : u = r
    · subst h2
      have := unvisited_le us vis u
      simp [hv]; omega
    · have hm : r ∈ us := by
        cases hU with
        | head => exact absurd rfl h2
        | tail _ h => exact h
      have := ih hm
      by_cases h1 : u ∈ vis <;> simp [h1, h2] <;> omega

/-! ### the traversal -/

def addOut (q : Query) (out : List Node) (n : Node) : List Node :=
  if q.inRange n.key.level then out ++ [n] else out

/-- `load_octree_for_query`'s `while nodes_to_load:` loop -/
def loop (H : Hier) (q : Query) (st : St) : Except String St :=
  match h : st.todo with
  | [] => .ok st
  | k :: rest =>
    if q.ov k = false then loop H q { st with todo := rest }
    else if q.cut k.level = true then loop H q { st with todo := rest }
    else if depth H < k.level then loop H q { st with todo := rest }   -- no record can exist (lookup_deep)
    else match lookup st.entries k with
      | none => loop H q { st with todo := rest }
      | some e =>
        if e.count = -1 then
          if (e.offset, e.byteSize) ∈ st.visited then .error "malformed"
          else if (e.offset, e.byteSize) ∈ allRefs H then
            let entries := update st.entries (pageAt H (e.offset, e.byteSize))
            if (lookup entries k).any (fun e' => e'.count = -1) then .error "malformed"
            else loop H q { entries := entries, todo := rest ++ [k], visited := (e.offset, e.byteSize) :: st.visited, out := st.out }
          else .error "impossible"                                       -- unreachable (Props.C15.C15_reachable)
        else if 0 ≤ e.count then
          loop H q { st with todo := childrenRev k ++ rest, out := addOut q st.out ⟨k, e.offset, e.byteSize, e.count⟩ }
        else
          loop H q { st with todo := rest, out := addOut q st.out ⟨k, 0, 0, 0⟩ }
termination_by (unvisited (allRefs H) st.visited, todoWeight (depth H) st.todo)
decreasing_by
  all_goals simp_wf
  all_goals simp only [h, todoWeight]
  · exact Prod.Lex.right _ (by have := weight_pos (depth H) k; omega)
  · exact Prod.Lex.right _ (by have := weight_pos (depth H) k; omega)
  · exact Prod.Lex.right _ (by have := weight_pos (depth H) k; omega)
  · exact Prod.Lex.right _ (by have := weight_pos (depth H) k; omega)
  · exact Prod.Lex.left _ _ (unvisited_lt _ _ _ (by assumption) (by assumption))
  · refine Prod.Lex.right _ ?_
    rw [todoWeight_append]
    have := children_weight (depth H) k (by omega)
    omega
  · exact Prod.Lex.right _ (by have := weight_pos (depth H) k; omega)

/-- one query on a freshly opened file -/
def load (H : Hier) (q : Query) : Except String St := loop H q ⟨H.root, [rootKey], [], []⟩

/-! ### geometry: `VoxelKey.bounds`, `Bounds.overlaps` in exact rationals -/

/-- root cube: minimum corner and side (`center - halfsize`, `2 * halfsize`) -/
structure Geo where
  mx : Rat
  my : Rat
  mz : Rat
  side : Rat

/-- query box after `ensure_3d`; `none` = unbounded on that side (±inf) -/
structure Box where
  x0 : Option Rat
  x1 : Option Rat
  y0 : Option Rat
  y1 : Option Rat
  z0 : Option Rat
  z1 : Option Rat

def axisLo (m S : Rat) (l x : Nat) : Rat := m + (x : Rat) * (S / (2 : Rat) ^ l)
def axisHi (m S : Rat) (l x : Nat) : Rat := m + ((x : Rat) + 1) * (S / (2 : Rat) ^ l)

def leUp (a : Rat) : Option Rat → Bool
  | none => true
  | some b => decide (a ≤ b)

def geLo (a : Rat) : Option Rat → Bool
  | none => true
  | some b => decide (b ≤ a)

/-- `mins <= other.maxs and maxs >= other.mins` on one axis -/
def ovAxis (m S : Rat) (l x : Nat) (b0 b1 : Option Rat) : Bool :=
  leUp (axisLo m S l x) b1 && geLo (axisHi m S l x) b0

def ovKey (g : Geo) (b : Box) (k : Key) : Bool :=
  ovAxis g.mx g.side k.level k.x b.x0 b.x1 && ovAxis g.my g.side k.level k.y b.y0 b.y1 &&
    ovAxis g.mz g.side k.level k.z b.z0 b.z1

/-! ### level ranges, resolution, the integer-grid box filter -/

/-- `level in range(start, stop, step)` -/
def inPyRange (start stop step : Int) (l : Nat) : Bool :=
  if 0 < step then decide (start ≤ (l : Int)) && decide ((l : Int) < stop) && ((l : Int) - start) % step == 0
  else if step < 0 then decide ((l : Int) ≤ start) && decide (stop < (l : Int)) && (start - (l : Int)) % (-step) == 0
  else false

/-- least `L` with `q ≤ 2^L`, searched upward from `l` -/
def ceilLog2From (q : Rat) : Nat → Nat → Nat
  | 0, l => l
  | fuel + 1, l => if q ≤ (2 : Rat) ^ l then l else ceilLog2From q fuel (l + 1)

open LasModel.Scaling (roundHalfEven)

def clampI32 (v : Int) : Int := max (-2147483648) (min 2147483647 v)

/-- `np.clip(np.round((b - offset) / scale), INT32_MIN, INT32_MAX).astype(int32)` -/
def gridOf (scale offset b : Rat) : Int := clampI32 (roundHalfEven ((b - offset) / scale))

/-- lower / upper face of the box on the integer grid (an infinite face saturates) -/
def gridLo (scale offset : Rat) : Option Rat → Int
  | none => -2147483648
  | some b => gridOf scale offset b

def gridHi (scale offset : Rat) : Option Rat → Int
  | none => 2147483647
  | some b => gridOf scale offset b

/-- `(MINS <= X) & (X <= MAXS)` -/
def keepAxis (scale offset : Rat) (b0 b1 : Option Rat) (X : Int) : Bool :=
  decide (gridLo scale offset b0 ≤ X) && decide (X ≤ gridHi scale offset b1)

/-- `level in level_range` and the cut `level > max(start, stop - 1)` for `range(start, stop, step)` -/
def rangeQuery (ov : Key → Bool) (start stop step : Int) : Query :=
  { ov := ov, inRange := inPyRange start stop step, cut := fun l => decide (max start (stop - 1) < (l : Int)) }

def noRangeQuery (ov : Key → Bool) : Query := { ov := ov, inRange := fun _ => true, cut := fun _ => false }

/-- `max(1, ceil(log2(spacing / resolution)) + 1)` -/
def levelMax (spacing res : Rat) (fuel : Nat) : Nat := max 1 (ceilLog2From (spacing / res) fuel 0 + 1)

/-! ### grouping of contiguous chunks and fetching (`_fetch_and_decompress_points_of_nodes`, `_fetch_all_chunks`) -/

structure GState where
  groups : List (List Node)      -- finished groups, in order
  current : List Node            -- the group being built, in order
  lastEnd : Nat

/-- one iteration of the grouping loop -/
def groupStep (s : GState) (n : Node) : GState :=
  if n.offset = s.lastEnd then { s with current := s.current ++ [n], lastEnd := s.lastEnd + n.byteSize }
  else { groups := s.groups ++ [s.current], current := [n], lastEnd := n.offset + n.byteSize }

/-- the grouping loop on nodes already sorted by offset (`sorted(nodes, key=offset)`) -/
def groupNodes (nodes : List Node) : List (List Node) :=
  match nodes with
  | [] => []
  | n0 :: _ =>
    let s := nodes.foldl groupStep ⟨[], [], n0.offset⟩
    if s.current.isEmpty then s.groups else s.groups ++ [s.current]

def sumSizes (g : List Node) : Nat := (g.map (·.byteSize)).sum

/-- `(group[0].offset, sum of byte sizes)` per group -/
def byteQueries (groups : List (List Node)) : List (Nat × Nat) :=
  groups.map fun g => ((g.head?.map (·.offset)).getD 0, sumSizes g)

/-- `seek(offset); read(size)` for each query, concatenated -/
def fetchAll (file : List UInt8) (qs : List (Nat × Nat)) : List UInt8 :=
  qs.flatMap fun q => (file.drop q.1).take q.2

/-- `sorted(nodes, key=attrgetter("offset"))` (stable) -/
def sortNodes (nodes : List Node) : List Node := nodes.mergeSort (fun a b => decide (a.offset ≤ b.offset))

/-- `(point_count, byte_size)` per node, in the same order -/
def chunkTable (nodes : List Node) : List (Int × Nat) := nodes.map fun n => (n.count, n.byteSize)

end LasModel.Copc
