/-
COPC HTTP fetching (laspy/copc.py `HttpFetcherThread.run`, `http_queue_strategy`): a transition
system whose atomic steps are the queue operations and request completions of the worker
threads and of the calling thread. A schedule is a list of thread choices (0 = the caller,
i+1 = worker i); a step is `none` when that thread is blocked (or finished).

`Cfg.nowait` / `Cfg.joinThreads` select the code variant: (true, true) is the code as it is now
(`get_nowait`, workers joined); (false, false) is the earlier shape (`empty()` then a blocking
`get()`, workers never joined), kept to state its deadlock as a theorem.
-/
namespace LasModel.Http

structure Req where
  offset : Nat
  size : Nat
deriving DecidableEq, Repr

structure Cfg where
  nowait : Bool
  joinThreads : Bool
  fails : Req → Bool

inductive WPc
  | top                          -- about to test the queue (`get_nowait()`; earlier: `empty()`)
  | get                          -- earlier shape only: passed `not empty()`, about to call the blocking `get()`
  | fetch (r : Req)              -- holds a range, the request is in flight
  | put (r : Req) (ok : Bool)    -- request completed, about to publish the block or the exception
  | taskDone                     -- about to call `task_done()`
  | done                         -- left the loop; the thread has finished
deriving DecidableEq, Repr

inductive Outcome
  | raised
  | data (order : List Req)      -- the blocks written to the output buffer, in this order
deriving DecidableEq, Repr

inductive MPc
  | joinQ                        -- `query_queue.join()`
  | joinT (i : Nat)              -- joining worker i
  | drain                        -- empty the result queue, raise or sort and assemble
  | finished (o : Outcome)
deriving DecidableEq, Repr

structure Sys where
  pending : List Req             -- `query_queue`
  unfinished : Nat               -- its unfinished-task counter
  results : List (Req × Bool)    -- `result_queue`: (range, succeeded)
  workers : List WPc
  main : MPc
deriving Repr

def leOff (a b : Req) : Bool := decide (a.offset ≤ b.offset)

/-- drain: the first exception found is raised; otherwise `results.sort(key=offset)` and copy in order -/
def outcome (results : List (Req × Bool)) : Outcome :=
  if results.any (fun x => !x.2) then .raised
  else .data ((results.map (·.1)).mergeSort leOff)

/-- after the caller queued the ranges and started `min(len(ranges), num_threads)` workers -/
def init (reqs : List Req) (threads : Nat) : Sys :=
  ⟨reqs, reqs.length, [], List.replicate (min reqs.length threads) .top, .joinQ⟩

def stepWorker (cfg : Cfg) (s : Sys) (i : Nat) : Option Sys :=
  match s.workers[i]? with
  | none => none
  | some .top =>
    if cfg.nowait then
      match s.pending with
      | r :: rest => some { s with pending := rest, workers := s.workers.set i (.fetch r) }
      | [] => some { s with workers := s.workers.set i .done }
    else if s.pending.isEmpty then some { s with workers := s.workers.set i .done }
    else some { s with workers := s.workers.set i .get }
  | some .get =>
    match s.pending with
    | r :: rest => some { s with pending := rest, workers := s.workers.set i (.fetch r) }
    | [] => none                                        -- blocked in `get()`
  | some (.fetch r) => some { s with workers := s.workers.set i (.put r (!cfg.fails r)) }
  | some (.put r ok) => some { s with results := s.results ++ [(r, ok)], workers := s.workers.set i .taskDone }
  | some .taskDone => some { s with unfinished := s.unfinished - 1, workers := s.workers.set i .top }
  | some .done => none

def stepMain (cfg : Cfg) (s : Sys) : Option Sys :=
  match s.main with
  | .joinQ =>
    if s.unfinished = 0 then
      some { s with main := if cfg.joinThreads && decide (0 < s.workers.length) then .joinT 0 else .drain }
    else none
  | .joinT i =>
    if s.workers[i]? = some .done then
      some { s with main := if i + 1 < s.workers.length then .joinT (i + 1) else .drain }
    else none
  | .drain => some { s with main := .finished (outcome s.results) }
  | .finished _ => none

def step (cfg : Cfg) (s : Sys) (t : Nat) : Option Sys :=
  if t = 0 then stepMain cfg s else stepWorker cfg s (t - 1)

/-- follow a schedule; a choice that is not enabled leaves the state unchanged -/
def run (cfg : Cfg) (s : Sys) : List Nat → Sys
  | [] => s
  | t :: ts => run cfg ((step cfg s t).getD s) ts

/-! ### termination measure -/

def wWeight : WPc → Nat
  | .done => 0
  | .top => 1
  | .get => 1
  | .taskDone => 2
  | .put _ _ => 3
  | .fetch _ => 4

def sumL (g : WPc → Nat) : List WPc → Nat
  | [] => 0
  | pc :: rest => g pc + sumL g rest

def mWeight (w : Nat) : MPc → Nat
  | .finished _ => 0
  | .drain => 1
  | .joinT i => 2 + (w - i)
  | .joinQ => w + 4

def mu (s : Sys) : Nat := 5 * s.pending.length + sumL wWeight s.workers + mWeight s.workers.length s.main

end LasModel.Http
