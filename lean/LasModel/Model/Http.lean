/-
COPC HTTP fetching (laspy/copc.py `HttpFetcherThread.run`, `http_queue_strategy`): a transition
system whose atomic steps are the queue operations and request completions of the worker
threads and of the calling thread. A schedule is a list of thread choices (0 = the caller,
i+1 = worker i); a step is `none` when that thread is blocked (or finished).

`Cfg.nowait` / `Cfg.joinThreads` select the code variant: (true, true) is the code as it is now
(`get_nowait`, workers joined); (false, false) is the earlier shape (`empty()` then a blocking
`get()`, workers never joined), kept to state its deadlock as a theorem.
-/
namespace LasModel.Http

structure Req where
  offset : Nat
  size : Nat
deriving DecidableEq, Repr

structure Cfg where
  nowait : Bool
  joinThreads : Bool
  fails : Req → Bool

inductive WPc
  | top                          -- about to test the queue (`get_nowait()`; earlier: `empty()`)
  | get                          -- earlier shape only: passed `not empty()`, about to call the blocking `get()`
  | fetch (r : Req)              -- holds a range, the request is in flight
  | put (r : Req) (ok : Bool)    -- request completed, about to publish the block or the exception
  | taskDone                     -- about to call `task_done()`
  | done                         -- left the loop; the thread has finished
deriving DecidableEq, Repr

inductive Outcome
  | raised
  | data (order : List Req)      -- the blocks written to the output buffer, in this order
deriving DecidableEq, Repr

inductive MPc
  | joinQ                        -- `query_queue.join()`
  | joinT (i : Nat)              -- joining worker i
  | drain                        -- empty the result queue, raise or sort and assemble
  | finished (o : Outcome)
deriving DecidableEq, Repr

structure Sys where
  pending : List Req             -- `query_queue`
  unfinished : Nat               -- its unfinished-task counter
  results : List (Req × Bool)    -- `result_queue`: (range, succeeded)
  workers : List WPc
  main : MPc
deriving Repr

def leOff (a b : Req) : Bool := decide (a.offset ≤ b.offset)

/-- drain: the first exception found is raised; otherwise `results.sort(key=offset)` and copy in order -/
def outcome (results : List (Req × Bool)) : Outcome :=
  if results.any (fun x => !x.2) then .raised
  else .data ((results.map (·.1)).mergeSort leOff)

/-- after the caller queued the ranges and started `min(len(ranges), num_threads)` workers -/
def init (reqs : List Req) (threads : Nat) : Sys :=
  ⟨reqs, reqs.length, [], List.replicate (min reqs.length threads) .top, .joinQ⟩

def stepWorker (cfg : Cfg) (s : Sys) (i : Nat) : Option Sys :=
  match s.workers[i]? with
  | none => none
  | some .top =>
    if cfg.nowait then
      match s.pending with
      | r :: rest => some { s with pending := rest, workers := s.workers.set i (.fetch r) }
      | [] => some { s with workers := s.workers.set i .done }
    else if s.pending.isEmpty then some { s with workers := s.workers.set i .done }
    else some { s with workers := s.workers.set i .get }
  | some .get =>
    match s.pending with
    | r :: rest => some { s with pending := rest, workers := s.workers.set i (.fetch r) }
    | [] => none                                        -- blocked in `get()`
  | some (.fetch r) => some { s with workers := s.workers.set i (.put r (!cfg.fails r)) }
  | some (.put r ok) => some { s with results := s.results ++ [(r, ok)], workers := s.workers.set i .taskDone }
  | some .taskDone => some { s with unfinished := s.unfinished - 1, workers := s.workers.set i .top }
  | some .done => none

def stepMain (cfg : Cfg) (s : Sys) : Option Sys :=
  match s.main with
  | .joinQ =>
    if s.unfinished = 0 then
      some { s with main := if cfg.joinThreads && decide (0 < s.workers.length) then .joinT 0 else .drain }
    else none
  | .joinT i =>
    if s.workers[i]? = some .done then
      some { s with main := if i + 1 < s.workers.length then .joinT (i + 1) else .drain }
    else none
  | .drain => some { s with main := .finished (outcome s.results) }
  | .finished _ => none

def step (cfg : Cfg) (s : Sys) (t : Nat) : Option Sys :=
  if t = 0 then stepMain cfg s else stepWorker cfg s (t - 1)

/-- follow a schedule; a choice that is not enabled leaves the state unchanged -/
def run (cfg : Cfg) (s : Sys) : List Nat → Sys
  | [] => s
  | t :: ts => run cfg ((step cfg s t).getD s) ts

/-! ### termination measure -/

def wWeight : WPc → Nat
  | .done => 0
  | .top => 1
  | .get => 1
  | .taskDone => 2
  | .put _ _ => 3
  | .fetch _ => 4

def sumL (g : WPc → Nat) : List WPc → Nat
  | [] => 0
  | pc :: rest => g pc + sumL g rest

def mWeight (w : Nat) : MPc → Nat
  | .finished _ => 0
  | .drain => 1
  | .joinT i => 2 + (w - i)
  | .joinQ => w + 4

def mu (s : Sys) : Nat := 5 * s.pending.length + sumL wWeight s.workers + mWeight s.workers.length s.main

/-! ### the executor strategy (`http_thread_executor_strategy`): futures in submission order, pool joined on exit -/

inductive XW
  | idle                 -- waiting for a job (or for shutdown)
  | run (r : Req)        -- the job's request is in flight
  | exited
deriving DecidableEq, Repr

inductive XM
  | wait (i : Nat)               -- `jobs[i].result()`
  | exiting (raised : Bool)      -- leaving the `with` block: about to call `shutdown(wait=True)`
  | joining (raised : Bool)      -- waiting for the pool's threads
  | finished (o : Outcome)
deriving DecidableEq, Repr

structure XSys where
  jobs : List Req                -- submission order (never changes)
  queue : List Req               -- submitted, not started (FIFO)
  done : List (Req × Bool)       -- completed futures
  workers : List XW
  main : XM
  copied : List Req              -- blocks copied to the output so far, in order
  shutdown : Bool
deriving Repr

def xinit (reqs : List Req) (threads : Nat) : XSys :=
  ⟨reqs, reqs, [], List.replicate (min reqs.length threads) .idle, .wait 0, [], false⟩

def xWorker (fails : Req → Bool) (s : XSys) (i : Nat) : Option XSys :=
  match s.workers[i]? with
  | none => none
  | some .idle =>
    match s.queue with
    | r :: rest => some { s with queue := rest, workers := s.workers.set i (.run r) }
    | [] => if s.shutdown then some { s with workers := s.workers.set i .exited } else none
  | some (.run r) => some { s with done := s.done ++ [(r, !fails r)], workers := s.workers.set i .idle }
  | some .exited => none

def lookupDone (d : List (Req × Bool)) (r : Req) : Option Bool :=
  match d with
  | [] => none
  | (q, ok) :: rest => if q = r then some ok else lookupDone rest r

def xMain (s : XSys) : Option XSys :=
  match s.main with
  | .wait i =>
    match s.jobs[i]? with
    | none => some { s with main := .exiting false }        -- no job at all
    | some r =>
      match lookupDone s.done r with
      | none => none                                         -- blocked in `result()`
      | some true => some { s with copied := s.copied ++ [r], main := if i + 1 < s.jobs.length then .wait (i + 1) else .exiting false }
      | some false => some { s with main := .exiting true }
  | .exiting b => some { s with shutdown := true, main := .joining b }
  | .joining b =>
    if s.workers.all (· == .exited) then some { s with main := .finished (if b then .raised else .data s.copied) } else none
  | .finished _ => none

def xstep (fails : Req → Bool) (s : XSys) (t : Nat) : Option XSys :=
  if t = 0 then xMain s else xWorker fails s (t - 1)

def xrun (fails : Req → Bool) (s : XSys) : List Nat → XSys
  | [] => s
  | t :: ts => xrun fails ((xstep fails s t).getD s) ts

def xwWeight : XW → Nat
  | .exited => 0
  | .idle => 1
  | .run _ => 2

def xsumL (g : XW → Nat) : List XW → Nat
  | [] => 0
  | w :: ws => g w + xsumL g ws

def xmWeight (n : Nat) : XM → Nat
  | .finished _ => 0
  | .joining _ => 1
  | .exiting _ => 2
  | .wait i => 3 + (n - i)

def xmu (s : XSys) : Nat := 3 * s.queue.length + xsumL xwWeight s.workers + xmWeight s.jobs.length s.main

end LasModel.Http
