/-
Point-format conversion at the level of named dimensions
(`PackedPointRecord.from_point_record` / `copy_fields_from`, `lib.convert`): the target
record is zeroed, every target dimension that the source also has is copied *by name*;
a target sub-field refuses a value above its maximum (OverflowError); extra bytes are
carried raw.  The byte-level reading/writing of named dimensions is the layout of C02/C09.
-/
import LasModel.Model.Layout
import LasModel.Model.Compat
namespace LasModel.Convert
open LasModel.Bytes LasModel.Header LasModel.Layout LasModel.SubField

inductive Err | overflow | format
deriving DecidableEq, Repr

/-- sub-fields of a packed byte of a format, if it is one -/
def subsOf (fmt : Nat) (name : String) : Option (List (String × Nat)) := (Gen.composed fmt).lookup name

/-- named dimensions of a format in record order, each with its maximum raw value -/
def dimsOf (fmt : Nat) : List (String × Nat) :=
  (Gen.recLayout fmt).flatMap fun f =>
    match subsOf fmt f.1 with
    | some subs => subs.map fun s => (s.1, maxOf s.2)
    | none => [(f.1, 256 ^ f.2.2.1 - 1)]

def namesOf (fmt : Nat) : List String := (dimsOf fmt).map (·.1)

/-- read every named dimension of one record (raw unsigned patterns) -/
def unpackRec (fmt : Nat) (rec : Bytes) : List (String × Nat) :=
  let vals := (decodeRec (Gen.recLayout fmt) rec).1
  ((Gen.recLayout fmt).zip vals).flatMap fun (f, v) =>
    match subsOf fmt f.1 with
    | some subs => subs.map fun s => (s.1, getBits s.2 v)
    | none => [(f.1, v)]

/-- write named dimension values into a zeroed record of the format -/
def packRec (fmt : Nat) (vals : List (String × Nat)) : Bytes :=
  encodeRec (Gen.recLayout fmt) ((Gen.recLayout fmt).map fun f =>
    match subsOf fmt f.1 with
    | some subs => packByte subs (subs.map fun s => (vals.lookup s.1).getD 0)
    | none => (vals.lookup f.1).getD 0)

/-- conversion of the named values: target dimensions present in the source are copied, the
    others are zero; a value above the target dimension's maximum is refused -/
def convertVals (src tgt : Nat) (v : List (String × Nat)) : Except Err (List (String × Nat)) :=
  let out := (dimsOf tgt).map fun d =>
    if (namesOf src).contains d.1 then (d.1, (v.lookup d.1).getD 0, d.2) else (d.1, 0, d.2)
  if out.all fun t => decide (t.2.1 ≤ t.2.2) then .ok (out.map fun t => (t.1, t.2.1)) else .error .overflow

/-- one record: standard part converted by name, extra bytes carried raw -/
def convertRec (src tgt : Nat) (rec : Bytes) : Except Err Bytes :=
  let std := rec.take (Gen.recLen src)
  let extra := rec.drop (Gen.recLen src)
  match convertVals src tgt (unpackRec src std) with
  | .ok vals => .ok (packRec tgt vals ++ extra)
  | .error e => .error e

def convertRecs (src tgt : Nat) : List Bytes → Except Err (List Bytes)
  | [] => .ok []
  | r :: rs => match convertRec src tgt r with
    | .error e => .error e
    | .ok r' => match convertRecs src tgt rs with
      | .error e => .error e
      | .ok rs' => .ok (r' :: rs')

/-- `point.format.lost_dimensions` -/
def lostDimensions (a b : Nat) : List String := (namesOf a).filter fun n => !(namesOf b).contains n

end LasModel.Convert
