/-
Fixed-width string fields (laspy/utils.py): `null_pad_bytes`, `write_string`,
`write_as_c_string`, `read_string`, and `bytes.split(b"\0")[0]`.
Strings are byte lists (ASCII: `str.encode`/`decode` are the identity on them).
-/
import LasModel.Model.Bytes
namespace LasModel.Strings
open LasModel.Bytes

/-- bytes before the first NUL (`raw[:raw.find(b"\0")]`, or `raw.split(b"\0")[0]`) -/
def cutNul (bs : Bytes) : Bytes := bs.takeWhile (· != 0)

def NulFree (s : Bytes) : Prop := ∀ b ∈ s, b ≠ 0

/-- `utils.null_pad_bytes(raw, max_length, null_terminate)[0]`: the field bytes -/
def nullPad (raw : Bytes) (maxLen : Nat) (nt : Bool) : Bytes :=
  let r := cutNul raw
  let extra := if nt then 0 else 1
  let r' := if maxLen + extra ≤ r.length then r.take (maxLen - 1 + extra) else r
  r' ++ List.replicate (maxLen - r'.length) 0

/-- `utils.null_pad_bytes(..)[1]`: the was-truncated flag (only used for a warning) -/
def wasTruncated (raw : Bytes) (maxLen : Nat) (nt : Bool) : Bool :=
  let r := cutNul raw
  (maxLen + (if nt then 0 else 1) ≤ r.length) ||
    (raw.contains 0 && (r.length != raw.length - 1))

/-- `utils.write_string` (no forced terminator) and `utils.write_as_c_string` -/
def writeString (s : Bytes) (w : Nat) : Bytes := nullPad s w false
def writeCString (s : Bytes) (w : Nat) : Bytes := nullPad s w true

/-- `utils.read_string(stream, w)` on the remaining bytes -/
def readString (w : Nat) (bs : Bytes) : Bytes × Bytes := (cutNul (bs.take w), bs.drop w)

theorem cutNul_of_nulFree (s : Bytes) (h : NulFree s) : cutNul s = s := by
  unfold cutNul
  induction s with
  | nil => rfl
  | cons b s ih =>
    have hb : b ≠ 0 := h b (by simp)
    have hs : NulFree s := fun x hx => h x (by simp [hx])
    simp [List.takeWhile_cons, hb, ih hs]

theorem cutNul_append_zeros (s : Bytes) (h : NulFree s) (k : Nat) :
    cutNul (s ++ List.replicate k 0) = s := by
  unfold cutNul
  induction s with
  | nil => cases k <;> simp [List.replicate]
  | cons b s ih =>
    have hb : b ≠ 0 := h b (by simp)
    have hs : NulFree s := fun x hx => h x (by simp [hx])
    simp [List.takeWhile_cons, hb, ih hs]

theorem nullPad_length (raw : Bytes) (w : Nat) (nt : Bool) (hw : 0 < w) :
    (nullPad raw w nt).length = w := by
  unfold nullPad
  cases nt
  · by_cases h : w + 1 ≤ (cutNul raw).length <;> simp [h, List.length_take] <;> omega
  · by_cases h : w ≤ (cutNul raw).length <;> simp [h, List.length_take] <;> omega

/-- a NUL-free string of at most `w` bytes written with `write_string` is a `w`-byte field
    that reads back as the same string — including the full-width case `s.length = w` -/
theorem readString_writeString (s : Bytes) (w : Nat) (rest : Bytes) (hs : NulFree s)
    (hl : s.length ≤ w) :
    (writeString s w).length = w ∧ readString w (writeString s w ++ rest) = (s, rest) := by
  have hc := cutNul_of_nulFree s hs
  have hfield : writeString s w = s ++ List.replicate (w - s.length) 0 := by
    unfold writeString nullPad
    simp only [hc]
    have : ¬ (w + 1 ≤ s.length) := by omega
    simp [this]
  have hlen : (writeString s w).length = w := by rw [hfield]; simp; omega
  refine ⟨hlen, ?_⟩
  unfold readString
  rw [List.take_append_of_le_length (by omega), List.drop_append_of_le_length (by omega)]
  rw [List.take_of_length_le (by omega), List.drop_of_length_le (by omega), hfield,
    cutNul_append_zeros s hs, List.nil_append]

/-- with the forced terminator only `w - 1` bytes survive -/
theorem readString_writeCString (s : Bytes) (w : Nat) (rest : Bytes) (hs : NulFree s)
    (hl : s.length + 1 ≤ w) :
    readString w (writeCString s w ++ rest) = (s, rest) := by
  have hc := cutNul_of_nulFree s hs
  have hfield : writeCString s w = s ++ List.replicate (w - s.length) 0 := by
    unfold writeCString nullPad
    simp only [hc]
    have : ¬ (w ≤ s.length) := by omega
    simp [this]
  have hlen : (writeCString s w).length = w := by rw [hfield]; simp; omega
  unfold readString
  rw [List.take_append_of_le_length (by omega), List.drop_append_of_le_length (by omega)]
  rw [List.take_of_length_le (by omega), List.drop_of_length_le (by omega), hfield,
    cutNul_append_zeros s hs, List.nil_append]

end LasModel.Strings
