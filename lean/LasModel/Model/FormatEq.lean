/-
When are two point formats "the same" for laspy?  `LasWriter.write_points`, `LasAppender.append_points` and the `points` setter of `LasData`
refuse records whose `PointFormat` is not equal to theirs.  `PointFormat.__eq__` compares the ids and pairs the extra dimensions;
`DimensionInfo.__eq__` compares a list of attributes.  Which attributes, and how the dimensions are paired, is generated from the source
(`Gen.FormatEq`); this file says what that amounts to.
-/
import LasModel.Gen.Funs

namespace LasModel.FormatEq

/-- a `DimensionInfo`: the fields of the named tuple. Scales and offsets are compared numerically by the code; they are modelled by integers
    standing for the numeric values (NaN, which is not equal to itself, is outside the model) -/
structure XDim where
  name : String
  kind : Nat
  numBits : Nat
  numElements : Nat
  isStandard : Bool
  description : String
  offsets : Option (List Int)
  scales : Option (List Int)
deriving DecidableEq, Repr

/-- the comparison of one attribute; an attribute this model does not know puts no constraint (so that it cannot make a proof pass) -/
def fieldEq : String → XDim → XDim → Bool
  | "name", a, b => a.name == b.name
  | "kind", a, b => a.kind == b.kind
  | "num_bits", a, b => a.numBits == b.numBits
  | "num_elements", a, b => a.numElements == b.numElements
  | "is_standard", a, b => a.isStandard == b.isStandard
  | "description", a, b => a.description == b.description
  | "offsets", a, b => a.offsets == b.offsets
  | "scales", a, b => a.scales == b.scales
  | _, _, _ => true

/-- `DimensionInfo.__eq__`: the conjunction over the compared attributes -/
def dimEq (fs : List String) (a b : XDim) : Bool := fs.all fun f => fieldEq f a b

/-- `PointFormat.__eq__`: ids, then the extra dimensions pairwise; with `zip_longest` a dimension without partner makes the formats differ -/
def formatEq (cmpId pairsAll : Bool) (fs : List String) (ida idb : Nat) (xs ys : List XDim) : Bool :=
  (!cmpId || ida == idb) && (!pairsAll || xs.length == ys.length) && (xs.zip ys).all fun p => dimEq fs p.1 p.2

/-- the equality the code implements -/
def codeEq (ida idb : Nat) (xs ys : List XDim) : Bool :=
  formatEq Gen.FormatEq.comparesId Gen.FormatEq.pairsAll Gen.FormatEq.dimFields ida idb xs ys

/-- bytes one record of the extra dimensions takes -/
def extraLen (xs : List XDim) : Nat := (xs.map fun d => d.numBits / 8).sum

/-- the attributes of the named tuple, as this model knows them -/
def allFields : List String := ["name", "kind", "num_bits", "num_elements", "is_standard", "description", "offsets", "scales"]

end LasModel.FormatEq
