/-
Writer / reader / appender sessions on uncompressed files (laspy/laswriter.py,
laspy/lasreader.py, laspy/lasappender.py, `LasHeader.grow/partial_reset`).

Floating point enters only through the header extrema.  They are computed over an abstract
domain `F` (`FOps`): the theorems hold for every interpretation (with monotonicity as an
explicit hypothesis where needed); the driver instantiates `F` with hardware doubles.
-/
import LasModel.Model.Header
import LasModel.Model.Layout
import LasModel.Model.Compat
namespace LasModel.FileIO
open LasModel.Bytes LasModel.Header LasModel.Vlr LasModel.Layout LasModel.SubField

structure FOps (F : Type) where
  /-- `X * scale[axis] + offset[axis]` in the header's scaling -/
  render : Nat → Int → F
  gt : F → F → Bool
  lt : F → F → Bool
  bits : F → Nat
  /-- the double with the given 64-bit pattern (`struct.unpack("<d")`) -/
  ofBits : Nat → F
  lowest : F    -- np.finfo(float64).min
  highest : F   -- np.finfo(float64).max
  zero : F

/-- Python `max(a, b)` / `min(a, b)` on two arguments -/
def pymax {F} (o : FOps F) (a b : F) : F := if o.gt b a then b else a
def pymin {F} (o : FOps F) (a b : F) : F := if o.lt b a then b else a

abbrev Rec := Bytes

def recCoord (axis : Nat) (r : Rec) : Int := toSigned 4 (leNat ((r.drop (4 * axis)).take 4))

/-- mask of the return-number sub-field for a format (generated table) -/
def returnMask (fmt : Nat) : Nat :=
  (((Gen.composed fmt).lookup "bit_fields").bind (·.lookup "return_number")).getD 0

def recReturn (fmt : Nat) (r : Rec) : Nat := getBits (returnMask fmt) ((r.getD 14 0).toNat)

structure Stats (F : Type) where
  count : Nat
  byReturn : List Nat
  maxs : List F   -- x, y, z
  mins : List F

/-- `LasHeader.partial_reset` -/
def resetStats {F} (o : FOps F) : Stats F :=
  { count := 0, byReturn := List.replicate 15 0,
    maxs := List.replicate 3 o.lowest, mins := List.replicate 3 o.highest }

def intMax : List Int → Int
  | [] => 0
  | x :: xs => xs.foldl max x
def intMin : List Int → Int
  | [] => 0
  | x :: xs => xs.foldl min x

def bump (l : List Nat) (i : Nat) : List Nat := l.set i (l.getD i 0 + 1)

/-- histogram update of `grow`: return number 0 is counted nowhere -/
def growReturns (fmt : Nat) (byReturn : List Nat) (chunk : List Rec) : List Nat :=
  chunk.foldl (fun acc r => let rn := recReturn fmt r; if rn = 0 ∨ rn > 15 then acc else bump acc (rn - 1)) byReturn

/-- `LasHeader.grow(points)` for a non-empty chunk -/
def grow {F} (o : FOps F) (fmt : Nat) (s : Stats F) (chunk : List Rec) : Stats F :=
  { count := s.count + chunk.length,
    byReturn := growReturns fmt s.byReturn chunk,
    maxs := (List.range 3).map fun a => pymax o (s.maxs.getD a o.zero) (o.render a (intMax (chunk.map (recCoord a)))),
    mins := (List.range 3).map fun a => pymin o (s.mins.getD a o.zero) (o.render a (intMin (chunk.map (recCoord a)))) }

/-- the header with the statistics of the session written in (zero extrema for no points) -/
def withStats {F} (o : FOps F) (h : Hdr) (s : Stats F) (evlrStart nEvlrs : Nat) : Hdr :=
  let mx := if s.count = 0 then List.replicate 3 o.zero else s.maxs
  let mn := if s.count = 0 then List.replicate 3 o.zero else s.mins
  let ext := (List.range 3).flatMap fun a => [o.bits (mx.getD a o.zero), o.bits (mn.getD a o.zero)]
  { h with count := s.count, byReturn := s.byReturn, doubles := h.doubles.take 6 ++ ext,
           evlrStart := evlrStart, nEvlrs := nEvlrs }

/-- header as first written by the writer: reset statistics, raw reset extrema -/
def initialHdr {F} (o : FOps F) (h : Hdr) : Hdr :=
  let s := resetStats o
  let ext := (List.range 3).flatMap fun a => [o.bits (s.maxs.getD a o.zero), o.bits (s.mins.getD a o.zero)]
  { h with count := 0, byReturn := s.byReturn, doubles := h.doubles.take 6 ++ ext, evlrStart := 0, nEvlrs := 0 }

inductive WErr
  | header (e : Header.Err) | incompatible | done | format | capacity | evlrVersion | vlr
deriving DecidableEq, Repr

structure WState (F : Type) where
  hdr : Hdr
  stats : Stats F
  store : Bytes
  done : Bool
  closed : Bool
  evlrStart : Nat
  nEvlrs : Nat
  offset : Nat

def fmtOf (h : Hdr) : Nat := h.fmtByte % 64

/-- `LasWriter.__init__` on an empty destination (uncompressed) -/
def writerInit {F} (o : FOps F) (h : Hdr) : Except WErr (WState F) :=
  match Compat.writerInit (h.vMinor, fmtOf h) with
  | .error _ => .error .incompatible
  | .ok _ =>
    match encodeHdr (initialHdr o h) false 0 with
    | .error e => .error (.header e)
    | .ok enc => .ok { hdr := h, stats := resetStats o, store := enc, done := false, closed := false,
                       evlrStart := 0, nEvlrs := 0, offset := enc.length }

/-- a chunk of points handed to `write_points`: its point format signature and its records -/
structure Chunk where
  fmt : Nat
  recLen : Nat
  recs : List Rec

/-- `LasWriter.write_points` -/
def writePoints {F} (o : FOps F) (s : WState F) (c : Chunk) : Except WErr (WState F) :=
  if c.recs.isEmpty then .ok s
  else if s.done then .error .done
  else if c.fmt ≠ fmtOf s.hdr ∨ c.recLen ≠ s.hdr.recLen then .error .format
  else if maxPointCount s.hdr.vMinor - s.stats.count < c.recs.length then .error .capacity
  else .ok { s with stats := grow o (fmtOf s.hdr) s.stats c.recs, store := s.store ++ c.recs.flatten }

/-- `LasWriter.write_evlrs` -/
def writeEvlrs {F} (s : WState F) (evlrs : List Vlr) : Except WErr (WState F) :=
  if s.hdr.vMinor < 4 then .error .evlrVersion
  else if evlrs.isEmpty then .ok s
  else match encodeVlrs true evlrs with
    | .error _ => .error .vlr
    | .ok bs => .ok { s with done := true, nEvlrs := evlrs.length, evlrStart := s.store.length, store := s.store ++ bs }

/-- overwrite the beginning of the store (`seek(0); write(enc)`) -/
def overwrite (store enc : Bytes) : Bytes := enc ++ store.drop enc.length

/-- `LasWriter.close`: the header is rewritten in place with the final statistics -/
def writerClose {F} (o : FOps F) (s : WState F) : Except WErr (WState F) :=
  match encodeHdr (withStats o s.hdr s.stats s.evlrStart s.nEvlrs) true s.offset with
  | .error e => .error (.header e)
  | .ok enc => .ok { s with store := overwrite s.store enc, done := true, closed := true }

inductive WOp
  | points (c : Chunk)
  | evlrs (l : List Vlr)

def writerStep {F} (o : FOps F) (s : WState F) : WOp → Except WErr (WState F)
  | .points c => writePoints o s c
  | .evlrs l => writeEvlrs s l

def runOps {F} (o : FOps F) (s : WState F) : List WOp → Except WErr (WState F)
  | [] => .ok s
  | op :: ops => match writerStep o s op with
    | .ok s' => runOps o s' ops
    | .error e => .error e

/-- a whole session: init, operations, close; the result is the destination's content -/
def session {F} (o : FOps F) (h : Hdr) (ops : List WOp) : Except WErr Bytes :=
  match writerInit o h with
  | .error e => .error e
  | .ok s => match runOps o s ops with
    | .error e => .error e
    | .ok s' => match writerClose o s' with
      | .error e => .error e
      | .ok s'' => .ok s''.store

/-- `LasData.write`: one chunk, then the EVLRs when the version has them -/
def writeFile {F} (o : FOps F) (h : Hdr) (recs : List Rec) (evlrs : Option (List Vlr)) : Except WErr Bytes :=
  session o h ([.points ⟨fmtOf h, h.recLen, recs⟩] ++
    (if h.vMinor ≥ 4 then match evlrs with | some l => [.evlrs l] | none => [] else []))

/-! ### reading -/

inductive RErr
  | header (e : Header.Err) | pointSize | partialRecord | format
deriving DecidableEq, Repr

def splitRecs (recLen : Nat) : Nat → Bytes → List Rec
  | 0, _ => []
  | n + 1, bs => bs.take recLen :: splitRecs recLen n (bs.drop recLen)

structure ReadResult where
  hdr : Hdr
  records : List Rec
  evlrs : List Vlr
deriving DecidableEq

/-- EVLRs as `LasHeader.read_evlrs` finds them: `number_of_evlrs` records at `start_of_first_evlr` -/
def readEvlrs (h : Hdr) (file : Bytes) : List Vlr :=
  if h.vMinor ≥ 4 ∧ h.nEvlrs > 0 then (decodeVlrs true h.nEvlrs (file.drop h.evlrStart)).1 else []

/-- the point records: `count` records of `recLen` bytes from the offset, limited to what is
    present; a partial trailing record is an error (as `np.frombuffer` raises) -/
def readRecords (h : Hdr) (offset : Nat) (file : Bytes) : Except RErr (List Rec) :=
  let avail := (file.drop offset).take (h.count * h.recLen)
  if h.recLen ≠ 0 ∧ avail.length % h.recLen ≠ 0 then .error .partialRecord
  else .ok (splitRecs h.recLen (if h.recLen = 0 then 0 else avail.length / h.recLen) avail)

def readBody (h : Hdr) (file : Bytes) : Except RErr ReadResult :=
  if ¬ Gen.formatIds.contains (fmtOf h) then .error .format
  else if h.recLen < Gen.recLen (fmtOf h) then .error .pointSize
  else match readRecords h (fileOffset file) file with
    | .error e => .error e
    | .ok recs => .ok { hdr := h, records := recs, evlrs := readEvlrs h file }

/-- `laspy.read` on an uncompressed file: header, all points the header advertises that are
    present, EVLRs -/
def readFile (file : Bytes) : Except RErr ReadResult :=
  match decodeHdr file with
  | .error e => .error (.header e)
  | .ok h => readBody h file

end LasModel.FileIO
