/-
Stream ownership and access paths (laspy/lib.py `open_las`/`read_las`, `LasReader`,
`LasWriter`, `LasAppender`, `LasData.write`): which stream methods are called, where the
stream is left, and whether it is closed.  The stream is abstract: capabilities, a position,
a closed flag and the log of method calls.
-/
namespace LasModel.Streams

inductive Call
  | read | readinto | write | seek | tell | seekable | close
deriving DecidableEq, Repr

structure Stream where
  seekable : Bool
  hasReadinto : Bool
  pos : Nat
  closed : Bool
  log : List Call
deriving DecidableEq, Repr

def Stream.call (s : Stream) (c : Call) : Stream := { s with log := s.log ++ [c] }
def Stream.close (s : Stream) : Stream := { (s.call .close) with closed := true }

/-- what is in the file, as far as the control flow is concerned -/
structure FileInfo where
  signatureOK : Bool      -- first four bytes are LASF
  headerComplete : Bool   -- at least 227 bytes
  coherent : Bool         -- header size / offset fields coherent, point format known
  writable : Bool         -- version 1.1–1.4 (the header can be written back)
  minor4 : Bool           -- LAS 1.4
  nPoints : Nat
  nEvlrs : Nat
  offset : Nat            -- offset to point data
  recLen : Nat
deriving DecidableEq, Repr

inductive Failure | none | laspy | other
deriving DecidableEq, Repr

/-- `LasHeader.read_from(stream, read_evlrs)`: two reads for the prefetch; EVLR loading seeks
    only when the stream says it is seekable and restores the position -/
def readHeader (s : Stream) (f : FileInfo) (readEvlrs : Bool) : Stream × Failure × Bool :=
  let s := s.call .read
  if ¬ f.signatureOK ∨ ¬ f.headerComplete then (s, .laspy, false)
  else
    let s := { (s.call .read) with pos := f.offset }
    if ¬ f.coherent then (s, .laspy, false)
    else if readEvlrs ∧ f.minor4 then
      if f.nEvlrs > 0 then
        let s := s.call .seekable
        if s.seekable then
          -- tell, seek to the EVLRs, read them, seek back
          let s := (((s.call .tell).call .seek).call .read).call .seek
          (s, .none, true)
        else (s, .none, false)       -- evlrs stay None: deferred
      else (s, .none, true)
    else (s, .none, ¬ (f.minor4 ∧ f.nEvlrs > 0))   -- nothing to load / not asked

structure Reader where
  stream : Stream
  closefd : Bool
  file : FileInfo
  evlrsLoaded : Bool
  sourceCreated : Bool
  pointsRead : Nat

/-- `lib.open_las(mode="r")` + `LasReader.__init__`: on failure the stream is closed iff closefd -/
def openRead (s : Stream) (f : FileInfo) (closefd readEvlrs : Bool) : Except Stream Reader :=
  match readHeader s f readEvlrs with
  | (s, .none, loaded) => .ok ⟨s, closefd, f, loaded, false, 0⟩
  | (s, _, _) => .error (if closefd then s.close else s)

/-- `read_points(n)` on the uncompressed (or empty) point source: sequential reads only -/
def readPoints (r : Reader) (n : Nat) : Reader :=
  let left := r.file.nPoints - r.pointsRead
  if left = 0 then r
  else
    let m := min n left
    let s := r.stream.call (if r.stream.hasReadinto then .readinto else .read)
    { r with stream := { s with pos := s.pos + m * r.file.recLen }, sourceCreated := true, pointsRead := r.pointsRead + m }

/-- `LasReader.read()`: all remaining points, then the EVLRs if they were deferred: by seeking
    when the source is seekable, sequentially right after the last point otherwise -/
def readAll (r : Reader) : Reader :=
  let r := readPoints r (r.file.nPoints - r.pointsRead)
  let r := { r with sourceCreated := true }
  if r.file.minor4 ∧ r.file.nEvlrs > 0 ∧ ¬ r.evlrsLoaded then
    let s := r.stream.call .seekable
    if s.seekable then
      { r with stream := (((s.call .tell).call .seek).call .read).call .seek, evlrsLoaded := true }
    else
      { r with stream := s.call .read, evlrsLoaded := true }
  else r

/-- `LasReader.close()`: the point source (when one was created) closes the stream it wraps -/
def closeReader (r : Reader) : Stream := if r.closefd then r.stream.close else r.stream

/-! ### writer and appender -/

/-- `open_las(mode="w")` + `LasWriter.__init__` (header compatible or not), body, close -/
def writeSession (s : Stream) (closefd compatible bodyRaises : Bool) : Stream :=
  if ¬ compatible then (if closefd then s.close else s)
  else
    let s := s.call .write              -- initial header
    let s := if bodyRaises then s else s.call .write   -- points
    -- __exit__ calls close() in both cases: header rewritten, then closefd honoured
    let s := (s.call .seek).call .write
    if closefd then s.close else s

/-- the same session for a LAS 1.4 header, with `write_evlrs` (non-empty list) called in the body: the writer is marked
    done by it; `close()` still rewrites the header and honours closefd -/
def writeSessionEvlrs (s : Stream) (closefd pointsWritten bodyRaises : Bool) : Stream :=
  let s := s.call .write                                   -- initial header
  let s := if pointsWritten then s.call .write else s      -- points
  let s := (s.call .tell).call .write                      -- write_evlrs: position noted, records written
  let _ := bodyRaises                                      -- an exception after that point changes nothing: __exit__ closes
  let s := (s.call .seek).call .write
  if closefd then s.close else s

/-- where reading fails although the header was accepted -/
inductive LateFailure
  | none
  | source     -- the point source cannot be created (points flagged compressed, nothing to decompress them with)
  | read       -- the source raises inside the point block
deriving DecidableEq, Repr

/-- `lib.read_las`: the reader is used in a with-block, so it is closed on every exit; `open_las` has already closed
    the stream (iff closefd) when opening fails -/
def readLas (s : Stream) (f : FileInfo) (closefd : Bool) (late : LateFailure) : Stream × Failure :=
  match openRead s f closefd true with
  | .error s' => (s', .laspy)
  | .ok r =>
    if f.nPoints = 0 then (closeReader (readAll r), .none)
    else match late with
      | .none => (closeReader (readAll r), .none)
      | .source => (closeReader r, .laspy)
      | .read => (closeReader { r with stream := r.stream.call (if r.stream.hasReadinto then .readinto else .read),
                                        sourceCreated := true }, .other)

/-- `LasData.write(stream)` uses a writer with closefd=False -/
def lasDataWrite (s : Stream) : Stream := writeSession s false true false

/-- `open_las(mode="a")` + `LasAppender`: not seekable → TypeError; header problems → laspy
    exception; an unwritable version fails while rewriting the header in `close()` -/
def appendSession (s : Stream) (f : FileInfo) (closefd bodyRaises : Bool) : Stream × Failure :=
  let s := s.call .seekable
  if ¬ s.seekable then (if closefd then s.close else s, .other)
  else match readHeader s f false with
    | (s, .none, _) =>
      let s := s.call .seek
      let s := if f.minor4 ∧ f.nEvlrs > 0 then ((((s.call .tell).call .seek).call .read).call .seek).call .seek else s
      let s := if bodyRaises then s else s.call .write
      -- close(): EVLRs, header rewrite (raises for an unwritable version), then closefd — in a `finally`
      let s := if f.minor4 ∧ f.nEvlrs > 0 then (s.call .tell).call .write else s
      let s := (s.call .tell).call .seek
      let fail := if f.writable then Failure.none else Failure.other
      let s := if f.writable then (s.call .write).call .seek else s
      (if closefd then s.close else s, fail)
    | (s, _, _) => (if closefd then s.close else s, .laspy)

end LasModel.Streams
