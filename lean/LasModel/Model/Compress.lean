/-
The compression glue (laspy/lib.py, laspy/lasdata.py, laspy/laswriter.py,
laspy/lasreader.py, laspy/_compression/format.py): when output is compressed, the compressed
bit of the point format byte, the LasZip VLR bookkeeping, and transparency for an abstract
backend that honours the contract.
-/
import LasModel.Gen.Funs
import LasModel.Model.Bytes
namespace LasModel.Compress
open LasModel.Bytes

inductive Dest
  | path (ext : String)      -- a file name, with its extension as `os.path.splitext` gives it
  | stream

/-- `str.lower()` on ASCII -/
def lower (s : String) : String := s.map Char.toLower

/-- `laspy.open(dest, mode="w", do_compress=…, laz_backend=…)` -/
def openDecision (dest : Dest) (doCompress : Option Bool) (backendGiven : Bool) : Bool :=
  match dest with
  | .path ext =>
    let dc := match doCompress with | some b => some b | none => some (lower ext == ".laz")
    -- LasWriter.__init__ with an explicit value
    dc.getD false
  | .stream =>
    match doCompress with
    | some b => b
    | none => backendGiven

/-- `LasData.write(dest, do_compress=…, laz_backend=…)`: for a path the extension decides and
    the option is ignored (documented) -/
def writeDecision (dest : Dest) (doCompress : Option Bool) (backendGiven : Bool) : Bool :=
  match dest with
  | .path ext => lower ext == ".laz"
  | .stream => match doCompress with | some b => b | none => backendGiven

/-- a VLR as far as the bookkeeping is concerned -/
structure V where
  isLasZip : Bool
  tag : Nat
deriving DecidableEq, Repr

/-- `vlrs.pop(vlrs.index("LasZipVlr"))`: the first LasZip record is removed, if any -/
def popLasZip : List V → List V
  | [] => []
  | v :: vs => if v.isLasZip then vs else v :: popLasZip vs

def lasZip : V := ⟨true, 0⟩

/-- VLRs of the file a writer produces -/
def writtenVlrs (compress : Bool) (vlrs : List V) : List V :=
  let v := popLasZip vlrs
  if compress then v ++ [lasZip] else v

/-- VLRs presented after reading: the record is hidden from the user when the points are
    compressed (also when there is no point to decompress) -/
def presentedVlrs (compressed : Bool) (vlrs : List V) : List V :=
  if compressed then popLasZip vlrs else vlrs

def countLasZip (l : List V) : Nat := (l.filter (·.isLasZip)).length

/-! ### the backend contract -/

structure Codec where
  /-- bytes the compressor leaves for a sequence of chunks handed to `compress_many`, then `done` -/
  compress : List (List Bytes) → Bytes
  /-- what `decompress_many` yields for the first `n` points of a compressed stream -/
  decompress : Bytes → Nat → List Bytes

/-- decompress ∘ compress = id, independent of how the points were chunked, of what follows
    the compressed stream, for every prefix length -/
def CodecLaws (cd : Codec) : Prop :=
  ∀ chunks rest n, n ≤ chunks.flatten.length → cd.decompress (cd.compress chunks ++ rest) n = chunks.flatten.take n

end LasModel.Compress
