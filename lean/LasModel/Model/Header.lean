/-
The LAS header as `LasHeader.write_to` emits it and `LasHeader._prefetch_header_data` +
`read_from` parse it (laspy/header.py).  Reads are lenient (`BytesIO.read` semantics).
Doubles are carried as their 64-bit patterns (`struct.pack("<d")` is bit-exact).
-/
import LasModel.Model.Vlr
namespace LasModel.Header
open LasModel.Bytes LasModel.Strings LasModel.Vlr

/-- concatenation of little-endian integer fields `(width, value)` -/
def encInts : List (Nat × Nat) → Bytes
  | [] => []
  | (w, n) :: fs => leBytes w n ++ encInts fs

/-- sequential `int.from_bytes(stream.read(w))` for the given widths -/
def decInts : List Nat → Bytes → List Nat × Bytes
  | [], bs => ([], bs)
  | w :: ws, bs =>
    let (n, bs) := readLE w bs
    let (ns, bs) := decInts ws bs
    (n :: ns, bs)

theorem encInts_length (fs : List (Nat × Nat)) : (encInts fs).length = (fs.map (·.1)).sum := by
  induction fs with
  | nil => rfl
  | cons f fs ih => obtain ⟨w, n⟩ := f; simp [encInts, ih]

theorem decInts_encInts (fs : List (Nat × Nat)) (rest : Bytes) (h : ∀ f ∈ fs, f.2 < 256 ^ f.1) :
    decInts (fs.map (·.1)) (encInts fs ++ rest) = (fs.map (·.2), rest) := by
  induction fs with
  | nil => rfl
  | cons f fs ih =>
    obtain ⟨w, n⟩ := f
    simp only [List.map_cons, decInts, encInts, List.append_assoc]
    rw [readLE_append w n _ (h (w, n) (by simp))]
    simp only
    rw [ih (fun f hf => h f (by simp [hf]))]

structure Hdr where
  fileSourceId : Nat
  globalEncoding : Nat
  guid : Bytes
  vMajor : Nat
  vMinor : Nat
  systemId : Bytes
  software : Bytes
  doy : Nat
  year : Nat
  fmtByte : Nat
  recLen : Nat
  count : Nat
  byReturn : List Nat
  /-- scales x,y,z, offsets x,y,z, then max x, min x, max y, min y, max z, min z: 64-bit patterns -/
  doubles : List Nat
  waveformStart : Nat
  evlrStart : Nat
  nEvlrs : Nat
  extraHeader : Bytes
  vlrs : List Vlr
  extraVlr : Bytes
deriving DecidableEq, Repr

inductive Err
  | empty | signature | tooSmall | headerSize | offset | countTooLarge | version | vlrTooLong | sameSize
deriving DecidableEq, Repr

def baseSize (minor : Nat) : Option Nat := Gen.headerSize.lookup minor

def legacyInts (h : Hdr) : List (Nat × Nat) :=
  if h.vMinor ≥ 4 then (4, 0) :: List.replicate 5 (4, 0)
  else (4, h.count) :: (h.byReturn.take 5).map fun r => (4, r)

def tailInts (h : Hdr) : List (Nat × Nat) :=
  (if h.vMinor ≥ 3 then [(8, h.waveformStart)] else []) ++
  (if h.vMinor ≥ 4 then [(8, h.evlrStart), (4, h.nEvlrs), (8, h.count)] ++ h.byReturn.map (fun r => (8, r)) else [])

/-- numeric fields after the two strings, in file order -/
def blockC (h : Hdr) (hsize offset : Nat) : List (Nat × Nat) :=
  [(2, h.doy), (2, h.year), (2, hsize), (4, offset), (4, h.vlrs.length), (1, h.fmtByte), (2, h.recLen)] ++
  legacyInts h ++ h.doubles.map (fun d => (8, d)) ++ tailInts h

def maxPointCount (minor : Nat) : Nat := if minor ≤ 3 then 2 ^ 32 - 1 else 2 ^ 64 - 1

/-- `LasHeader.write_to(stream, ensure_same_size)`; `oldOffset` is the header object's
    `offset_to_point_data` before the call -/
def encodeHdr (h : Hdr) (ensureSameSize : Bool) (oldOffset : Nat) : Except Err Bytes :=
  if h.count > maxPointCount h.vMinor then .error .countTooLarge else
  match encodeVlrs false h.vlrs with
  | .error _ => .error .vlrTooLong
  | .ok vlrBytes =>
    match baseSize h.vMinor with
    | none => .error .version
    | some base =>
      let hsize := base + h.extraHeader.length
      let offset := hsize + vlrBytes.length + h.extraVlr.length
      if ensureSameSize && offset != oldOffset then .error .sameSize else
      .ok (Gen.fileSignature ++ encInts [(2, h.fileSourceId), (2, h.globalEncoding)] ++ h.guid ++
        encInts [(1, h.vMajor), (1, h.vMinor)] ++ writeString h.systemId Gen.SYSTEM_IDENTIFIER_LEN ++
        writeString h.software Gen.GENERATING_SOFTWARE_LEN ++ encInts (blockC h hsize offset) ++
        h.extraHeader ++ vlrBytes ++ h.extraVlr)

/-- the offset the written header records -/
def offsetOf (h : Hdr) : Option Nat :=
  match encodeVlrs false h.vlrs, baseSize h.vMinor with
  | .ok vb, some base => some (base + h.extraHeader.length + vb.length + h.extraVlr.length)
  | _, _ => none

def widthsC (minor : Nat) : List Nat :=
  [2, 2, 2, 4, 4, 1, 2, 4, 4, 4, 4, 4, 4] ++ List.replicate 12 8 ++
  (if minor ≥ 3 then [8] else []) ++ (if minor ≥ 4 then [8, 4, 8] ++ List.replicate 15 8 else [])

/-- `_prefetch_header_data`: the bytes from the start of the file to the first point record -/
def prefetch (file : Bytes) : Except Err Bytes :=
  let first := file.take 227
  if first.take 4 = [] then .error .empty
  else if first.take 4 ≠ Gen.fileSignature then .error .signature
  else if first.length < 227 then .error .tooSmall
  else
    let offset := leNat ((first.drop 96).take 4)
    .ok (if offset ≥ 227 then file.take offset else file)

/-- `read_from` on the prefetched bytes, up to and including the post-VLR padding -/
def parseHdr (buf : Bytes) : Except Err Hdr :=
    let bs := buf.drop 4
    let (a, bs) := decInts [2, 2] bs
    let (guid, bs) := readN 16 bs
    let (b, bs) := decInts [1, 1] bs
    let (sysid, bs) := readString Gen.SYSTEM_IDENTIFIER_LEN bs
    let (soft, bs) := readString Gen.GENERATING_SOFTWARE_LEN bs
    let minor := b.getD 1 0
    let (c, bs) := decInts (widthsC minor) bs
    let hsize := c.getD 2 0
    let pos := buf.length - bs.length
    if pos > hsize then .error .headerSize else
    let (extraHeader, bs) := readN (hsize - pos) bs
    let (vlrs, bs) := decodeVlrs false (c.getD 4 0) bs
    let pos := buf.length - bs.length
    if pos > c.getD 3 0 then .error .offset else
    let (extraVlr, _) := readN (c.getD 3 0 - pos) bs
    let legacyRet := (c.drop 8).take 5
    let doubles := (c.drop 13).take 12
    let t := c.drop 25
    let wave := if minor ≥ 3 then t.getD 0 0 else 0
    let t4 := if minor ≥ 3 then t.drop 1 else t
    .ok {
      fileSourceId := a.getD 0 0, globalEncoding := a.getD 1 0, guid := guid,
      vMajor := b.getD 0 0, vMinor := minor, systemId := sysid, software := soft,
      doy := c.getD 0 0, year := c.getD 1 0, fmtByte := c.getD 5 0, recLen := c.getD 6 0,
      count := if minor ≥ 4 then t4.getD 2 0 else c.getD 7 0,
      byReturn := if minor ≥ 4 then (t4.drop 3).take 15 else legacyRet ++ List.replicate 10 0,
      doubles := doubles, waveformStart := wave,
      evlrStart := if minor ≥ 4 then t4.getD 0 0 else 0,
      nEvlrs := if minor ≥ 4 then t4.getD 1 0 else 0,
      extraHeader := extraHeader, vlrs := vlrs, extraVlr := extraVlr }

/-- offset of the first point record as the file's header states it -/
def fileOffset (file : Bytes) : Nat := leNat ((file.drop 96).take 4)

def decodeHdr (file : Bytes) : Except Err Hdr :=
  match prefetch file with
  | .ok buf => parseHdr buf
  | .error e => .error e

/-- the legal domain of the header fields (what `write_to` can represent) -/
structure Hdr.WF (h : Hdr) : Prop where
  fsid : h.fileSourceId < 2 ^ 16
  ge : h.globalEncoding < 2 ^ 16
  guid : h.guid.length = 16
  major : h.vMajor < 256
  minor : 1 ≤ h.vMinor ∧ h.vMinor ≤ 4
  sys : NulFree h.systemId ∧ h.systemId.length ≤ 32
  soft : NulFree h.software ∧ h.software.length ≤ 32
  doy : h.doy < 2 ^ 16
  year : h.year < 2 ^ 16
  fmt : h.fmtByte < 256
  recLen : h.recLen < 2 ^ 16
  count : h.count ≤ maxPointCount h.vMinor
  ret : h.byReturn.length = 15 ∧ ∀ r ∈ h.byReturn, r < (if h.vMinor ≥ 4 then 2 ^ 64 else 2 ^ 32)
  doubles : h.doubles.length = 12 ∧ ∀ d ∈ h.doubles, d < 2 ^ 64
  wave : h.waveformStart < 2 ^ 64
  evlr : h.evlrStart < 2 ^ 64 ∧ h.nEvlrs < 2 ^ 32
  vlrs : ∀ v ∈ h.vlrs, v.WF false ∧ v.payload.length ≤ 65535 ∧ factory v = v
  nvlrs : h.vlrs.length < 2 ^ 32

/-- what a version can carry: before 1.4 only five per-return counts are stored and there are
    no EVLR fields; before 1.3 no waveform pointer.  `canon h` is what reading back gives. -/
def canon (h : Hdr) : Hdr :=
  { h with
    byReturn := if h.vMinor ≥ 4 then h.byReturn else h.byReturn.take 5 ++ List.replicate 10 0,
    waveformStart := if h.vMinor ≥ 3 then h.waveformStart else 0,
    evlrStart := if h.vMinor ≥ 4 then h.evlrStart else 0,
    nEvlrs := if h.vMinor ≥ 4 then h.nEvlrs else 0 }

end LasModel.Header
