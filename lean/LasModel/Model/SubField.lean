/-
Model of laspy's bit-packed sub-fields (`SubFieldView` in laspy/point/dims.py) over the
generated tables.  A packed byte is a `Nat < 256`; a sub-field is identified by its mask.
-/
import LasModel.Gen.Tables
import LasModel.Lemmas.Bits

namespace LasModel.SubField
open LasModel.Bits

/-- `packing.least_significant_bit_set` as laspy evaluates it (generated table) -/
def lsb (mask : Nat) : Nat := ((Gen.lsbTable.lookup mask).getD 0)

/-- `SubFieldView.max_value_allowed = int(bit_mask >> lsb)` -/
def maxOf (mask : Nat) : Nat := mask >>> lsb mask

/-- `SubFieldView.masked_array` on one byte: `(array & bit_mask) >> lsb` -/
def getBits (mask b : Nat) : Nat := (b &&& mask) >>> lsb mask

/-- `SubFieldView.__setitem__` on one byte, after the range check:
    `array &= ~mask; array = bitwise_or(array, value << lsb, casting="unsafe")` (cast to u1) -/
def setBits (mask b v : Nat) : Nat := ((clear b mask) ||| (v <<< lsb mask)) % 256

inductive Err | overflow | index | other
deriving DecidableEq, Repr

/-- the range check of `__setitem__` (values are Python/numpy integers) -/
def inRange (mask : Nat) (v : Int) : Bool := decide (0 ≤ v) && decide (v ≤ (maxOf mask : Int))

/-- numpy scatter `a[idxs] = vals` (sequential, last write wins) -/
def scatter (col : List Nat) : List Nat → List Nat → List Nat
  | i :: is, v :: vs => scatter (col.set i v) is vs
  | _, _ => col

/-- assignment of `vals` to a sub-field at the resolved positions `idxs` of the packed-byte
    column `col` (`idxs` in bounds, `vals` already broadcast to `idxs.length`):
    all values are range-checked first; then clear, then or. -/
def assignCol (mask : Nat) (col : List Nat) (idxs : List Nat) (vals : List Int) :
    Except Err (List Nat) :=
  if vals.all (inRange mask) then
    let cleared := scatter col idxs (idxs.map fun i => clear (col.getD i 0) mask)
    let ored := (idxs.zip vals).map fun (i, v) => ((cleared.getD i 0) ||| (v.toNat <<< lsb mask)) % 256
    .ok (scatter cleared idxs ored)
  else .error .overflow

/-- the sub-field column presented to the user -/
def readCol (mask : Nat) (col : List Nat) : List Nat := col.map (getBits mask)

end LasModel.SubField
