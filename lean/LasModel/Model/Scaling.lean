/-
Scaled coordinates (laspy/point/dims.py `ScaledArrayView`, laspy/point/record.py,
laspy/lasdata.py, laspy/laswriter.py) in exact rational arithmetic.

`apply s o X = X·s + o`, `remove s o v = round((v − o)/s)` with numpy's round-half-to-even.
The state carries the Python aliasing between the header's and the record's scale/offset
arrays: after a coordinate assignment through the LasData (or `change_scaling` with explicit
arguments) the record's arrays *are* the header's objects, so an in-place header edit changes
both, while rebinding the header attribute does not.
-/
namespace LasModel.Scaling

def INT_MIN : Int := -2147483648
def INT_MAX : Int := 2147483647

def apply (s o : Rat) (x : Int) : Rat := (x : Rat) * s + o

/-- round half to even (`np.round`) -/
def roundHalfEven (q : Rat) : Int :=
  let f := q.floor
  let d := q - (f : Rat)
  if d < 1 / 2 then f
  else if d > 1 / 2 then f + 1
  else if f % 2 = 0 then f else f + 1

def remove (s o v : Rat) : Int := roundHalfEven ((v - o) / s)

inductive Err | overflow
deriving DecidableEq, Repr

structure Scal where
  s : List Rat   -- x, y, z
  o : List Rat
deriving DecidableEq

def Scal.sc (c : Scal) (a : Nat) : Rat := c.s.getD a 1
def Scal.off (c : Scal) (a : Nat) : Rat := c.o.getD a 0

structure State where
  hdr : Scal
  rsc : Scal
  aliasS : Bool    -- record.scales is header.scales (same array object)
  aliasO : Bool
  pts : List (List Int)   -- X, Y, Z columns
deriving DecidableEq

def State.col (st : State) (a : Nat) : List Int := st.pts.getD a []

/-- what the LasData presents: `las.x`, `las.y`, `las.z` -/
def present (st : State) (a : Nat) : List Rat := (st.col a).map (apply (st.rsc.sc a) (st.rsc.off a))

/-- the assignment bounds check of `ScaledArrayView.__setitem__` -/
def inWindow (s o : Rat) (vs : List Rat) : Bool :=
  vs.all fun v => decide (v ≤ apply s o INT_MAX) && decide (apply s o INT_MIN ≤ v)

def fits (x : Int) : Bool := decide (INT_MIN ≤ x) && decide (x ≤ INT_MAX)

def setCol (pts : List (List Int)) (a : Nat) (c : List Int) : List (List Int) := pts.set a c

inductive Op
  | hdrEditScale (a : Nat) (v : Rat)      -- header.x_scale = v / header.scales[a] = v   (in place)
  | hdrEditOffset (a : Nat) (v : Rat)     -- header.x_offset = v                         (in place)
  | hdrRebindScales (s : List Rat)        -- header.scales = array
  | hdrRebindOffsets (o : List Rat)       -- header.offsets = array
  | assignLas (a : Nat) (vs : List Rat)   -- las.x = values     (LasData attribute: syncs to the header first)
  | assignRec (a : Nat) (vs : List Rat)   -- las.points.x = values / one column of las.xyz = …  (record's scaling)
  | changeScaling (s : Option (List Rat)) (o : Option (List Rat))  -- las.change_scaling(scales, offsets)

/-- rescale all three columns to a new scaling; refuses values that do not fit 32 bits -/
def rescale (cur : Scal) (new : Scal) (pts : List (List Int)) : Except Err (List (List Int)) :=
  let cols := (List.range 3).map fun a =>
    (pts.getD a []).map fun x => remove (new.sc a) (new.off a) (apply (cur.sc a) (cur.off a) x)
  if cols.all (·.all fits) then .ok cols else .error .overflow

def assignWith (sc : Scal) (st : State) (a : Nat) (vs : List Rat) : Except Err (List (List Int)) :=
  if inWindow (sc.sc a) (sc.off a) vs then .ok (setCol st.pts a (vs.map (remove (sc.sc a) (sc.off a))))
  else .error .overflow

/-- one operation: the new state and whether it was accepted (`false` = OverflowError).
    A refused `las.x = …` has already synchronised the record's scaling with the header's
    (the sync precedes the bounds check in `LasData.__setattr__`); every other refused
    operation leaves the state as it was. -/
def step (st : State) : Op → State × Bool
  | .hdrEditScale a v =>
    let hs := st.hdr.s.set a v
    ({ st with hdr := { st.hdr with s := hs }, rsc := if st.aliasS then { st.rsc with s := hs } else st.rsc }, true)
  | .hdrEditOffset a v =>
    let ho := st.hdr.o.set a v
    ({ st with hdr := { st.hdr with o := ho }, rsc := if st.aliasO then { st.rsc with o := ho } else st.rsc }, true)
  | .hdrRebindScales s => ({ st with hdr := { st.hdr with s := s }, aliasS := false }, true)
  | .hdrRebindOffsets o => ({ st with hdr := { st.hdr with o := o }, aliasO := false }, true)
  | .assignLas a vs =>
    -- points.offsets = header.offsets; points.scales = header.scales; then the record assignment
    match assignWith st.hdr st a vs with
    | .ok pts => ({ st with rsc := st.hdr, aliasS := true, aliasO := true, pts := pts }, true)
    | .error _ => ({ st with rsc := st.hdr, aliasS := true, aliasO := true }, false)
  | .assignRec a vs =>
    match assignWith st.rsc st a vs with
    | .ok pts => ({ st with pts := pts }, true)
    | .error _ => (st, false)
  | .changeScaling s o =>
    let ns := s.getD st.rsc.s
    let no := o.getD st.rsc.o
    match rescale st.rsc ⟨ns, no⟩ st.pts with
    | .error _ => (st, false)
    | .ok pts =>
      ({ st with rsc := ⟨ns, no⟩, pts := pts,
                 hdr := ⟨if s.isSome then ns else st.hdr.s, if o.isSome then no else st.hdr.o⟩,
                 aliasS := if s.isSome then true else st.aliasS,
                 aliasO := if o.isSome then true else st.aliasO }, true)

def run (st : State) : List Op → State × List Bool
  | [] => (st, [])
  | op :: ops =>
    let (st', ok) := step st op
    let (f, l) := run st' ops
    (f, ok :: l)

/-- `LasData.write`: what the file carries (header scaling, stored integers), or an error;
    the caller's state is untouched either way -/
def writeOut (st : State) : Except Err (Scal × List (List Int)) :=
  if st.rsc = st.hdr then .ok (st.hdr, st.pts)
  else match rescale st.rsc st.hdr st.pts with
    | .ok pts => .ok (st.hdr, pts)
    | .error e => .error e

end LasModel.Scaling
