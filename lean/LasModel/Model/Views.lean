/-
Model of the parts of laspy's dimension views that contain logic of their own
(laspy/point/dims.py): `SubFieldView._do_comparison`, `SubFieldView.__getitem__`,
`ScaledArrayView.__getitem__` (scale selection for multi-element dimensions) and
`ScaledArrayView.max/min`.  Everything that `ArrayView` forwards to the materialised numpy
array is a delegation and is covered by the differential run only.
-/
import LasModel.Model.SubField
import LasModel.Gen.Funs

namespace LasModel.Views
open LasModel.SubField

inductive Cmp | lt | le | gt | ge
deriving DecidableEq, Repr

def Cmp.eval : Cmp → Int → Int → Bool
  | .lt, a, b => decide (a < b)
  | .le, a, b => decide (a ≤ b)
  | .gt, a, b => decide (a > b)
  | .ge, a, b => decide (a ≥ b)

/-- `SubFieldView._do_comparison` for an integer operand `c` (Python int or numpy integer
    scalar, any magnitude and sign), on one packed byte: out-of-range constants give the
    constant answer; otherwise the masked, unshifted byte is compared with `c << lsb`. -/
def cmpSub (op : Cmp) (mask b : Nat) (c : Int) : Bool :=
  if c > (maxOf mask : Int) then op.eval 0 1
  else if c < 0 then op.eval 1 0
  else op.eval ((b &&& mask : Nat) : Int) ((c.toNat <<< lsb mask : Nat) : Int)

def cmpCol (op : Cmp) (mask : Nat) (col : List Nat) (c : Int) : List Bool :=
  col.map fun b => cmpSub op mask b c

/-- numpy gather `a[idxs]` for resolved, in-bounds positions -/
def gather {α} [Inhabited α] (a : List α) (idxs : List Nat) : List α := idxs.map fun i => a.getD i default

/-- `SubFieldView.__getitem__`: a view on the gathered bytes with the same mask -/
def indexSub (mask : Nat) (col : List Nat) (idxs : List Nat) : List Nat :=
  readCol mask (gather col idxs)

/-! scaled multi-element views: `rows` is the stored integer matrix (points × elements),
    `sc j` the scaling of element `j` (a pair scale/offset of any numeric type, applied by
    `app`). -/
section Scaled
variable {σ β : Type} [Inhabited σ] (app : σ → Int → β)

/-- `np.array(view)`: every element scaled by its own scale/offset -/
def matScaled (sc : List σ) (rows : List (List Int)) : List (List β) :=
  rows.map fun r => (r.zip sc).map fun (x, s) => app s x

/-- `view[is, j]` (also `view[..., j]`): element `j` of the addressed points, scaled with the
    scale/offset of element `j` -/
def indexElem (sc : List σ) (rows : List (List Int)) (is : List Nat) (j : Nat) : List β :=
  (gather rows is).map fun r => app (sc.getD j default) (r.getD j 0)

/-- `view[is, ...]` / `view[is]`: whole points, all scales kept -/
def indexPoints (sc : List σ) (rows : List (List Int)) (is : List Nat) : List (List β) :=
  matScaled app sc (gather rows is)
end Scaled

/-- exact scaling with a common positive denominator left implicit: `X*s + o` -/
def applyInt (s o : Int) (x : Int) : Int := x * s + o

def listMax : List Int → Option Int
  | [] => none
  | x :: xs => some (xs.foldl max x)
def listMin : List Int → Option Int
  | [] => none
  | x :: xs => some (xs.foldl min x)

/-- `ScaledArrayView.max` on a one-element dimension: scale the integer maximum -/
def maxScaled (s o : Int) (xs : List Int) : Option Int := (listMax xs).map (applyInt s o)
def minScaled (s o : Int) (xs : List Int) : Option Int := (listMin xs).map (applyInt s o)

/-! operator methods: what the Python data model says each special method implements. The generated tables
    (`Gen.Views`, from the source of `ArrayView`, `SubFieldView`, `ScaledArrayView`) say which operator each method
    actually hands `np.array(self)` and the other operand to. -/

/-- the binary operator a special method implements (Python data model) -/
def pyOperator : String → Option String
  | "__lt__" => some "<" | "__le__" => some "<=" | "__gt__" => some ">" | "__ge__" => some ">="
  | "__eq__" => some "==" | "__ne__" => some "!=" | "__add__" => some "+" | "__sub__" => some "-"
  | "__mul__" => some "*" | "__truediv__" => some "/" | "__floordiv__" => some "//"
  | _ => none

/-- the comparison a rich-comparison method stands for, as `operator.<name>` / `"__<name>__"` -/
def cmpName : String → Option String
  | "__lt__" => some "lt" | "__le__" => some "le" | "__gt__" => some "gt" | "__ge__" => some "ge"
  | "__eq__" => some "eq" | "__ne__" => some "ne"
  | _ => none

/-- the operators the property quantifies over -/
def propertyOperators : List String :=
  ["__eq__", "__ne__", "__lt__", "__le__", "__gt__", "__ge__", "__add__", "__sub__", "__mul__", "__truediv__", "__floordiv__"]

end LasModel.Views
