/-
Interrupted writes and truncated files (C19).  A session's low-level writes form a byte
stream with positions; `image k` is the destination after the first `k` bytes of that stream
have reached it (write-call granularity and torn writes are both instances).
-/
import LasModel.Model.Appender
namespace LasModel.Crash
open LasModel.Bytes LasModel.FileIO LasModel.Appender

/-- one low-level write: position and data -/
abbrev Write := Nat × Bytes

/-- apply the first `k` bytes of a sequence of writes to an initial content -/
def image (init : Bytes) : List Write → Nat → Bytes
  | [], _ => init
  | (pos, data) :: ws, k =>
    if k = 0 then init
    else if k < data.length then writeAt init pos (data.take k)
    else image (writeAt init pos data) ws (k - data.length)

/-- the write stream of a writer session: initial header, the chunks, the EVLRs, then the
    header again at position 0 -/
def writerLog (enc0 : Bytes) (chunks : List Bytes) (eb encF : Bytes) : List Write :=
  let rec go (pos : Nat) : List Bytes → List Write
    | [] => []
    | c :: cs => (pos, c) :: go (pos + c.length) cs
  (0, enc0) :: go enc0.length chunks ++ [(enc0.length + chunks.flatten.length, eb), (0, encF)]

/-- the write stream of an append session on `file`: new chunks from `pos`, the EVLRs after
    them, the header at position 0 -/
def appenderLog (pos : Nat) (chunks : List Bytes) (eb encF : Bytes) : List Write :=
  let rec go (p : Nat) : List Bytes → List Write
    | [] => []
    | c :: cs => (p, c) :: go (p + c.length) cs
  go pos chunks ++ [(pos + chunks.flatten.length, eb), (0, encF)]

/-- `a` is a prefix of `b` -/
def IsPrefix {α} (a b : List α) : Prop := ∃ t, a ++ t = b

end LasModel.Crash
