/-
Writer and reader sessions on *compressed* files (laspy/laswriter.py with
`LazrsPointWriter`, laspy/lasreader.py with `LazrsPointReader`,
laspy/_compression/lazrsbackend.py): what laspy's own code contributes around a LAZ backend —
the LasZip record appended to the VLRs, the compressed bit of the point format byte, the
offsets, the EVLR position after the compressed stream, the header rewrite, and on the
reading side the detection of compression, the hidden record, the decompressor started at
the point offset, and the EVLRs.

The backend is a parameter (`Codec`).  `stubCodec` is the backend double of the harness
(harness/stubs/lazrs.py) written out, so that whole compressed files can be compared byte for
byte and so that the contract (`CodecLaws`) is known to be satisfiable.
-/
import LasModel.Model.FileIO
import LasModel.Model.Appender
import LasModel.Gen.Funs
namespace LasModel.CompressIO
open LasModel.Bytes LasModel.Header LasModel.Vlr LasModel.FileIO

/-- a LAZ backend as laspy drives it -/
structure Codec where
  /-- `LazVlr.new_for_compression(point_format_id, num_extra_bytes).record_data()` -/
  vlrData : Nat → Nat → Bytes
  /-- what a compressor created at stream position `start` leaves in the destination after the
      given `compress_many` calls and `done()` (the stream position is then at its end) -/
  compress : Bytes → Nat → List (List Rec) → Bytes
  /-- `decompress_many` into a buffer for `n` points, by a decompressor created on a stream
      whose remaining content is the given bytes -/
  decompress : Bytes → Bytes → Nat → Bytes
  /-- what an appender created on a destination positioned at `start` (the point offset), whose content from there
      on is `existing`, leaves from `start` on after the given `compress_many` calls and `done()` (the position is
      then at its end) -/
  append : Bytes → Nat → Bytes → List (List Rec) → Bytes

/-- the backend contract laspy relies on: points come back, whatever the chunking of the
    writing calls, whatever follows the compressed stream, for every prefix length -/
def CodecLaws (cd : Codec) : Prop :=
  ∀ (fmt extra start : Nat) (chunks : List (List Rec)) (rest : Bytes) (n : Nat),
    Gen.recLen fmt + extra < 2 ^ 16 →
    (∀ r ∈ chunks.flatten, r.length = Gen.recLen fmt + extra) →
    n ≤ chunks.flatten.length →
    cd.decompress (cd.vlrData fmt extra) (cd.compress (cd.vlrData fmt extra) start chunks ++ rest) n =
      (chunks.flatten.take n).flatten

/-- class `LasZipVlr`: what `vlr_factory` builds for these ids.  (A record with these ids in
    a caller's list is assumed to be of that class, as everything read from a file is.) -/
def isLasZip (v : Vlr) : Bool := classify v.userId v.recordId == some Known.lasZip

/-- `vlrs.pop(vlrs.index("LasZipVlr"))`, nothing when there is none -/
def popLasZip : List Vlr → List Vlr
  | [] => []
  | v :: vs => if isLasZip v then vs else v :: popLasZip vs

/-- `vlrs[vlrs.index("LasZipVlr")]` -/
def findLasZip : List Vlr → Option Vlr
  | [] => none
  | v :: vs => if isLasZip v then some v else findLasZip vs

/-- `LasZipVlr(record_data)` -/
def lasZipVlr (data : Bytes) : Vlr :=
  ⟨ascii "laszip encoded", 22204, ascii "http://laszip.org", data⟩

/-- record data of the backend's LasZip record for a header: point format id and the number
    of bytes of the record beyond the format's standard size -/
def lzOf (cd : Codec) (h : Hdr) : Bytes := cd.vlrData (fmtOf h) (h.recLen - Gen.recLen (fmtOf h))

/-- the writer's header copy once the point writer has added its record -/
def compHdr (cd : Codec) (h : Hdr) : Hdr :=
  { h with vlrs := popLasZip h.vlrs ++ [lasZipVlr (lzOf cd h)],
           fmtByte := Gen.Compression.uncompressed_id_to_compressed (fmtOf h) }

structure CW (F : Type) where
  hdr : Hdr
  stats : Stats F
  /-- the point writer's LasZip record data -/
  lz : Bytes
  /-- header and VLRs as first written -/
  head : Bytes
  /-- the `compress_many` calls so far -/
  chunks : List (List Rec)
  /-- the EVLR block -/
  tail : Bytes
  done : Bool
  evlrStart : Nat
  nEvlrs : Nat
  offset : Nat

/-- the destination's content: header, compressed stream (once the compressor is done), EVLRs -/
def body {F} (cd : Codec) (s : CW F) : Bytes := cd.compress s.lz s.head.length s.chunks

/-- `LasWriter.__init__` with `do_compress=True` on an empty destination -/
def cwInit {F} (cd : Codec) (o : FOps F) (h : Hdr) : Except WErr (CW F) :=
  match Compat.writerInit (h.vMinor, fmtOf h) with
  | .error _ => .error .incompatible
  | .ok _ =>
    let hC := compHdr cd h
    match encodeHdr (initialHdr o hC) false 0 with
    | .error e => .error (.header e)
    | .ok enc => .ok { hdr := hC, stats := resetStats o, lz := lzOf cd h, head := enc, chunks := [], tail := [], done := false,
                       evlrStart := 0, nEvlrs := 0, offset := enc.length }

/-- `LasWriter.write_points` -/
def cwPoints {F} (o : FOps F) (s : CW F) (c : Chunk) : Except WErr (CW F) :=
  if c.recs.isEmpty then .ok s
  else if s.done then .error .done
  else if c.fmt ≠ fmtOf s.hdr ∨ c.recLen ≠ s.hdr.recLen then .error .format
  else if maxPointCount s.hdr.vMinor - s.stats.count < c.recs.length then .error .capacity
  else .ok { s with stats := grow o (fmtOf s.hdr) s.stats c.recs, chunks := s.chunks ++ [c.recs] }

/-- `LasWriter.write_evlrs`: the compressor is finished first, the EVLRs start where it stopped -/
def cwEvlrs {F} (cd : Codec) (s : CW F) (evlrs : List Vlr) : Except WErr (CW F) :=
  if s.hdr.vMinor < 4 then .error .evlrVersion
  else if evlrs.isEmpty then .ok s
  else match encodeVlrs true evlrs with
    | .error _ => .error .vlr
    | .ok bs => .ok { s with done := true, nEvlrs := evlrs.length,
                             evlrStart := s.head.length + (body cd s).length, tail := bs }

/-- `LasWriter.close` -/
def cwClose {F} (cd : Codec) (o : FOps F) (s : CW F) : Except WErr Bytes :=
  match encodeHdr (withStats o s.hdr s.stats s.evlrStart s.nEvlrs) true s.offset with
  | .error e => .error (.header e)
  | .ok enc => .ok (overwrite (s.head ++ body cd s ++ s.tail) enc)

def cwStep {F} (cd : Codec) (o : FOps F) (s : CW F) : WOp → Except WErr (CW F)
  | .points c => cwPoints o s c
  | .evlrs l => cwEvlrs cd s l

def cwRun {F} (cd : Codec) (o : FOps F) (s : CW F) : List WOp → Except WErr (CW F)
  | [] => .ok s
  | op :: ops => match cwStep cd o s op with
    | .ok s' => cwRun cd o s' ops
    | .error e => .error e

/-- a whole compressed session: the destination's content after `close` -/
def sessionC {F} (cd : Codec) (o : FOps F) (h : Hdr) (ops : List WOp) : Except WErr Bytes :=
  match cwInit cd o h with
  | .error e => .error e
  | .ok s => match cwRun cd o s ops with
    | .error e => .error e
    | .ok s' => cwClose cd o s'

/-! ### reading -/

inductive CRErr
  | read (e : RErr)
  | noLasZip          -- compressed, but no LasZip record to start a decompressor with
  | decompress        -- the backend delivered fewer bytes than asked
deriving DecidableEq, Repr

/-- `laspy.read` on a seekable source with a LAZ backend available -/
def readFileC (cd : Codec) (file : Bytes) : Except CRErr ReadResult :=
  match decodeHdr file with
  | .error e => .error (.read (.header e))
  | .ok h =>
    if ¬ Gen.Compression.is_point_format_compressed h.fmtByte then
      match readBody h file with
      | .ok r => .ok r
      | .error e => .error (.read e)
    else
      let fmt := Gen.Compression.compressed_id_to_uncompressed h.fmtByte
      if ¬ Gen.formatIds.contains fmt then .error (.read .format)
      else if h.recLen < Gen.recLen fmt then .error (.read .pointSize)
      else if h.count = 0 then
        .ok { hdr := { h with vlrs := popLasZip h.vlrs }, records := [], evlrs := readEvlrs h file }
      else match findLasZip h.vlrs with
        | none => .error .noLasZip
        | some v =>
          let data := cd.decompress v.payload (file.drop (fileOffset file)) h.count
          if data.length ≠ h.count * h.recLen then .error .decompress
          else .ok { hdr := { h with vlrs := popLasZip h.vlrs }, records := splitRecs h.recLen h.count data,
                     evlrs := readEvlrs h file }

/-! ### appending to a compressed file (laspy/lasappender.py with `LazrsAppender`) -/

open LasModel.Appender in
structure AC (F : Type) where
  hdr : Hdr
  stats : Stats F
  lz : Bytes
  file : Bytes
  offset : Nat
  chunks : List (List Rec)
  evlrs : List Vlr

open LasModel.Appender in
/-- `LasAppender.__init__` on a compressed file: the header is read (which leaves the destination at the point offset),
    the backend's appender is created there with the file's LasZip record, the EVLRs are remembered.  (The assertion
    that the appender left the position before the EVLRs depends on the backend and is not modelled.) -/
def openAppendC {F} (o : FOps F) (file : Bytes) : Except AErr (AC F) :=
  match decodeHdr file with
  | .error e => .error (.header e)
  | .ok h =>
    if ¬ Gen.formatIds.contains (fmtOf h) then .error .pointFormat
    else if h.recLen < Gen.recLen (fmtOf h) then .error .pointFormat
    else match findLasZip h.vlrs with
      | none => .error .pointFormat
      | some v =>
        let evlrs := if h.vMinor ≥ 4 ∧ h.nEvlrs > 0 then (decodeVlrs true h.nEvlrs (file.drop h.evlrStart)).1 else []
        .ok { hdr := h, stats := statsOfHdr o h, lz := v.payload, file := file, offset := fileOffset file, chunks := [],
              evlrs := evlrs }

open LasModel.Appender in
/-- `LasAppender.append_points` -/
def appendPointsC {F} (o : FOps F) (s : AC F) (c : Chunk) : Except AErr (AC F) :=
  if c.fmt ≠ fmtOf s.hdr ∨ c.recLen ≠ s.hdr.recLen then .error .format
  else if maxPointCount s.hdr.vMinor - s.stats.count < c.recs.length then .error .capacity
  else if c.recs.isEmpty then .ok s
  else .ok { s with stats := grow o (fmtOf s.hdr) s.stats c.recs, chunks := s.chunks ++ [c.recs] }

open LasModel.Appender in
/-- `LasAppender.close`: the backend's `done()`, the EVLRs where it stopped, the header in place -/
def closeAppendC {F} (cd : Codec) (o : FOps F) (s : AC F) : Except AErr Bytes :=
  match encodeVlrs true s.evlrs with
  | .error _ => .error .vlr
  | .ok eb =>
    let body := cd.append s.lz s.offset (s.file.drop s.offset) s.chunks
    let store1 := writeAt s.file s.offset body
    let hasEv := s.hdr.vMinor ≥ 4 ∧ ¬ s.evlrs.isEmpty
    let store2 := if hasEv then writeAt store1 (s.offset + body.length) eb else store1
    let es := if hasEv then s.offset + body.length else s.hdr.evlrStart
    match encodeHdr (withStats o s.hdr s.stats es s.hdr.nEvlrs) true s.offset with
    | .error e => .error (.rewrite e)
    | .ok enc => .ok (writeAt store2 0 enc)

open LasModel.Appender in
def appendSessionC {F} (cd : Codec) (o : FOps F) (file : Bytes) (chunks : List Chunk) : Except AErr Bytes :=
  match openAppendC o file with
  | .error e => .error e
  | .ok s =>
    let rec go (s : AC F) : List Chunk → Except AErr (AC F)
      | [] => .ok s
      | c :: cs => match appendPointsC o s c with
        | .error e => .error e
        | .ok s' => go s' cs
    match go s chunks with
    | .error e => .error e
    | .ok s' => closeAppendC cd o s'

/-! ### the backend double of the harness, written out -/

/-- "STUBLAZ1" -/
def stubMagic : Bytes := [83, 84, 85, 66, 76, 65, 90, 49]

def xorKey (c i : Nat) : UInt8 := UInt8.ofNat (((i % c) * 31 + 7) % 256)

/-- position-keyed involution; the key restarts at every chunk of `c` bytes -/
def xorFrom (c : Nat) : Nat → Bytes → Bytes
  | _, [] => []
  | i, b :: bs => (b ^^^ xorKey c i) :: xorFrom c (i + 1) bs

def stubItem (p : Bytes) : Nat := leNat ((p.drop 15).take 2)
def stubChunkSize (p : Bytes) : Nat := leNat ((p.drop 11).take 4)

/-- chunk table entries for `len` bytes of points: full chunks then the remainder -/
def stubTable (item cs : Nat) : Nat → Nat → List (Nat × Nat)
  | 0, _ => []
  | fuel + 1, len =>
    if len = 0 then []
    else if len ≥ cs * item then (cs, cs * item) :: stubTable item cs fuel (len - cs * item)
    else [(len / item, len)]

def stubCodec (cs : Nat) : Codec where
  vlrData fmt extra :=
    stubMagic ++ leBytes 1 fmt ++ leBytes 2 extra ++ leBytes 4 cs ++ leBytes 2 (Gen.recLen fmt + extra) ++ [0]
  compress p start chunks :=
    let data := chunks.flatten.flatten
    let item := stubItem p
    let c := stubChunkSize p
    let table := stubTable item c (data.length + 1) data.length
    leBytes 8 (start + 8 + data.length) ++ xorFrom (c * item) 0 data ++
      leBytes 4 0 ++ leBytes 4 table.length ++ table.flatMap fun e => leBytes 8 e.1 ++ leBytes 8 e.2
  decompress p bytes n :=
    xorFrom (stubChunkSize p * stubItem p) 0 ((bytes.drop 8).take (n * stubItem p))
  append p start existing more :=
    -- the appender re-opens the last (possibly partial) chunk: the result is the stream of all the points
    let item := stubItem p
    let c := stubChunkSize p
    let nbytes := leNat (existing.take 8) - start - 8
    let old := xorFrom (c * item) 0 ((existing.drop 8).take nbytes)
    let data := old ++ more.flatten.flatten
    let table := stubTable item c (data.length + 1) data.length
    leBytes 8 (start + 8 + data.length) ++ xorFrom (c * item) 0 data ++
      leBytes 4 0 ++ leBytes 4 table.length ++ table.flatMap fun e => leBytes 8 e.1 ++ leBytes 8 e.2

end LasModel.CompressIO
