/-
VLR / EVLR framing (laspy/vlrs/vlrlist.py) and the known record types (laspy/vlrs/known.py).

A record's content is modelled by the *normal form* of its payload: `norm k p` is
`serialise (parse p)` at byte level (`none` when `parse` raises, in which case `vlr_factory`
keeps the raw record).  "Re-serialises to a payload that parses to the same content" is then
`norm k q = some q` for `q = norm k p`.
-/
import LasModel.Model.Strings
import LasModel.Gen.Tables
namespace LasModel.Vlr
open LasModel.Bytes LasModel.Strings

structure Vlr where
  userId : Bytes
  recordId : Nat
  description : Bytes
  payload : Bytes
deriving DecidableEq, Repr

inductive Err | tooLong | other
deriving DecidableEq, Repr

def USER_ID_LEN := Gen.VLR_USER_ID_LEN
def DESCRIPTION_LEN := Gen.VLR_DESCRIPTION_LEN

/-- width of the payload-length field -/
def lenWidth (ext : Bool) : Nat := if ext then 8 else 2
def headerLen (ext : Bool) : Nat := Gen.VLR_RESERVED_LEN + USER_ID_LEN + 2 + lenWidth ext + DESCRIPTION_LEN

/-- one record as `VLRList.write_to` emits it; an over-long VLR payload is refused -/
def encodeVlr (ext : Bool) (v : Vlr) : Except Err Bytes :=
  if !ext && v.payload.length > 65535 then .error .tooLong
  else .ok (List.replicate Gen.VLR_RESERVED_LEN 0 ++ writeString v.userId USER_ID_LEN ++
    leBytes 2 v.recordId ++ leBytes (lenWidth ext) v.payload.length ++
    writeString v.description DESCRIPTION_LEN ++ v.payload)

def encodeVlrs (ext : Bool) : List Vlr → Except Err Bytes
  | [] => .ok []
  | v :: vs => do
    let a ← encodeVlr ext v
    let b ← encodeVlrs ext vs
    return a ++ b

/-! ### known record types -/

inductive Known
  | classLookup | extraBytes | waveform | geoKeys | geoDoubles | geoAscii | wktMath | wktCs | lasZip
deriving DecidableEq, Repr

def ascii (s : String) : Bytes := s.toUTF8.toList

def classify (userId : Bytes) (recordId : Nat) : Option Known :=
  if userId = ascii "LASF_Spec" then
    if recordId = 0 then some .classLookup
    else if recordId = 4 then some .extraBytes
    else if 100 ≤ recordId ∧ recordId < 356 then some .waveform
    else none
  else if userId = ascii "LASF_Projection" then
    if recordId = 34735 then some .geoKeys
    else if recordId = 34736 then some .geoDoubles
    else if recordId = 34737 then some .geoAscii
    else if recordId = 2111 then some .wktMath
    else if recordId = 2112 then some .wktCs
    else none
  else if userId = ascii "laszip encoded" ∧ recordId = 22204 then some .lasZip
  else none

def isAscii (bs : Bytes) : Bool := bs.all (· < 128)

/-- `rstrip("\0")` -/
def rstrip0 (bs : Bytes) : Bytes := (bs.reverse.dropWhile (· == 0)).reverse

def chunks16 : Nat → Bytes → List Bytes
  | 0, _ => []
  | n + 1, bs => bs.take 16 :: chunks16 n (bs.drop 16)

/-- dict insertion: a repeated class id replaces the name but keeps the first position -/
def dictInsert (d : List (UInt8 × Bytes)) (k : UInt8) (v : Bytes) : List (UInt8 × Bytes) :=
  if d.any (·.1 == k) then d.map (fun e => if e.1 == k then (k, v) else e) else d ++ [(k, v)]

/-- classification lookup: 16-byte entries (class id, 15-byte name); the name is cut at the
    first NUL and must decode -/
def normClassLookup (p : Bytes) : Option Bytes :=
  if p.length % 16 ≠ 0 then none
  else
    let entries := (chunks16 (p.length / 16) p).map fun e => (e.headD 0, cutNul (e.drop 1))
    if entries.all (fun e => isAscii e.2) then
      let d := entries.foldl (fun d e => dictInsert d e.1 e.2) []
      some (d.flatMap fun e => e.1 :: writeString e.2 15)
    else none

def norm : Known → Bytes → Option Bytes
  | .classLookup, p => normClassLookup p
  | .extraBytes, p => if p.length % Gen.ebStructSize = 0 then some p else none
  | .waveform, p => if p.length ≥ 26 then some (p.take 26) else none
  | .geoKeys, p =>
    if p.length ≥ 8 then
      let n := (p.length - 8) / 8
      some (p.take 6 ++ leBytes 2 n ++ (p.drop 8).take (8 * n))
    else none
  | .geoDoubles, p => if p.length % 8 = 0 then some p else none
  | .geoAscii, p => if isAscii p then some p else none
  | .wktMath, p => if isAscii p then some (rstrip0 p ++ [0]) else none
  | .wktCs, p => if isAscii p then some (rstrip0 p ++ [0]) else none
  | .lasZip, p => some p

/-- `vlr_factory`: parse when the ids name a known type, keep the raw record when parsing
    fails or the type is unknown; what is kept is what will be written again -/
def factory (v : Vlr) : Vlr :=
  match classify v.userId v.recordId with
  | some k => match norm k v.payload with
    | some q => { v with payload := q }
    | none => v
  | none => v

/-- one record as `VLRList.read_from` reads it (lenient reads), before `vlr_factory` -/
def decodeRaw (ext : Bool) (bs : Bytes) : Vlr × Bytes :=
  let (_, bs) := readN Gen.VLR_RESERVED_LEN bs
  let (uid, bs) := readString USER_ID_LEN bs
  let (rid, bs) := readLE 2 bs
  let (len, bs) := readLE (lenWidth ext) bs
  let (desc, bs) := readString DESCRIPTION_LEN bs
  let (payload, bs) := readN len bs
  (⟨uid, rid, desc, payload⟩, bs)

def decodeVlrs (ext : Bool) : Nat → Bytes → List Vlr × Bytes
  | 0, bs => ([], bs)
  | n + 1, bs =>
    let (v, bs) := decodeRaw ext bs
    let (vs, bs) := decodeVlrs ext n bs
    (factory v :: vs, bs)

/-- a record that the file format can carry verbatim -/
def Vlr.WF (ext : Bool) (v : Vlr) : Prop :=
  NulFree v.userId ∧ v.userId.length ≤ USER_ID_LEN ∧ NulFree v.description ∧
  v.description.length ≤ DESCRIPTION_LEN ∧ v.recordId < 65536 ∧
  v.payload.length < 256 ^ lenWidth ext

end LasModel.Vlr
