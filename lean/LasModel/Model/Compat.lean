/-
Version / point-format decisions of the construction, setter, create, convert and writer API
(laspy/header.py, laspy/lib.py, laspy/point/dims.py), over the generated tables and the
generated translation of `preferred_file_version_for_point_format`.
Versions are `1.minor`; only the minor number is modelled.
-/
import LasModel.Gen.Tables
import LasModel.Gen.Funs
namespace LasModel.Compat

inductive ApiErr | formatNotSupported | versionNotSupported | incompatible
deriving DecidableEq, Repr

def formatsOf (minor : Nat) : Option (List Nat) := Gen.versionFormats.lookup minor

/-- `dims.is_point_fmt_compatible_with_version` (KeyError → FileVersionNotSupported) -/
def isCompatible (fmt minor : Nat) : Except ApiErr Bool :=
  match formatsOf minor with
  | some l => .ok (l.contains fmt)
  | none => .error .versionNotSupported

/-- `dims.raise_if_version_not_compatible_with_fmt` -/
def requireCompatible (fmt minor : Nat) : Except ApiErr Unit := do
  if (← isCompatible fmt minor) then pure () else throw .incompatible

def compatible (minor fmt : Nat) : Prop := ∃ l, formatsOf minor = some l ∧ fmt ∈ l

/-- `PointFormat(id)`: unknown ids raise -/
def mkFormat (fmt : Nat) : Except ApiErr Nat :=
  if Gen.formatIds.contains fmt then .ok fmt else .error .formatNotSupported

def minorOfString (s : String) : Option Nat :=
  if s = "1.1" then some 1 else if s = "1.2" then some 2 else if s = "1.3" then some 3
  else if s = "1.4" then some 4 else none

/-- generated `preferred_file_version_for_point_format`, as a minor number -/
def preferred (fmt : Nat) : Except ApiErr Nat :=
  match Gen.Dims.preferred_file_version_for_point_format fmt with
  | .ok s => match minorOfString s with
    | some m => .ok m
    | none => .error .versionNotSupported
  | .error _ => .error .formatNotSupported

/-- every API path ends with the compatibility check before the pair is stored -/
def finish (v f : Nat) : Except ApiErr (Nat × Nat) := do
  requireCompatible f v
  return (v, f)

def pickPair (version fmt : Option Nat) : Except ApiErr (Nat × Nat) :=
  match version, fmt with
  | none, none => pure (Gen.defaultVersionMinor, Gen.defaultPointFormat)
  | some v, none =>
    match Gen.minFormatForVersion.lookup v with
    | some f => pure (v, f)
    | none => throw .versionNotSupported
  | none, some f => do pure (← preferred f, f)
  | some v, some f => pure (v, f)

/-- `LasHeader(version=…, point_format=…)` and `laspy.create` -/
def optFormat : Option Nat → Except ApiErr (Option Nat)
  | some f => (mkFormat f).map some
  | none => pure none

def mkHeader (version fmt : Option Nat) : Except ApiErr (Nat × Nat) := do
  let fmt ← optFormat fmt
  let p ← pickPair version fmt
  finish p.1 p.2

/-- `header.version = v` -/
def setVersion (cur : Nat × Nat) (v : Nat) : Except ApiErr (Nat × Nat) := finish v cur.2

/-- `header.point_format = PointFormat(f)` -/
def setFormat (cur : Nat × Nat) (f : Nat) : Except ApiErr (Nat × Nat) := do
  let f ← mkFormat f
  finish cur.1 f

/-- `header.set_version_and_point_format(v, PointFormat(f))` (the setter re-checks) -/
def setBoth (v f : Nat) : Except ApiErr (Nat × Nat) := do
  let f ← mkFormat f
  requireCompatible f v
  finish v f

def convertVersion (curMinor fmt : Nat) (request : Option Nat) : Except ApiErr Nat :=
  match request with
  | none => do pure (max curMinor (← preferred fmt))
  | some v => do requireCompatible fmt v; pure v

/-- version chosen by `laspy.convert`, then `set_version_and_point_format` -/
def convert (curMinor fmt : Nat) (request : Option Nat) : Except ApiErr (Nat × Nat) := do
  let v ← convertVersion curMinor fmt request
  setBoth v fmt

/-- `LasWriter.__init__` refuses an incompatible pair -/
def writerInit (cur : Nat × Nat) : Except ApiErr (Nat × Nat) := finish cur.1 cur.2

end LasModel.Compat
