/-
`LasAppender` on uncompressed files (laspy/lasappender.py): open (lenient header decoding,
position after the last point, EVLRs remembered), `append_points`, close (EVLRs re-emitted
after the new points, header rewritten in place).
-/
import LasModel.Model.FileIO
namespace LasModel.Appender
open LasModel.Bytes LasModel.Header LasModel.Vlr LasModel.FileIO

inductive AErr
  | header (e : Header.Err) | format | capacity | evlrPosition | vlr | rewrite (e : Header.Err) | pointFormat
deriving DecidableEq, Repr

structure AState (F : Type) where
  hdr : Hdr
  stats : Stats F
  store : Bytes
  pos : Nat
  evlrs : List Vlr
  offset : Nat

/-- BytesIO / file `write` at a position: overwrite, extend (zero fill past the end) -/
def writeAt (store : Bytes) (pos : Nat) (data : Bytes) : Bytes :=
  let padded := if store.length < pos then store ++ List.replicate (pos - store.length) 0 else store
  padded.take pos ++ data ++ padded.drop (pos + data.length)

/-- statistics carried by a decoded header; an empty file starts from reset extrema -/
def statsOfHdr {F} (o : FOps F) (h : Hdr) : Stats F :=
  if h.count = 0 then { resetStats o with byReturn := h.byReturn }
  else
    { count := h.count, byReturn := h.byReturn,
      maxs := (List.range 3).map fun a => o.ofBits (h.doubles.getD (6 + 2 * a) 0),
      mins := (List.range 3).map fun a => o.ofBits (h.doubles.getD (7 + 2 * a) 0) }

/-- `LasAppender.__init__` -/
def openAppend {F} (o : FOps F) (file : Bytes) : Except AErr (AState F) :=
  match decodeHdr file with
  | .error e => .error (.header e)
  | .ok h =>
    if ¬ Gen.formatIds.contains (fmtOf h) then .error .pointFormat
    else if h.recLen < Gen.recLen (fmtOf h) then .error .pointFormat
    else
      let offset := fileOffset file
      let pos := offset + h.count * h.recLen
      if h.vMinor ≥ 4 ∧ h.nEvlrs > 0 then
        if pos > h.evlrStart then .error .evlrPosition
        else .ok { hdr := h, stats := statsOfHdr o h, store := file, pos := pos,
                   evlrs := (decodeVlrs true h.nEvlrs (file.drop h.evlrStart)).1, offset := offset }
      else .ok { hdr := h, stats := statsOfHdr o h, store := file, pos := pos, evlrs := [], offset := offset }

/-- `LasAppender.append_points` -/
def appendPoints {F} (o : FOps F) (s : AState F) (c : Chunk) : Except AErr (AState F) :=
  if c.fmt ≠ fmtOf s.hdr ∨ c.recLen ≠ s.hdr.recLen then .error .format
  else if maxPointCount s.hdr.vMinor - s.stats.count < c.recs.length then .error .capacity
  else if c.recs.isEmpty then .ok s
  else
    let data := c.recs.flatten
    .ok { s with stats := grow o (fmtOf s.hdr) s.stats c.recs, store := writeAt s.store s.pos data,
                 pos := s.pos + data.length }

/-- `LasAppender.close` -/
def closeAppend {F} (o : FOps F) (s : AState F) : Except AErr Bytes :=
  match encodeVlrs true s.evlrs with
  | .error _ => .error .vlr
  | .ok eb =>
    let hasEv := s.hdr.vMinor ≥ 4 ∧ ¬ s.evlrs.isEmpty
    let store1 := if hasEv then writeAt s.store s.pos eb else s.store
    let es := if hasEv then s.pos else s.hdr.evlrStart
    match encodeHdr (withStats o s.hdr s.stats es s.hdr.nEvlrs) true s.offset with
    | .error e => .error (.rewrite e)
    | .ok enc => .ok (writeAt store1 0 enc)

def appendAll {F} (o : FOps F) (s : AState F) : List Chunk → Except AErr (AState F)
  | [] => .ok s
  | c :: cs => match appendPoints o s c with
    | .error e => .error e
    | .ok s' => appendAll o s' cs

def appendSession {F} (o : FOps F) (file : Bytes) (chunks : List Chunk) : Except AErr Bytes :=
  match openAppend o file with
  | .error e => .error e
  | .ok s =>
    match appendAll o s chunks with
    | .error e => .error e
    | .ok s' => closeAppend o s'

end LasModel.Appender
