/-
The point cursor of `LasReader` (laspy/lasreader.py): `read_points`, `seek` (generated from
the AST), chunk iteration, `read`, and the byte-level `UncompressedPointReader`.
-/
import LasModel.Gen.Funs
import LasModel.Model.Bytes
namespace LasModel.Reader
open LasModel.Bytes

structure RState where
  count : Nat        -- header.point_count
  cursor : Int       -- points_read
deriving DecidableEq, Repr

inductive ROp
  | read (n : Int)                 -- read_points(n)
  | seek (pos whence : Int)        -- seek(pos, whence)
  | next (k : Int)                 -- next(chunk_iterator(k))
  | readAll                        -- read()
deriving DecidableEq, Repr

inductive ROut
  | slice (start len : Nat)        -- the records [start, start+len) of the file's point array
  | cursor (c : Int)               -- value returned by seek
  | stop                           -- StopIteration
  | indexError
  | valueError
deriving DecidableEq, Repr

/-- `LasReader.read_points(n)`: (new state, start, length) -/
def readPoints (s : RState) (n : Int) : RState × Nat × Nat :=
  let left : Int := (s.count : Int) - s.cursor
  if left ≤ 0 then (s, s.cursor.toNat, 0)
  else
    let m : Int := if n < 0 then left else min n left
    ({ s with cursor := s.cursor + m }, s.cursor.toNat, m.toNat)

def step (s : RState) : ROp → RState × ROut
  | .read n => let (s', a, l) := readPoints s n; (s', .slice a l)
  | .readAll => let (s', a, l) := readPoints s (-1); (s', .slice a l)
  | .next k =>
    let (s', a, l) := readPoints s k
    if l = 0 then (s', .stop) else (s', .slice a l)
  | .seek pos whence =>
    match Gen.Reader.seek s.count s.cursor pos whence with
    | .ok c => ({ s with cursor := c }, .cursor c)
    | .error e => (s, if e = "ValueError" then .valueError else .indexError)

def run (s : RState) : List ROp → RState × List ROut
  | [] => (s, [])
  | op :: ops =>
    let (s1, o) := step s op
    let (s2, os) := run s1 ops
    (s2, o :: os)

/-! ### the specification: a cursor over the file's point sequence -/

structure Spec where
  count : Nat
  cursor : Nat
deriving DecidableEq, Repr

def specRead (s : Spec) (n : Int) : Spec × Nat × Nat :=
  let rest := s.count - s.cursor
  let m := if n < 0 then rest else min n.toNat rest
  ({ s with cursor := s.cursor + m }, s.cursor, m)

def specStep (s : Spec) : ROp → Spec × ROut
  | .read n => let (s', a, l) := specRead s n; (s', .slice a l)
  | .readAll => let (s', a, l) := specRead s (-1); (s', .slice a l)
  | .next k =>
    let (s', a, l) := specRead s k
    if l = 0 then (s', .stop) else (s', .slice a l)
  | .seek pos whence =>
    if whence = 0 ∨ whence = 1 ∨ whence = 2 then
      let target : Int := if whence = 0 then pos else if whence = 1 then (s.cursor : Int) + pos else (s.count : Int) + pos
      if 0 ≤ target ∧ target < s.count then ({ s with cursor := target.toNat }, .cursor target)
      else (s, .indexError)
    else (s, .valueError)

def specRun (s : Spec) : List ROp → Spec × List ROut
  | [] => (s, [])
  | op :: ops =>
    let (s1, o) := specStep s op
    let (s2, os) := specRun s1 ops
    (s2, o :: os)

/-! ### byte level: `UncompressedPointReader` on the source stream -/

/-- `read_n_points(n)` at stream position `pos`: the bytes returned and the new position -/
def readBytes (file : Bytes) (pos size n : Nat) : Bytes × Nat :=
  let data := (file.drop pos).take (n * size)
  (data, pos + data.length)

/-- `seek(point_index)`: the new stream position -/
def seekPos (offset size idx : Nat) : Nat := offset + idx * size

end LasModel.Reader
