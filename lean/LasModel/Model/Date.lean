/-
Creation date of the header: written as (`timetuple().tm_yday`, `year`), read as
`date(year, 1, 1) + timedelta(day_of_year - 1)` (ValueError → None).
Proleptic Gregorian calendar, years 1..9999 as `datetime.date`.
-/
namespace LasModel.Date

def isLeap (y : Nat) : Bool := (y % 4 == 0 && y % 100 != 0) || y % 400 == 0
def daysInYear (y : Nat) : Nat := if isLeap y then 366 else 365

def daysInMonth (leap : Bool) : Nat → Nat
  | 1 => 31 | 2 => if leap then 29 else 28 | 3 => 31 | 4 => 30 | 5 => 31 | 6 => 30
  | 7 => 31 | 8 => 31 | 9 => 30 | 10 => 31 | 11 => 30 | 12 => 31 | _ => 0

/-- days before the first of month `m` -/
def cum (leap : Bool) : Nat → Nat
  | 1 => 0 | 2 => 31
  | m => (if leap then 1 else 0) +
    match m with
    | 3 => 59 | 4 => 90 | 5 => 120 | 6 => 151 | 7 => 181 | 8 => 212 | 9 => 243
    | 10 => 273 | 11 => 304 | 12 => 334 | _ => 365

structure Civil where
  y : Nat
  m : Nat
  d : Nat
deriving DecidableEq, Repr

def Civil.Valid (c : Civil) : Prop :=
  1 ≤ c.y ∧ c.y ≤ 9999 ∧ 1 ≤ c.m ∧ c.m ≤ 12 ∧ 1 ≤ c.d ∧ c.d ≤ daysInMonth (isLeap c.y) c.m

/-- `tm_yday` -/
def dayOfYear (c : Civil) : Nat := cum (isLeap c.y) c.m + c.d

/-- month/day of the `doy`-th day (1-based) of a year -/
def monthDay (leap : Bool) (doy : Nat) : Nat × Nat :=
  if doy ≤ cum leap 2 then (1, doy)
  else if doy ≤ cum leap 3 then (2, doy - cum leap 2)
  else if doy ≤ cum leap 4 then (3, doy - cum leap 3)
  else if doy ≤ cum leap 5 then (4, doy - cum leap 4)
  else if doy ≤ cum leap 6 then (5, doy - cum leap 5)
  else if doy ≤ cum leap 7 then (6, doy - cum leap 6)
  else if doy ≤ cum leap 8 then (7, doy - cum leap 7)
  else if doy ≤ cum leap 9 then (8, doy - cum leap 8)
  else if doy ≤ cum leap 10 then (9, doy - cum leap 9)
  else if doy ≤ cum leap 11 then (10, doy - cum leap 10)
  else if doy ≤ cum leap 12 then (11, doy - cum leap 11)
  else (12, doy - cum leap 12)

/-- days roll over into following years (`timedelta` arithmetic) -/
def roll : Nat → Nat → Nat → Nat × Nat
  | 0, y, doy => (y, doy)
  | fuel + 1, y, doy => if doy > daysInYear y then roll fuel (y + 1) (doy - daysInYear y) else (y, doy)

inductive ReadDate
  | date (c : Civil)
  | none            -- ValueError: creation_date = None
  | overflow        -- OverflowError escapes `read_from`
deriving DecidableEq, Repr

/-- `date(year, 1, 1) + timedelta(doy - 1)` with the exception behaviour of CPython -/
def fromYearDay (year doy : Nat) : ReadDate :=
  if year < 1 ∨ year > 9999 then .none
  else if doy = 0 then
    if year = 1 then .overflow else .date ⟨year - 1, 12, 31⟩
  else
    let (y, d) := roll 200 year doy
    if y > 9999 then .overflow
    else let (m, dd) := monthDay (isLeap y) d; .date ⟨y, m, dd⟩

theorem roll_within (fuel y doy : Nat) (h : doy ≤ daysInYear y) : roll fuel y doy = (y, doy) := by
  cases fuel with
  | zero => rfl
  | succ f => simp [roll]; omega

theorem dayOfYear_le (c : Civil) (h : c.Valid) : 1 ≤ dayOfYear c ∧ dayOfYear c ≤ daysInYear c.y := by
  obtain ⟨_, _, hm1, hm12, hd1, hd⟩ := h
  unfold dayOfYear daysInYear
  obtain ⟨y, m, d⟩ := c
  simp only at *
  cases hl : isLeap y <;> simp only [hl] at hd ⊢ <;>
  (have : m = 1 ∨ m = 2 ∨ m = 3 ∨ m = 4 ∨ m = 5 ∨ m = 6 ∨ m = 7 ∨ m = 8 ∨ m = 9 ∨ m = 10 ∨ m = 11 ∨ m = 12 := by omega
   rcases this with h | h | h | h | h | h | h | h | h | h | h | h <;> subst h <;>
   simp [cum, daysInMonth] at hd ⊢ <;> omega)

theorem monthDay_dayOfYear (leap : Bool) (m d : Nat) (hm1 : 1 ≤ m) (hm12 : m ≤ 12) (hd1 : 1 ≤ d)
    (hd : d ≤ daysInMonth leap m) : monthDay leap (cum leap m + d) = (m, d) := by
  have : m = 1 ∨ m = 2 ∨ m = 3 ∨ m = 4 ∨ m = 5 ∨ m = 6 ∨ m = 7 ∨ m = 8 ∨ m = 9 ∨ m = 10 ∨ m = 11 ∨ m = 12 := by omega
  cases leap <;>
  rcases this with h | h | h | h | h | h | h | h | h | h | h | h <;> subst h <;>
  simp only [cum, daysInMonth, monthDay, Bool.false_eq_true, if_false, if_true, Nat.zero_add, Nat.add_zero] at hd ⊢ <;>
  (repeat (first | rw [if_pos (by omega)] | rw [if_neg (by omega)])) <;>
  (refine Prod.ext ?_ ?_ <;> simp only [] <;> omega)

/-- every valid civil date 0001-01-01 … 9999-12-31 survives write + read -/
theorem fromYearDay_dayOfYear (c : Civil) (h : c.Valid) :
    fromYearDay c.y (dayOfYear c) = .date c := by
  have hb := dayOfYear_le c h
  obtain ⟨hy1, hy2, hm1, hm12, hd1, hd⟩ := h
  unfold fromYearDay
  have h1 : ¬ (c.y < 1 ∨ c.y > 9999) := by omega
  have h2 : ¬ dayOfYear c = 0 := by omega
  simp only [h1, h2, if_false]
  rw [roll_within _ _ _ hb.2]
  have h3 : ¬ c.y > 9999 := by omega
  simp only [h3, if_false]
  unfold dayOfYear
  rw [monthDay_dayOfYear _ _ _ hm1 hm12 hd1 hd]

example : fromYearDay 2024 60 = .date ⟨2024, 2, 29⟩ := by decide
example : fromYearDay 2023 366 = .date ⟨2024, 1, 1⟩ := by decide
example : fromYearDay 0 5 = .none := by decide

end LasModel.Date
