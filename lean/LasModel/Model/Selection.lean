/-
`DecompressionSelection` (laspy/_compression/selection.py): which fields of the layered point formats 6-10 a LAZ backend is
asked to decompress.  The flag values, the per-flag helper methods and the two translation tables (`to_lazrs`, `to_laszip`)
are generated from the source (`Gen.Selection`); this file says how the translation combines them (the loop of
`to_lazrs` / `to_laszip`, whose shape the translator checks) and what the backends call the fields.
-/
import LasModel.Gen.Funs

namespace LasModel.Selection
open Gen.Selection

def lookupS (m : List (String × String)) (n : String) : Option String := (m.find? (·.1 == n)).map (·.2)

/-- `to_lazrs` / `to_laszip`: start from the constant that is always requested, OR in the constant of every flag that is
    set (`mapping[v] if self.is_set(v) else 0`; a flag that is set and missing from the mapping is a `KeyError`) -/
def toBackend (map : List (String × String)) (always : String) (bk : String → Nat) (sel : Nat) : Option Nat :=
  flags.foldlM (fun acc p => if sel &&& p.2 ≠ 0 then (lookupS map p.1).map (fun c => acc ||| bk c) else some acc) (bk always)

/-- the fold that `toBackend` amounts to when every flag has an entry `nm name` -/
def orSel (bk : String → Nat) (nm : String → String) (sel : Nat) : List (String × Nat) → Nat → Nat
  | [], acc => acc
  | p :: fl, acc => orSel bk nm sel fl (if sel &&& p.2 ≠ 0 then acc ||| bk (nm p.1) else acc)

/-- what lazrs calls the field of a flag -/
def lazrsName (n : String) : String := "SELECTIVE_DECOMPRESS_" ++ n

/-- what the LASzip API calls the field of a flag (laszip_api.h) -/
def laszipName : String → String
  | "XY_RETURNS_CHANNEL" => "DECOMPRESS_SELECTIVE_CHANNEL_RETURNS_XY"
  | "POINT_SOURCE_ID" => "DECOMPRESS_SELECTIVE_POINT_SOURCE"
  | "ALL_EXTRA_BYTES" => "DECOMPRESS_SELECTIVE_EXTRA_BYTES"
  | n => "DECOMPRESS_SELECTIVE_" ++ n

/-- the constants of the backend double (`harness/stubs/lazrs.py`; the values LASzip uses) -/
def stubBk : String → Nat
  | "SELECTIVE_DECOMPRESS_XY_RETURNS_CHANNEL" => 0
  | "SELECTIVE_DECOMPRESS_Z" => 1
  | "SELECTIVE_DECOMPRESS_CLASSIFICATION" => 2
  | "SELECTIVE_DECOMPRESS_FLAGS" => 4
  | "SELECTIVE_DECOMPRESS_INTENSITY" => 8
  | "SELECTIVE_DECOMPRESS_SCAN_ANGLE" => 16
  | "SELECTIVE_DECOMPRESS_USER_DATA" => 32
  | "SELECTIVE_DECOMPRESS_POINT_SOURCE_ID" => 64
  | "SELECTIVE_DECOMPRESS_GPS_TIME" => 128
  | "SELECTIVE_DECOMPRESS_RGB" => 256
  | "SELECTIVE_DECOMPRESS_NIR" => 512
  | "SELECTIVE_DECOMPRESS_WAVEPACKET" => 1024
  | "SELECTIVE_DECOMPRESS_ALL_EXTRA_BYTES" => 2048
  | _ => 0

/-- the constants of laszip_api.h -/
def laszipBk : String → Nat
  | "DECOMPRESS_SELECTIVE_CHANNEL_RETURNS_XY" => 0
  | "DECOMPRESS_SELECTIVE_Z" => 1
  | "DECOMPRESS_SELECTIVE_CLASSIFICATION" => 2
  | "DECOMPRESS_SELECTIVE_FLAGS" => 4
  | "DECOMPRESS_SELECTIVE_INTENSITY" => 8
  | "DECOMPRESS_SELECTIVE_SCAN_ANGLE" => 16
  | "DECOMPRESS_SELECTIVE_USER_DATA" => 32
  | "DECOMPRESS_SELECTIVE_POINT_SOURCE" => 64
  | "DECOMPRESS_SELECTIVE_GPS_TIME" => 128
  | "DECOMPRESS_SELECTIVE_RGB" => 256
  | "DECOMPRESS_SELECTIVE_NIR" => 512
  | "DECOMPRESS_SELECTIVE_WAVEPACKET" => 1024
  | "DECOMPRESS_SELECTIVE_EXTRA_BYTES" => 4294901760
  | _ => 0

end LasModel.Selection
