/-
Point records as byte images over a field layout (name, offset, width, kind), plus the
packing of sub-fields into their byte.  Values are carried as raw unsigned patterns
(two's complement for signed fields, IEEE patterns for floats); `toSigned` gives the
signed reading.
-/
import LasModel.Model.Header
import LasModel.Model.SubField
namespace LasModel.Layout
open LasModel.Bytes LasModel.Header LasModel.SubField

abbrev Field := String × Nat × Nat × Nat

def widths (layout : List Field) : List Nat := layout.map (·.2.2.1)

/-- offsets are the running sums of the widths: the record has no padding -/
def Contiguous : Nat → List Field → Bool
  | _, [] => true
  | o, f :: fs => f.2.1 == o && Contiguous (o + f.2.2.1) fs

/-- encode one record: field values in layout order -/
def encodeRec (layout : List Field) (vals : List Nat) : Bytes :=
  encInts ((widths layout).zip vals)

def decodeRec (layout : List Field) (bs : Bytes) : List Nat × Bytes :=
  decInts (widths layout) bs

def toSigned (w : Nat) (n : Nat) : Int := if n < 256 ^ w / 2 then n else (n : Int) - ((256 ^ w : Nat) : Int)
def ofSigned (w : Nat) (i : Int) : Nat := (i % (256 ^ w : Nat)).toNat

/-- pack sub-field values (in table order) into one byte, as successive named assignments
    on a zeroed record do -/
def packByte (subs : List (String × Nat)) (vals : List Nat) : Nat :=
  (subs.zip vals).foldl (fun b sv => setBits sv.1.2 b sv.2) 0

def unpackByte (subs : List (String × Nat)) (b : Nat) : List Nat :=
  subs.map fun s => getBits s.2 b

end LasModel.Layout
