/-
C08 — VLRs and EVLRs are preserved verbatim and in order.
-/
import LasModel.Model.Vlr

namespace LasModel.Props.C08
open LasModel.Bytes LasModel.Strings LasModel.Vlr

/-- the widths come from the generated constants and add up to the 54 / 60 bytes of the
    specification -/
theorem C08_header_len : headerLen false = 54 ∧ headerLen true = 60 := by decide

theorem encodeVlr_ok (ext : Bool) (v : Vlr) (h : ext = true ∨ v.payload.length ≤ 65535) :
    encodeVlr ext v = .ok (List.replicate Gen.VLR_RESERVED_LEN 0 ++ writeString v.userId USER_ID_LEN ++
      leBytes 2 v.recordId ++ leBytes (lenWidth ext) v.payload.length ++
      writeString v.description DESCRIPTION_LEN ++ v.payload) := by
  unfold encodeVlr
  have : (!ext && decide (v.payload.length > 65535)) = false := by
    rcases h with h | h
    · simp [h]
    · simp; intro _; omega
  simp [this]

/-- one record: what is written is read back field by field, and the reader stops exactly at
    the end of the record -/
theorem C08_record (ext : Bool) (v : Vlr) (rest : Bytes) (hwf : v.WF ext)
    (h : ext = true ∨ v.payload.length ≤ 65535) :
    ∃ bs, encodeVlr ext v = .ok bs ∧ bs.length = headerLen ext + v.payload.length ∧
      decodeRaw ext (bs ++ rest) = (v, rest) := by
  obtain ⟨hu, hul, hd, hdl, hr, hp⟩ := hwf
  refine ⟨_, encodeVlr_ok ext v h, ?_, ?_⟩
  · have h1 := (readString_writeString v.userId USER_ID_LEN [] hu hul).1
    have h2 := (readString_writeString v.description DESCRIPTION_LEN [] hd hdl).1
    simp only [List.length_append, List.length_replicate, leBytes_length, h1, h2, headerLen]
    try omega
  · unfold decodeRaw
    simp only [List.append_assoc]
    have e1 : readN Gen.VLR_RESERVED_LEN (List.replicate Gen.VLR_RESERVED_LEN (0 : UInt8) ++
        (writeString v.userId USER_ID_LEN ++ (leBytes 2 v.recordId ++ (leBytes (lenWidth ext) v.payload.length ++
        (writeString v.description DESCRIPTION_LEN ++ (v.payload ++ rest)))))) = (List.replicate Gen.VLR_RESERVED_LEN 0, _) :=
      readN_append' _ _ _ (by simp)
    rw [e1]
    simp only
    rw [(readString_writeString v.userId USER_ID_LEN _ hu hul).2]
    simp only
    rw [readLE_append 2 v.recordId _ (by simpa using hr)]
    simp only
    rw [readLE_append (lenWidth ext) v.payload.length _ hp]
    simp only
    rw [(readString_writeString v.description DESCRIPTION_LEN _ hd hdl).2]
    simp only
    rw [readN_append]

/-- an over-long VLR payload is refused, never truncated (EVLRs take any size) -/
theorem C08_oversize (v : Vlr) (h : v.payload.length > 65535) :
    encodeVlr false v = .error .tooLong := by
  unfold encodeVlr
  simp [h]

theorem C08_oversize_list (vs : List Vlr) (h : ∃ v ∈ vs, v.payload.length > 65535) :
    encodeVlrs false vs = .error .tooLong := by
  induction vs with
  | nil => obtain ⟨v, hv, _⟩ := h; cases hv
  | cons a vs ih =>
    obtain ⟨v, hv, hl⟩ := h
    by_cases ha : a.payload.length > 65535
    · simp [encodeVlrs, C08_oversize a ha, bind, Except.bind]
    · have hv' : v ∈ vs := by
        rcases List.mem_cons.mp hv with h | h
        · subst h; exact absurd hl ha
        · exact h
      rw [encodeVlrs, encodeVlr_ok false a (Or.inr (by omega)), ih ⟨v, hv', hl⟩]
      rfl

/-- any list of well-formed records is read back in the same order with the same ids,
    descriptions and (for unknown or unparsable types: identical; for known types: normalised,
    see `C08_norm_idem`) payloads, and the reader consumes exactly the bytes written -/
theorem C08_framing (ext : Bool) (vs : List Vlr) (rest : Bytes)
    (hwf : ∀ v ∈ vs, v.WF ext ∧ (ext = true ∨ v.payload.length ≤ 65535)) :
    ∃ bs, encodeVlrs ext vs = .ok bs ∧
      bs.length = (vs.map fun v => headerLen ext + v.payload.length).sum ∧
      decodeVlrs ext vs.length (bs ++ rest) = (vs.map factory, rest) := by
  induction vs with
  | nil => exact ⟨[], rfl, rfl, rfl⟩
  | cons v vs ih =>
    obtain ⟨bs', he', hl', hd'⟩ := ih (fun x hx => hwf x (by simp [hx]))
    obtain ⟨hv, hsz⟩ := hwf v (by simp)
    obtain ⟨b, he, hl, hd⟩ := C08_record ext v (bs' ++ rest) hv hsz
    refine ⟨b ++ bs', ?_, ?_, ?_⟩
    · simp [encodeVlrs, he, he', bind, Except.bind, pure, Except.pure]
    · simp [hl, hl']
    · simp only [List.length_cons, decodeVlrs, List.append_assoc, hd, hd', List.map_cons]

/-! ### known record types -/

theorem rstrip0_append_zero (p : Bytes) : rstrip0 (rstrip0 p ++ [0]) = rstrip0 p := by
  unfold rstrip0
  simp only [List.reverse_append, List.reverse_cons, List.reverse_nil, List.nil_append,
    List.reverse_reverse, List.singleton_append]
  rw [List.dropWhile_cons]
  simp only [beq_self_eq_true, if_true]
  congr 1
  generalize p.reverse = l
  induction l with
  | nil => rfl
  | cons a l ih =>
    simp only [List.dropWhile_cons]
    split
    · exact ih
    · simp [List.dropWhile_cons, *]

theorem isAscii_rstrip0 (p : Bytes) (h : isAscii p = true) : isAscii (rstrip0 p ++ [0]) = true := by
  unfold isAscii at *
  rw [List.all_eq_true] at *
  intro x hx
  rcases List.mem_append.mp hx with hx | hx
  · apply h
    unfold rstrip0 at hx
    have := List.mem_reverse.mp hx
    exact List.mem_reverse.mp ((List.dropWhile_sublist _).mem this)
  · simp at hx; subst hx; decide

/-- for every known type except the classification lookup (see `…_partial` note below):
    re-serialising a parsed record gives a payload that parses and re-serialises to itself -/
theorem C08_norm_idem (k : Known) (hk : k ≠ .classLookup) (p q : Bytes) (h : norm k p = some q) :
    norm k q = some q := by
  cases k with
  | classLookup => exact absurd rfl hk
  | extraBytes | geoDoubles | geoAscii =>
    simp only [norm] at h ⊢
    split at h
    · injection h with h; subst h; simp [*]
    · cases h
  | lasZip => simp [norm] at h ⊢
  | waveform =>
    simp only [norm] at h ⊢
    split at h
    · injection h with h; subst h
      have : (p.take 26).length = 26 := by simp; omega
      simp [this, List.take_take]
    · cases h
  | geoKeys =>
    simp only [norm] at h ⊢
    split at h
    case isFalse => cases h
    case isTrue hp =>
      injection h with h; subst h
      have hn : 8 * ((p.length - 8) / 8) ≤ p.length - 8 := Nat.mul_div_le _ _
      generalize hA : p.take 6 = A
      generalize hB : leBytes 2 ((p.length - 8) / 8) = B
      generalize hC : (p.drop 8).take (8 * ((p.length - 8) / 8)) = C
      have lA : A.length = 6 := by rw [← hA]; simp; omega
      have lB : B.length = 2 := by rw [← hB]; simp
      have lC : C.length = 8 * ((p.length - 8) / 8) := by rw [← hC]; simp [List.length_take]; omega
      have hl : (A ++ B ++ C).length = 8 + 8 * ((p.length - 8) / 8) := by simp [lA, lB, lC]; omega
      have hdiv : (8 + 8 * ((p.length - 8) / 8) - 8) / 8 = (p.length - 8) / 8 := by
        rw [Nat.add_sub_cancel_left, Nat.mul_div_cancel_left _ (by decide : 0 < 8)]
      have h8 : 8 + 8 * ((p.length - 8) / 8) ≥ 8 := by omega
      rw [hl]
      simp only [h8, if_true, hdiv, hB]
      have e1 : (A ++ B ++ C).take 6 = A := by
        rw [List.append_assoc]; exact List.take_left' lA
      have e2 : (A ++ B ++ C).drop 8 = C := List.drop_left' (by simp [lA, lB])
      rw [e1, e2, ← lC, List.take_length]
  | wktMath | wktCs =>
    simp only [norm] at h ⊢
    split at h
    case isFalse => cases h
    case isTrue hp =>
      injection h with h; subst h
      simp [isAscii_rstrip0 p hp, rstrip0_append_zero]

/-- the types whose serialisation is the exact inverse of parsing keep the payload bytes -/
theorem C08_norm_identity (k : Known) (hk : k = .extraBytes ∨ k = .geoDoubles ∨ k = .geoAscii ∨ k = .lasZip)
    (p q : Bytes) (h : norm k p = some q) : q = p := by
  rcases hk with hk | hk | hk | hk <;> subst hk <;> simp only [norm] at h
  · split at h <;> simp_all
  · split at h <;> simp_all
  · split at h <;> simp_all
  · simp_all

/-- payloads laspy cannot parse, and records of unknown types, are kept unchanged -/
theorem C08_raw (v : Vlr) (h : classify v.userId v.recordId = none ∨
    ∃ k, classify v.userId v.recordId = some k ∧ norm k v.payload = none) : factory v = v := by
  unfold factory
  rcases h with h | ⟨k, hk, hn⟩
  · simp [h]
  · simp [hk, hn]

/-- `factory` never changes ids or description, and reading the written form again is
    stable (second read = first read) for every type but the classification lookup -/
theorem C08_factory_idem (v : Vlr) (hk : classify v.userId v.recordId ≠ some .classLookup) :
    factory (factory v) = factory v ∧ (factory v).userId = v.userId ∧
    (factory v).recordId = v.recordId ∧ (factory v).description = v.description := by
  cases hc : classify v.userId v.recordId with
  | none =>
    have : factory v = v := C08_raw v (Or.inl hc)
    simp [this]
  | some k =>
    cases hn : norm k v.payload with
    | none =>
      have : factory v = v := C08_raw v (Or.inr ⟨k, hc, hn⟩)
      simp [this]
    | some q =>
      have hk' : k ≠ .classLookup := fun h => hk (by rw [hc, h])
      have h1 : factory v = { v with payload := q } := by unfold factory; simp [hc, hn]
      have h2 : factory { v with payload := q } = { v with payload := q } := by
        unfold factory; simp [hc, C08_norm_idem k hk' _ _ hn]
      rw [h1, h2]; simp

/-- non-vacuity: a 16-byte user id and a 32-byte description are well-formed -/
example : (⟨List.replicate 16 65, 9, List.replicate 32 66, [1, 2, 3]⟩ : Vlr).WF false := by
  refine ⟨?_, by decide, ?_, by decide, by decide, by decide⟩ <;>
  · intro b hb
    simp [List.mem_replicate] at hb
    simp [hb]
example : norm .wktCs [65, 66, 0, 0] = some [65, 66, 0] := by decide
example : norm .geoKeys [1, 0, 1, 0, 0, 0, 9, 9, 1, 2, 3, 4, 5, 6, 7, 8, 99] = some [1, 0, 1, 0, 0, 0, 1, 0, 1, 2, 3, 4, 5, 6, 7, 8] := by decide

end LasModel.Props.C08
