/-
C08 — VLRs and EVLRs are preserved verbatim and in order.
-/
import LasModel.Model.Vlr

namespace LasModel.Props.C08
open LasModel.Bytes LasModel.Strings LasModel.Vlr

/-- the widths come from the generated constants and add up to the 54 / 60 bytes of the
    specification -/
theorem C08_header_len : headerLen false = 54 ∧ headerLen true = 60 := by decide

theorem encodeVlr_ok (ext : Bool) (v : Vlr) (h : ext = true ∨ v.payload.length ≤ 65535) :
    encodeVlr ext v = .ok (List.replicate Gen.VLR_RESERVED_LEN 0 ++ writeString v.userId USER_ID_LEN ++
      leBytes 2 v.recordId ++ leBytes (lenWidth ext) v.payload.length ++
      writeString v.description DESCRIPTION_LEN ++ v.payload) := by
  unfold encodeVlr
  have : (!ext && decide (v.payload.length > 65535)) = false := by
    rcases h with h | h
    · simp [h]
    · simp; intro _; omega
  simp [this]

/-- one record: what is written is read back field by field, and the reader stops exactly at
    the end of the record -/
theorem C08_record (ext : Bool) (v : Vlr) (rest : Bytes) (hwf : v.WF ext)
    (h : ext = true ∨ v.payload.length ≤ 65535) :
    ∃ bs, encodeVlr ext v = .ok bs ∧ bs.length = headerLen ext + v.payload.length ∧
      decodeRaw ext (bs ++ rest) = (v, rest) := by
  obtain ⟨hu, hul, hd, hdl, hr, hp⟩ := hwf
  refine ⟨_, encodeVlr_ok ext v h, ?_, ?_⟩
  · have h1 := (readString_writeString v.userId USER_ID_LEN [] hu hul).1
    have h2 := (readString_writeString v.description DESCRIPTION_LEN [] hd hdl).1
    simp only [List.length_append, List.length_replicate, leBytes_length, h1, h2, headerLen]
    try omega
  · unfold decodeRaw
    simp only [List.append_assoc]
    have e1 : readN Gen.VLR_RESERVED_LEN (List.replicate Gen.VLR_RESERVED_LEN (0 : UInt8) ++
        (writeString v.userId USER_ID_LEN ++ (leBytes 2 v.recordId ++ (leBytes (lenWidth ext) v.payload.length ++
        (writeString v.description DESCRIPTION_LEN ++ (v.payload ++ rest)))))) = (List.replicate Gen.VLR_RESERVED_LEN 0, _) :=
      readN_append' _ _ _ (by simp)
    rw [e1]
    simp only
    rw [(readString_writeString v.userId USER_ID_LEN _ hu hul).2]
    simp only
    rw [readLE_append 2 v.recordId _ (by simpa using hr)]
    simp only
    rw [readLE_append (lenWidth ext) v.payload.length _ hp]
    simp only
    rw [(readString_writeString v.description DESCRIPTION_LEN _ hd hdl).2]
    simp only
    rw [readN_append]

/-- an over-long VLR payload is refused, never truncated (EVLRs take any size) -/
theorem C08_oversize (v : Vlr) (h : v.payload.length > 65535) :
    encodeVlr false v = .error .tooLong := by
  unfold encodeVlr
  simp [h]

theorem C08_oversize_list (vs : List Vlr) (h : ∃ v ∈ vs, v.payload.length > 65535) :
    encodeVlrs false vs = .error .tooLong := by
  induction vs with
  | nil => obtain ⟨v, hv, _⟩ := h; cases hv
  | cons a vs ih =>
    obtain ⟨v, hv, hl⟩ := h
    by_cases ha : a.payload.length > 65535
    · simp [encodeVlrs, C08_oversize a ha, bind, Except.bind]
    · have hv' : v ∈ vs := by
        rcases List.mem_cons.mp hv with h | h
        · subst h; exact absurd hl ha
        · exact h
      rw [encodeVlrs, encodeVlr_ok false a (Or.inr (by omega)), ih ⟨v, hv', hl⟩]
      rfl

/-- any list of well-formed records is read back in the same order with the same ids,
    descriptions and (for unknown or unparsable types: identical; for known types: normalised,
    see `C08_norm_idem`) payloads, and the reader consumes exactly the bytes written -/
theorem C08_framing (ext : Bool) (vs : List Vlr) (rest : Bytes)
    (hwf : ∀ v ∈ vs, v.WF ext ∧ (ext = true ∨ v.payload.length ≤ 65535)) :
    ∃ bs, encodeVlrs ext vs = .ok bs ∧
      bs.length = (vs.map fun v => headerLen ext + v.payload.length).sum ∧
      decodeVlrs ext vs.length (bs ++ rest) = (vs.map factory, rest) := by
  induction vs with
  | nil => exact ⟨[], rfl, rfl, rfl⟩
  | cons v vs ih =>
    obtain ⟨bs', he', hl', hd'⟩ := ih (fun x hx => hwf x (by simp [hx]))
    obtain ⟨hv, hsz⟩ := hwf v (by simp)
    obtain ⟨b, he, hl, hd⟩ := C08_record ext v (bs' ++ rest) hv hsz
    refine ⟨b ++ bs', ?_, ?_, ?_⟩
    · simp [encodeVlrs, he, he', bind, Except.bind, pure, Except.pure]
    · simp [hl, hl']
    · simp only [List.length_cons, decodeVlrs, List.append_assoc, hd, hd', List.map_cons]

/-! ### known record types -/

theorem rstrip0_append_zero (p : Bytes) : rstrip0 (rstrip0 p ++ [0]) = rstrip0 p := by
  unfold rstrip0
  simp only [List.reverse_append, List.reverse_cons, List.reverse_nil, List.nil_append,
    List.reverse_reverse, List.singleton_append]
  rw [List.dropWhile_cons]
  simp only [beq_self_eq_true, if_true]
  congr 1
  generalize p.reverse = l
  induction l with
  | nil => rfl
  | cons a l ih =>
    simp only [List.dropWhile_cons]
    split
    · exact ih
    · simp [List.dropWhile_cons, *]

theorem isAscii_rstrip0 (p : Bytes) (h : isAscii p = true) : isAscii (rstrip0 p ++ [0]) = true := by
  unfold isAscii at *
  rw [List.all_eq_true] at *
  intro x hx
  rcases List.mem_append.mp hx with hx | hx
  · apply h
    unfold rstrip0 at hx
    have := List.mem_reverse.mp hx
    exact List.mem_reverse.mp ((List.dropWhile_sublist _).mem this)
  · simp at hx; subst hx; decide

/-- for every known type except the classification lookup (see `…_partial` note below):
    re-serialising a parsed record gives a payload that parses and re-serialises to itself -/
theorem C08_norm_idem (k : Known) (hk : k ≠ .classLookup) (p q : Bytes) (h : norm k p = some q) :
    norm k q = some q := by
  cases k with
  | classLookup => exact absurd rfl hk
  | extraBytes | geoDoubles | geoAscii =>
    simp only [norm] at h ⊢
    split at h
    · injection h with h; subst h; simp [*]
    · cases h
  | lasZip => simp [norm] at h ⊢
  | waveform =>
    simp only [norm] at h ⊢
    split at h
    · injection h with h; subst h
      have : (p.take 26).length = 26 := by simp; omega
      simp [this, List.take_take]
    · cases h
  | geoKeys =>
    simp only [norm] at h ⊢
    split at h
    case isFalse => cases h
    case isTrue hp =>
      injection h with h; subst h
      have hn : 8 * ((p.length - 8) / 8) ≤ p.length - 8 := Nat.mul_div_le _ _
      generalize hA : p.take 6 = A
      generalize hB : leBytes 2 ((p.length - 8) / 8) = B
      generalize hC : (p.drop 8).take (8 * ((p.length - 8) / 8)) = C
      have lA : A.length = 6 := by rw [← hA]; simp; omega
      have lB : B.length = 2 := by rw [← hB]; simp
      have lC : C.length = 8 * ((p.length - 8) / 8) := by rw [← hC]; simp [List.length_take]; omega
      have hl : (A ++ B ++ C).length = 8 + 8 * ((p.length - 8) / 8) := by simp [lA, lB, lC]; omega
      have hdiv : (8 + 8 * ((p.length - 8) / 8) - 8) / 8 = (p.length - 8) / 8 := by
        rw [Nat.add_sub_cancel_left, Nat.mul_div_cancel_left _ (by decide : 0 < 8)]
      have h8 : 8 + 8 * ((p.length - 8) / 8) ≥ 8 := by omega
      rw [hl]
      simp only [h8, if_true, hdiv, hB]
      have e1 : (A ++ B ++ C).take 6 = A := by
        rw [List.append_assoc]; exact List.take_left' lA
      have e2 : (A ++ B ++ C).drop 8 = C := List.drop_left' (by simp [lA, lB])
      rw [e1, e2, ← lC, List.take_length]
  | wktMath | wktCs =>
    simp only [norm] at h ⊢
    split at h
    case isFalse => cases h
    case isTrue hp =>
      injection h with h; subst h
      simp [isAscii_rstrip0 p hp, rstrip0_append_zero]

/-- the types whose serialisation is the exact inverse of parsing keep the payload bytes -/
theorem C08_norm_identity (k : Known) (hk : k = .extraBytes ∨ k = .geoDoubles ∨ k = .geoAscii ∨ k = .lasZip)
    (p q : Bytes) (h : norm k p = some q) : q = p := by
  rcases hk with hk | hk | hk | hk <;> subst hk <;> simp only [norm] at h
  · split at h <;> simp_all
  · split at h <;> simp_all
  · split at h <;> simp_all
  · simp_all

/-- payloads laspy cannot parse, and records of unknown types, are kept unchanged -/
theorem C08_raw (v : Vlr) (h : classify v.userId v.recordId = none ∨
    ∃ k, classify v.userId v.recordId = some k ∧ norm k v.payload = none) : factory v = v := by
  unfold factory
  rcases h with h | ⟨k, hk, hn⟩
  · simp [h]
  · simp [hk, hn]

/-- `factory` never changes ids or description, and reading the written form again is
    stable (second read = first read) for every type but the classification lookup -/
theorem C08_factory_idem (v : Vlr) (hk : classify v.userId v.recordId ≠ some .classLookup) :
    factory (factory v) = factory v ∧ (factory v).userId = v.userId ∧
    (factory v).recordId = v.recordId ∧ (factory v).description = v.description := by
  cases hc : classify v.userId v.recordId with
  | none =>
    have : factory v = v := C08_raw v (Or.inl hc)
    simp [this]
  | some k =>
    cases hn : norm k v.payload with
    | none =>
      have : factory v = v := C08_raw v (Or.inr ⟨k, hc, hn⟩)
      simp [this]
    | some q =>
      have hk' : k ≠ .classLookup := fun h => hk (by rw [hc, h])
      have h1 : factory v = { v with payload := q } := by unfold factory; simp [hc, hn]
      have h2 : factory { v with payload := q } = { v with payload := q } := by
        unfold factory; simp [hc, C08_norm_idem k hk' _ _ hn]
      rw [h1, h2]; simp

/-- non-vacuity: a 16-byte user id and a 32-byte description are well-formed -/
example : (⟨List.replicate 16 65, 9, List.replicate 32 66, [1, 2, 3]⟩ : Vlr).WF false := by
  refine ⟨?_, by decide, ?_, by decide, by decide, by decide⟩ <;>
  · intro b hb
    simp [List.mem_replicate] at hb
    simp [hb]
example : norm .wktCs [65, 66, 0, 0] = some [65, 66, 0] := by decide
example : norm .geoKeys [1, 0, 1, 0, 0, 0, 9, 9, 1, 2, 3, 4, 5, 6, 7, 8, 99] = some [1, 0, 1, 0, 0, 0, 1, 0, 1, 2, 3, 4, 5, 6, 7, 8] := by decide

end LasModel.Props.C08

/-! ### the classification lookup (dictionary semantics) -/

namespace LasModel.Props.C08
open LasModel LasModel.Bytes LasModel.Strings LasModel.Vlr

def keysOf (d : List (UInt8 × Bytes)) : List UInt8 := d.map (·.1)

def GoodVal (v : Bytes) : Prop := NulFree v ∧ v.length ≤ 15 ∧ isAscii v = true

def GoodDict (d : List (UInt8 × Bytes)) : Prop := (keysOf d).Nodup ∧ ∀ e ∈ d, GoodVal e.2

theorem any_key_iff (d : List (UInt8 × Bytes)) (k : UInt8) : d.any (·.1 == k) = true ↔ k ∈ keysOf d := by
  unfold keysOf
  simp only [List.any_eq_true, beq_iff_eq, List.mem_map]

theorem keys_dictInsert (d : List (UInt8 × Bytes)) (k : UInt8) (v : Bytes) :
    keysOf (dictInsert d k v) = if k ∈ keysOf d then keysOf d else keysOf d ++ [k] := by
  unfold dictInsert
  by_cases h : d.any (·.1 == k) = true
  · have hk := (any_key_iff d k).mp h
    simp only [h, if_true, hk]
    unfold keysOf
    rw [List.map_map]
    apply List.map_congr_left
    intro e _
    simp only [Function.comp]
    split
    · next he => have : e.1 = k := by simpa using he
                 exact this.symm
    · rfl
  · have hk : k ∉ keysOf d := fun hk => h ((any_key_iff d k).mpr hk)
    simp only [h, hk, if_false]
    simp [keysOf]

theorem good_dictInsert (d : List (UInt8 × Bytes)) (k : UInt8) (v : Bytes) (hd : GoodDict d) (hv : GoodVal v) :
    GoodDict (dictInsert d k v) := by
  refine ⟨?_, ?_⟩
  · rw [keys_dictInsert]
    split
    · exact hd.1
    · next hk =>
      rw [List.nodup_append]
      refine ⟨hd.1, by simp, ?_⟩
      intro a ha b hb
      simp only [List.mem_singleton] at hb
      subst hb
      intro e; subst e; exact hk ha
  · intro e he
    unfold dictInsert at he
    split at he
    · obtain ⟨e0, he0, rfl⟩ := List.mem_map.mp he
      split
      · exact hv
      · exact hd.2 e0 he0
    · rcases List.mem_append.mp he with h | h
      · exact hd.2 e h
      · simp only [List.mem_singleton] at h; subst h; exact hv

theorem good_foldl (l : List (UInt8 × Bytes)) (acc : List (UInt8 × Bytes)) (ha : GoodDict acc) (hl : ∀ e ∈ l, GoodVal e.2) :
    GoodDict (l.foldl (fun d e => dictInsert d e.1 e.2) acc) := by
  induction l generalizing acc with
  | nil => exact ha
  | cons e es ih =>
    simp only [List.foldl_cons]
    exact ih _ (good_dictInsert acc e.1 e.2 ha (hl e List.mem_cons_self)) (fun x hx => hl x (List.mem_cons_of_mem _ hx))

/-- inserting the records of a dictionary with distinct keys, in order, rebuilds it -/
theorem foldl_rebuild (l acc : List (UInt8 × Bytes)) (h : (keysOf (acc ++ l)).Nodup) :
    l.foldl (fun d e => dictInsert d e.1 e.2) acc = acc ++ l := by
  induction l generalizing acc with
  | nil => simp
  | cons e es ih =>
    simp only [List.foldl_cons]
    have hk : e.1 ∉ keysOf acc := by
      intro hk
      unfold keysOf at h hk
      rw [List.map_append, List.map_cons, List.nodup_append] at h
      exact h.2.2 _ hk _ List.mem_cons_self rfl
    have e1 : dictInsert acc e.1 e.2 = acc ++ [e] := by
      unfold dictInsert
      have : ¬ acc.any (·.1 == e.1) = true := fun ha => hk ((any_key_iff acc e.1).mp ha)
      simp [this]
    rw [e1, ih (acc ++ [e]) (by simpa [List.append_assoc] using h)]
    simp [List.append_assoc]

theorem cutNul_nulFree (s : Bytes) : NulFree (cutNul s) := by
  intro b hb
  unfold cutNul at hb
  induction s with
  | nil => simp at hb
  | cons x xs ih =>
    simp only [List.takeWhile_cons] at hb
    split at hb
    · next hx =>
      rcases List.mem_cons.mp hb with rfl | h
      · simpa using hx
      · exact ih h
    · cases hb

theorem chunks16_flatten (bl : List Bytes) (h : ∀ b ∈ bl, b.length = 16) : chunks16 bl.length bl.flatten = bl := by
  induction bl with
  | nil => rfl
  | cons b bs ih =>
    have hb := h b List.mem_cons_self
    simp only [List.length_cons, chunks16, List.flatten_cons]
    rw [List.take_left' hb, List.drop_left' hb, ih (fun x hx => h x (List.mem_cons_of_mem _ hx))]

theorem flatten_length16 (bl : List Bytes) (h : ∀ b ∈ bl, b.length = 16) : bl.flatten.length = 16 * bl.length := by
  induction bl with
  | nil => rfl
  | cons b bs ih =>
    simp only [List.flatten_cons, List.length_append, List.length_cons, h b List.mem_cons_self,
      ih (fun x hx => h x (List.mem_cons_of_mem _ hx))]
    omega

def block (e : UInt8 × Bytes) : Bytes := e.1 :: writeString e.2 15

theorem block_length (e : UInt8 × Bytes) : (block e).length = 16 := by
  unfold block writeString
  simp [nullPad_length e.2 15 false (by decide)]

theorem parse_block (e : UInt8 × Bytes) (hv : GoodVal e.2) :
    ((block e).headD 0, cutNul ((block e).drop 1)) = e := by
  obtain ⟨h1, h2, _⟩ := hv
  have := readString_writeString e.2 15 [] h1 h2
  unfold readString at this
  simp only [List.append_nil] at this
  have hl := this.1
  have hc : cutNul (writeString e.2 15) = e.2 := by
    have h3 := congrArg Prod.fst this.2
    simp only at h3
    have h4 : List.take 15 (writeString e.2 15) = writeString e.2 15 := by
      conv => lhs; arg 1; rw [← hl]
      exact List.take_length
    rw [h4] at h3
    exact h3
  unfold block
  simp [hc]

/-- serialising a dictionary with distinct class ids and clean names, then parsing it, gives the same
    serialisation -/
theorem normClassLookup_of_good (d : List (UInt8 × Bytes)) (hd : GoodDict d) :
    normClassLookup (d.flatMap block) = some (d.flatMap block) := by
  have hflat : d.flatMap block = (d.map block).flatten := by simp [List.flatMap]
  have h16 : ∀ b ∈ d.map block, b.length = 16 := by
    intro b hb; obtain ⟨e, _, rfl⟩ := List.mem_map.mp hb; exact block_length e
  have hlen : (d.flatMap block).length = 16 * d.length := by
    rw [hflat, flatten_length16 _ h16, List.length_map]
  have hchunks : chunks16 ((d.flatMap block).length / 16) (d.flatMap block) = d.map block := by
    rw [hlen, Nat.mul_div_cancel_left _ (by decide : 0 < 16), hflat]
    have := chunks16_flatten (d.map block) h16
    rwa [List.length_map] at this
  have hentries : (d.map block).map (fun e => (e.headD 0, cutNul (e.drop 1))) = d := by
    rw [List.map_map]
    conv => rhs; rw [← List.map_id d]
    apply List.map_congr_left
    intro e he
    exact parse_block e (hd.2 e he)
  unfold normClassLookup
  have hm : ¬ (d.flatMap block).length % 16 ≠ 0 := by rw [hlen]; simp
  simp only [hm, if_false, hchunks, hentries]
  have hall : d.all (fun e => isAscii e.2) = true := by
    rw [List.all_eq_true]; intro e he; exact (hd.2 e he).2.2
  simp only [hall, if_true]
  rw [foldl_rebuild d [] (by simpa using hd.1)]
  rfl

theorem drop1_take16_le (p : Bytes) : ((p.take 16).drop 1).length ≤ 15 := by
  simp [List.length_take]; omega

theorem cutNul_length_le (s : Bytes) : (cutNul s).length ≤ s.length := by
  unfold cutNul; exact (List.takeWhile_sublist _).length_le

theorem chunks16_mem_length (n : Nat) (p : Bytes) : ∀ c ∈ chunks16 n p, c.length ≤ 16 := by
  induction n generalizing p with
  | zero => intro c hc; cases hc
  | succ n ih =>
    intro c hc
    simp only [chunks16, List.mem_cons] at hc
    rcases hc with rfl | hc
    · simp [List.length_take]; omega
    · exact ih _ c hc

/-- **classification lookup**: re-serialising a parsed lookup gives a payload that parses and
    re-serialises to itself (the missing case of `C08_norm_idem`) -/
theorem C08_classLookup_idem (p q : Bytes) (h : normClassLookup p = some q) : normClassLookup q = some q := by
  unfold normClassLookup at h
  split at h
  · cases h
  · simp only at h
    split at h
    · next hall =>
      injection h with h
      subst h
      apply normClassLookup_of_good
      apply good_foldl
      · exact ⟨by simp [keysOf], fun e he => by cases he⟩
      · intro e he
        obtain ⟨c, hc, rfl⟩ := List.mem_map.mp he
        refine ⟨cutNul_nulFree _, ?_, ?_⟩
        · have h1 := cutNul_length_le (c.drop 1)
          have h2 := chunks16_mem_length _ _ c hc
          simp only [List.length_drop] at h1
          simp only; omega
        · rw [List.all_eq_true] at hall
          exact hall _ he
    · cases h

/-- `C08_norm_idem` for every known type -/
theorem C08_norm_idem_all (k : Known) (p q : Bytes) (h : norm k p = some q) : norm k q = some q := by
  by_cases hk : k = .classLookup
  · subst hk; exact C08_classLookup_idem p q h
  · exact C08_norm_idem k hk p q h

/-- `factory` is stable on a second read for **every** record, the classification lookup included -/
theorem C08_factory_idem_all (v : Vlr) :
    factory (factory v) = factory v ∧ (factory v).userId = v.userId ∧
    (factory v).recordId = v.recordId ∧ (factory v).description = v.description := by
  cases hc : classify v.userId v.recordId with
  | none =>
    have : factory v = v := C08_raw v (Or.inl hc)
    simp [this]
  | some k =>
    cases hn : norm k v.payload with
    | none =>
      have : factory v = v := C08_raw v (Or.inr ⟨k, hc, hn⟩)
      simp [this]
    | some q =>
      have h1 : factory v = { v with payload := q } := by unfold factory; simp [hc, hn]
      have h2 : factory { v with payload := q } = { v with payload := q } := by
        unfold factory; simp [hc, C08_norm_idem_all k _ _ hn]
      rw [h1, h2]; simp

/-- non-vacuity: a lookup with a repeated class id and a name holding a NUL parses -/
example : (normClassLookup ([3] ++ ascii "low_vegetation" ++ [0] ++ [3] ++ ascii "ground" ++ List.replicate 9 0)).isSome = true := by
  decide +kernel

end LasModel.Props.C08
