/-
C02 — the on-disk layout is the ASPRS layout.
The generated tables (what the running laspy lays out) are equal to the tables transcribed
from the specification; an encoder/decoder written over the specification tables only is the
inverse of laspy's layout for every record content.
-/
import LasModel.Spec.Asprs
import LasModel.Model.Layout
import LasModel.Props.C09

namespace LasModel.Props.C02
open LasModel.Bytes LasModel.Header LasModel.Layout LasModel.SubField

/-- numpy's record layout for every format = the specification's field table -/
theorem C02_layout : ∀ f ∈ Gen.formatIds, Gen.recLayout f = Spec.recLayout f := by decide +kernel

/-- record lengths 20, 28, 26, 34, 57, 63, 30, 36, 38, 59, 67 -/
theorem C02_sizes : ∀ f ∈ Gen.formatIds, Gen.recLen f = Spec.recLen f ∧ Gen.dtypeItemsize f = Spec.recLen f ∧
    ((Spec.recLayout f).map (·.2.2.1)).sum = Spec.recLen f := by decide +kernel

theorem C02_formats : Gen.formatIds = [0, 1, 2, 3, 4, 5, 6, 7, 8, 9, 10] := rfl

/-- no padding: offsets are the running sums of the widths -/
theorem C02_contiguous : ∀ f ∈ Gen.formatIds, Contiguous 0 (Gen.recLayout f) = true := by decide +kernel

/-- dimension order and element types -/
theorem C02_dims : ∀ f ∈ Gen.formatIds, Gen.formatDims f = (Spec.recLayout f).map (·.1) ∧
    ∀ e ∈ Spec.recLayout f, Gen.dimTypes.lookup e.1 = some (e.2.2.2, e.2.2.1) := by decide +kernel

/-- bit assignments of the packed bytes -/
theorem C02_bits : ∀ f ∈ Gen.formatIds, Gen.composed f = Spec.bits f := C09.C09_bits_of_the_dimension

theorem C02_versions : Gen.versionFormats = Spec.versionFormats := rfl

theorem C02_header_sizes : Gen.headerSize = Spec.headerSize ∧
    ∀ m ∈ [1, 2, 3, 4], ((Spec.headerFields m).map (·.2)).sum = (Spec.headerSize.lookup m).getD 0 := by
  decide +kernel

/-- field widths of the header model (Model/Header.lean), with the per-return arrays merged -/
def modelHeaderWidths (m : Nat) : List Nat :=
  let c := widthsC m
  let t := c.drop 25
  [4, 2, 2, 16, 1, 1, 32, 32] ++ c.take 8 ++ [((c.drop 8).take 5).sum] ++ (c.drop 13).take 12 ++
  (if m ≥ 4 then [t.getD 0 0, t.getD 1 0, t.getD 2 0, t.getD 3 0, (t.drop 4).sum]
   else if m ≥ 3 then [t.getD 0 0] else [])

/-- the header model's field widths are the specification's, version by version -/
theorem C02_header_layout : ∀ m ∈ [1, 2, 3, 4], modelHeaderWidths m = (Spec.headerFields m).map (·.2) := by
  decide +kernel

theorem C02_vlr_header : ((Spec.vlrHeader.map (·.2)).sum = Vlr.headerLen false) ∧
    ((Spec.evlrHeader.map (·.2)).sum = Vlr.headerLen true) ∧
    Spec.vlrHeader.map (·.2) = [Gen.VLR_RESERVED_LEN, Gen.VLR_USER_ID_LEN, 2, Vlr.lenWidth false, Gen.VLR_DESCRIPTION_LEN] ∧
    Spec.evlrHeader.map (·.2) = [Gen.VLR_RESERVED_LEN, Gen.VLR_USER_ID_LEN, 2, Vlr.lenWidth true, Gen.VLR_DESCRIPTION_LEN] := by
  decide

theorem C02_global_encoding : Gen.geMasks = Spec.globalEncodingBits := rfl

/-- the 192-byte extra-bytes descriptor, its type ids and option bits -/
theorem C02_extra_bytes : Gen.ebStruct = Spec.ebStruct ∧ Gen.ebStructSize = 192 ∧
    Gen.extraTypes = Spec.extraTypes ∧
    [Gen.EB_NO_DATA_BIT_MASK, Gen.EB_MIN_BIT_MASK, Gen.EB_MAX_BIT_MASK, Gen.EB_SCALE_BIT_MASK,
      Gen.EB_OFFSET_BIT_MASK] = Spec.ebOptionBits := by decide +kernel

/-- **records**: a decoder over the specification's table recovers exactly the values laspy's
    layout stored, for every format and every record content (every field value within its
    width), and consumes exactly one record length -/
theorem C02_point (f : Nat) (hf : f ∈ Gen.formatIds) (vals : List Nat) (rest : Bytes)
    (hl : vals.length = (Gen.recLayout f).length)
    (hv : ∀ p ∈ (widths (Gen.recLayout f)).zip vals, p.2 < 256 ^ p.1) :
    decodeRec (Spec.recLayout f) (encodeRec (Gen.recLayout f) vals ++ rest) = (vals, rest) ∧
    (encodeRec (Gen.recLayout f) vals).length = Spec.recLen f := by
  rw [← C02_layout f hf]
  unfold decodeRec encodeRec
  have hz : ((widths (Gen.recLayout f)).zip vals).map (·.1) = widths (Gen.recLayout f) := by
    rw [List.map_fst_zip]; simp [widths, hl]
  have hz2 : ((widths (Gen.recLayout f)).zip vals).map (·.2) = vals := by
    rw [List.map_snd_zip]; simp [widths, hl]
  constructor
  · have := decInts_encInts ((widths (Gen.recLayout f)).zip vals) rest hv
    rw [hz, hz2] at this
    exact this
  · rw [encInts_length, hz]
    have := (C02_sizes f hf).2.2
    rw [← C02_layout f hf] at this
    exact this

/-- and conversely: bytes produced by an encoder over the specification's table are
    presented by laspy's layout with the same values -/
theorem C02_point_conv (f : Nat) (hf : f ∈ Gen.formatIds) (vals : List Nat) (rest : Bytes)
    (hl : vals.length = (Spec.recLayout f).length)
    (hv : ∀ p ∈ (widths (Spec.recLayout f)).zip vals, p.2 < 256 ^ p.1) :
    decodeRec (Gen.recLayout f) (encodeRec (Spec.recLayout f) vals ++ rest) = (vals, rest) := by
  have h := C02_layout f hf
  rw [← h] at hl hv ⊢
  exact (C02_point f hf vals rest hl hv).1

/-- signed fields: two's complement reading is a bijection on the field's range -/
theorem C02_signed (w : Nat) (hw : 0 < w) (i : Int) (hi : -(256 ^ w / 2 : Nat) ≤ i ∧ i < (256 ^ w / 2 : Nat)) :
    toSigned w (ofSigned w i) = i ∧ ofSigned w i < 256 ^ w := by
  unfold toSigned ofSigned
  have hp : (256 ^ w : Nat) % 2 = 0 := by
    cases w with
    | zero => omega
    | succ w => rw [Nat.pow_succ]; omega
  have hpos : 0 < (256 ^ w : Nat) := Nat.pow_pos (by decide)
  generalize hP : (256 ^ w : Nat) = P at *
  have hPH : P = 2 * (P / 2) := by omega
  generalize hH : P / 2 = H at *
  constructor
  · by_cases h0 : 0 ≤ i
    · have : i % (P : Int) = i := Int.emod_eq_of_lt h0 (by omega)
      rw [this]
      have : i.toNat < H := by omega
      simp [this]; omega
    · have hneg : i < 0 := by omega
      have : i % (P : Int) = i + P := by
        rw [← Int.add_mul_emod_self_left i (P : Int) 1]
        simp only [Int.mul_one]
        exact Int.emod_eq_of_lt (by omega) (by omega)
      rw [this]
      have h2 : ¬ (i + (P : Int)).toNat < H := by omega
      simp only [h2, if_false]
      omega
  · have := Int.emod_lt_of_pos i (show (0 : Int) < (P : Int) by omega)
    have := Int.emod_nonneg i (show (P : Int) ≠ 0 by omega)
    omega

/-- every in-range combination of sub-field values packs into one byte from which the
    specification's bit positions recover the same values — all formats, both packed bytes
    (the value combinations enumerate all 256 bytes) -/
def allVals : List (String × Nat) → List (List Nat)
  | [] => [[]]
  | s :: ss => (List.range (maxOf s.2 + 1)).flatMap fun v => (allVals ss).map (v :: ·)

theorem C02_packed : ∀ f ∈ Gen.formatIds, ∀ c ∈ Spec.bits f, ∀ vals ∈ allVals c.2,
    unpackByte c.2 (packByte c.2 vals) = vals ∧ packByte c.2 vals < 256 := by decide +kernel

theorem C02_packed_surjective : ∀ f ∈ Gen.formatIds, ∀ c ∈ Spec.bits f, (allVals c.2).length = 256 := by
  decide +kernel

end LasModel.Props.C02
