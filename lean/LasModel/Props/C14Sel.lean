/-
C14 - selective decompression: the selection a caller builds is the selection the backend is handed.
-/
import LasModel.Model.Selection

namespace LasModel.Props.C14Sel
open LasModel.Selection Gen.Selection

/-- the thirteen flags are the bits 0..12, under thirteen different names -/
theorem sel_flags : flags.map (·.2) = (List.range 13).map (2 ^ ·) ∧ (flags.map (·.1)).Nodup := by decide +kernel

/-- `all()` selects every flag and nothing else; `base()` is the first flag -/
theorem sel_all_base : allValue = (flags.map (·.2)).foldl (· ||| ·) 0 ∧ allValue = 2 ^ 13 - 1 ∧
    some baseValue = (flags.head?).map (·.2) := by decide +kernel

/-- `skip_<flag>` clears exactly that flag, `decompress_<flag>` sets exactly that flag -/
theorem sel_skip_decompress :
    skipFromAll = flags.map (fun p => (p.1, allValue - p.2)) ∧
    decompressFromBase = flags.map (fun p => (p.1, baseValue ||| p.2)) := by decide +kernel

/-- every flag is translated to the backend's constant for the same field; the always-on constant is the base field's -/
theorem sel_lazrs_map : lazrsMap = flags.map (fun p => (p.1, lazrsName p.1)) ∧ lazrsAlways = lazrsName "XY_RETURNS_CHANNEL" := by
  decide +kernel
theorem sel_laszip_map : laszipMap = flags.map (fun p => (p.1, laszipName p.1)) ∧ laszipAlways = laszipName "XY_RETURNS_CHANNEL" := by
  decide +kernel


/-! ### the translation loop -/

theorem orSel_testBit (bk : String → Nat) (nm : String → String) (sel : Nat) (fl : List (String × Nat)) (acc i : Nat) :
    (orSel bk nm sel fl acc).testBit i =
      (acc.testBit i || fl.any (fun p => decide (sel &&& p.2 ≠ 0) && (bk (nm p.1)).testBit i)) := by
  induction fl generalizing acc with
  | nil => simp [orSel]
  | cons p fl ih =>
    rw [orSel, ih]
    by_cases h : sel &&& p.2 ≠ 0
    · simp [h, Nat.testBit_or, Bool.or_assoc]
    · have h' : sel &&& p.2 = 0 := Decidable.not_not.mp h
      simp [h']

theorem foldlM_orSel (map : List (String × String)) (bk : String → Nat) (nm : String → String) (sel : Nat)
    (fl : List (String × Nat)) (h : ∀ p ∈ fl, lookupS map p.1 = some (nm p.1)) (acc : Nat) :
    fl.foldlM (fun acc p => if sel &&& p.2 ≠ 0 then (lookupS map p.1).map (fun c => acc ||| bk c) else some acc) acc
      = some (orSel bk nm sel fl acc) := by
  induction fl generalizing acc with
  | nil => rfl
  | cons p fl ih =>
    have hp := h p (List.mem_cons_self)
    have ih' := fun a => ih (fun q hq => h q (List.mem_cons_of_mem _ hq)) a
    rw [List.foldlM_cons, orSel]
    by_cases hs : sel &&& p.2 ≠ 0
    · simpa [hs, hp] using ih' _
    · have hs' : sel &&& p.2 = 0 := Decidable.not_not.mp hs
      simpa [hs'] using ih' _

theorem lazrs_entries : ∀ p ∈ flags, lookupS lazrsMap p.1 = some (lazrsName p.1) := by decide +kernel
theorem laszip_entries : ∀ p ∈ flags, lookupS laszipMap p.1 = some (laszipName p.1) := by decide +kernel

/-- with laspy's tables the loop finds an entry for every flag: it is the plain fold -/
theorem toBackend_lazrs (bk : String → Nat) (sel : Nat) :
    toBackend lazrsMap lazrsAlways bk sel = some (orSel bk lazrsName sel flags (bk lazrsAlways)) :=
  foldlM_orSel _ _ _ _ _ lazrs_entries _
theorem toBackend_laszip (bk : String → Nat) (sel : Nat) :
    toBackend laszipMap laszipAlways bk sel = some (orSel bk laszipName sel flags (bk laszipAlways)) :=
  foldlM_orSel _ _ _ _ _ laszip_entries _

/-- backend constants of different fields share no bit -/
def Disjoint (bk : String → Nat) (nm : String → String) : Prop :=
  ∀ p ∈ flags, ∀ q ∈ flags, p.1 ≠ q.1 → ∀ i, ¬ ((bk (nm p.1)).testBit i = true ∧ (bk (nm q.1)).testBit i = true)

theorem flag_of_name : ∀ p ∈ flags, ∀ q ∈ flags, p.1 = q.1 → p = q := by decide +kernel

/-- **The backend is asked for a field iff the caller selected it** (or it belongs to the constant that is always
    requested), for every backend whose constants for different fields share no bit, every selection value and every bit:
    a bit of the field of flag `p` is set in the translated selection iff `p` is set in the selection or the bit is in the
    always-on constant; and no other bit is ever set. -/
theorem selection_faithful (bk : String → Nat) (nm : String → String) (always : String) (hd : Disjoint bk nm) (sel : Nat) :
    let r := orSel bk nm sel flags (bk always)
    (∀ p ∈ flags, ∀ i, (bk (nm p.1)).testBit i = true →
        (r.testBit i = true ↔ (sel &&& p.2 ≠ 0 ∨ (bk always).testBit i = true))) ∧
    (∀ i, r.testBit i = true → (bk always).testBit i = true ∨ ∃ p ∈ flags, sel &&& p.2 ≠ 0 ∧ (bk (nm p.1)).testBit i = true) := by
  intro r
  have key : ∀ i, r.testBit i = true ↔
      ((bk always).testBit i = true ∨ ∃ p ∈ flags, sel &&& p.2 ≠ 0 ∧ (bk (nm p.1)).testBit i = true) := by
    intro i
    simp only [r, orSel_testBit, Bool.or_eq_true, List.any_eq_true, Bool.and_eq_true, decide_eq_true_eq]
  refine ⟨?_, fun i h => (key i).mp h⟩
  intro p hp i hi
  rw [key]
  constructor
  · rintro (h | ⟨q, hq, hs, hb⟩)
    · exact Or.inr h
    · by_cases hpq : p.1 = q.1
      · have := flag_of_name p hp q hq hpq
        subst this
        exact Or.inl hs
      · exact absurd ⟨hi, hb⟩ (hd p hp q hq hpq i)
  · rintro (h | h)
    · exact Or.inr ⟨p, hp, h, hi⟩
    · exact Or.inl h

/-- C14 for selective decompression: what `to_lazrs` hands the backend -/
theorem C14_selection_lazrs (bk : String → Nat) (hd : Disjoint bk lazrsName) (sel : Nat) :
    ∃ r, toBackend lazrsMap lazrsAlways bk sel = some r ∧
      (∀ p ∈ flags, ∀ i, (bk (lazrsName p.1)).testBit i = true →
        (r.testBit i = true ↔ (sel &&& p.2 ≠ 0 ∨ (bk lazrsAlways).testBit i = true))) ∧
      (∀ i, r.testBit i = true → (bk lazrsAlways).testBit i = true ∨ ∃ p ∈ flags, sel &&& p.2 ≠ 0 ∧ (bk (lazrsName p.1)).testBit i = true) :=
  ⟨_, toBackend_lazrs bk sel, selection_faithful bk lazrsName lazrsAlways hd sel⟩

theorem C14_selection_laszip (bk : String → Nat) (hd : Disjoint bk laszipName) (sel : Nat) :
    ∃ r, toBackend laszipMap laszipAlways bk sel = some r ∧
      (∀ p ∈ flags, ∀ i, (bk (laszipName p.1)).testBit i = true →
        (r.testBit i = true ↔ (sel &&& p.2 ≠ 0 ∨ (bk laszipAlways).testBit i = true))) ∧
      (∀ i, r.testBit i = true → (bk laszipAlways).testBit i = true ∨ ∃ p ∈ flags, sel &&& p.2 ≠ 0 ∧ (bk (laszipName p.1)).testBit i = true) :=
  ⟨_, toBackend_laszip bk sel, selection_faithful bk laszipName laszipAlways hd sel⟩

/-! ### the premise is met by the backend double and by the constants of laszip_api.h; concrete values -/

theorem and_eq_zero_disjoint {a b : Nat} (h : a &&& b = 0) (i : Nat) : ¬ (a.testBit i = true ∧ b.testBit i = true) := by
  intro ⟨ha, hb⟩
  have : (a &&& b).testBit i = true := by rw [Nat.testBit_and, ha, hb]; rfl
  rw [h] at this
  simp at this

theorem stub_disjoint : Disjoint stubBk lazrsName := by
  intro p hp q hq hne i
  have : ∀ p ∈ flags, ∀ q ∈ flags, p.1 ≠ q.1 → stubBk (lazrsName p.1) &&& stubBk (lazrsName q.1) = 0 := by decide +kernel
  exact and_eq_zero_disjoint (this p hp q hq hne) i

theorem laszip_disjoint : Disjoint laszipBk laszipName := by
  intro p hp q hq hne i
  have : ∀ p ∈ flags, ∀ q ∈ flags, p.1 ≠ q.1 → laszipBk (laszipName p.1) &&& laszipBk (laszipName q.1) = 0 := by decide +kernel
  exact and_eq_zero_disjoint (this p hp q hq hne) i

/-- on the backend double the translation is a shift: flag `2^(k+1)` becomes bit `k`, the base flag costs nothing -/
theorem stub_values : ∀ k < 13, toBackend lazrsMap lazrsAlways stubBk (2 ^ k) = some (2 ^ k / 2) := by decide +kernel
theorem stub_all : toBackend lazrsMap lazrsAlways stubBk allValue = some 4095 ∧
    toBackend laszipMap laszipAlways laszipBk allValue = some 4294903807 := by decide +kernel

end LasModel.Props.C14Sel
