/-
C17 — the access path does not change what is read.
-/
import LasModel.Model.Streams
import LasModel.Props.C18
import LasModel.Props.C03
import LasModel.Model.Appender

namespace LasModel.Props.C17
open LasModel.Streams LasModel.Props.C18

def NoSeek (s : Stream) : Prop := ∀ c ∈ s.log, c ≠ .seek ∧ c ≠ .tell

theorem noSeek_call (s : Stream) (c : Call) (h : NoSeek s) (hc : c ≠ .seek ∧ c ≠ .tell) : NoSeek (s.call c) := by
  intro x hx
  simp only [Stream.call, List.mem_append, List.mem_singleton] at hx
  rcases hx with hx | hx
  · exact h x hx
  · subst hx; exact hc

theorem call_seekable (s : Stream) (c : Call) : (s.call c).seekable = s.seekable := rfl

theorem readHeader_noSeek (s : Stream) (f : FileInfo) (b : Bool) (hns : s.seekable = false) (h : NoSeek s) :
    NoSeek (readHeader s f b).1 ∧ (readHeader s f b).1.seekable = false := by
  unfold readHeader
  simp only
  have n1 := noSeek_call s .read h (by decide)
  split
  · exact ⟨n1, hns⟩
  · have n2 : NoSeek { (s.call .read).call .read with pos := f.offset } := noSeek_call _ .read n1 (by decide)
    split
    · exact ⟨n2, hns⟩
    · split
      · split
        · have n3 := noSeek_call _ .seekable n2 (by decide)
          split
          · rename_i hsk
            simp [Stream.call, hns] at hsk
          · exact ⟨n3, hns⟩
        · exact ⟨n2, hns⟩
      · exact ⟨n2, hns⟩

theorem readPoints_noSeek (r : Reader) (n : Nat) (hns : r.stream.seekable = false) (h : NoSeek r.stream) :
    NoSeek (readPoints r n).stream ∧ (readPoints r n).stream.seekable = false := by
  unfold readPoints
  simp only
  split
  · exact ⟨h, hns⟩
  · refine ⟨?_, hns⟩
    intro x hx
    simp only [Stream.call, List.mem_append, List.mem_singleton] at hx
    rcases hx with hx | hx
    · exact h x hx
    · subst hx; split <;> decide

theorem readAll_noSeek (r : Reader) (hns : r.stream.seekable = false) (h : NoSeek r.stream) :
    NoSeek (readAll r).stream ∧ (readAll r).stream.seekable = false := by
  unfold readAll
  obtain ⟨a, b⟩ := readPoints_noSeek r (r.file.nPoints - r.pointsRead) hns h
  simp only
  split
  · split
    · rename_i hsk
      simp [Stream.call, b] at hsk
    · exact ⟨noSeek_call _ .read (noSeek_call _ .seekable a (by decide)) (by decide), b⟩
  · exact ⟨a, b⟩

theorem runR_noSeek (r : Reader) (ops : List ROp) (hns : r.stream.seekable = false) (h : NoSeek r.stream) :
    NoSeek (runR r ops).stream := by
  induction ops generalizing r with
  | nil => exact h
  | cons op ops ih =>
    cases op with
    | points n => obtain ⟨a, b⟩ := readPoints_noSeek r n hns h; exact ih _ b a
    | all => obtain ⟨a, b⟩ := readAll_noSeek r hns h; exact ih _ b a

/-- **a non-seekable source is never asked to seek or tell**: opening (with EVLR loading asked
    for or deferred), any reads, reading everything including the EVLRs, closing -/
theorem C17_no_seek (s : Stream) (hns : s.seekable = false) (hlog : s.log = []) (f : FileInfo)
    (closefd readEvlrs : Bool) (ops : List ROp) :
    (∀ s', openRead s f closefd readEvlrs = .error s' → NoSeek s') ∧
    (∀ r, openRead s f closefd readEvlrs = .ok r → NoSeek (closeReader (runR r ops))) := by
  have h0 : NoSeek s := by intro c hc; rw [hlog] at hc; cases hc
  obtain ⟨hn, hsk⟩ := readHeader_noSeek s f readEvlrs hns h0
  unfold openRead
  cases hr : readHeader s f readEvlrs with
  | mk s1 rest =>
    obtain ⟨fl, ld⟩ := rest
    rw [hr] at hn hsk
    simp only at hn hsk
    have hclose : ∀ x : Stream, NoSeek x → NoSeek (if closefd then x.close else x) := by
      intro x hx
      split
      · intro c hc
        simp only [Stream.close, Stream.call, List.mem_append, List.mem_singleton] at hc
        rcases hc with hc | hc
        · exact hx c hc
        · subst hc; decide
      · exact hx
    cases fl with
    | none =>
      refine ⟨(by intro s' h; cases h), ?_⟩
      intro r h
      injection h with h
      subst h
      have := runR_noSeek ⟨s1, closefd, f, ld, false, 0⟩ ops hsk hn
      unfold closeReader
      have hcf : (runR ⟨s1, closefd, f, ld, false, 0⟩ ops).closefd = closefd := (runR_closed _ ops).2
      rw [hcf]
      exact hclose _ this
    | laspy =>
      refine ⟨?_, (by intro r h; cases h)⟩
      intro s' h; injection h with h; subst h; exact hclose _ hn
    | other =>
      refine ⟨?_, (by intro r h; cases h)⟩
      intro s' h; injection h with h; subst h; exact hclose _ hn

/-- **deferred EVLRs on a non-seekable source are the file's EVLRs**: for every file a writer
    session produces, the bytes found "right after the last point" are the bytes at the header's
    EVLR pointer (C03), so the sequential path reads the same records as the seeking one -/
theorem C17_evlrs_sequential {F} (o : FileIO.FOps F) (h : Header.Hdr) (chunks : List (List FileIO.Rec)) (ev : List Vlr.Vlr)
    (ok : FileIO.SessionOK o h chunks ev)
    (hfmt : Gen.formatIds.contains (FileIO.fmtOf h) = true) (hrl : Gen.recLen (FileIO.fmtOf h) ≤ h.recLen) (hpos : 0 < h.recLen)
    (hrec : ∀ r ∈ chunks.flatten, r.length = h.recLen) (hne : ev ≠ []) :
    ∃ file, FileIO.session o h (FileIO.sessionOps h chunks ev) = .ok file ∧
      file.drop (Header.fileOffset file + (FileIO.finalHdr o h chunks ev).count * h.recLen) =
      file.drop (FileIO.finalHdr o h chunks ev).evlrStart := by
  obtain ⟨file, eb, hs, _, _, hc, _, _, hev⟩ := C03.C03_file o h chunks ev ok hfmt hrl hpos hrec
  refine ⟨file, hs, ?_⟩
  rw [(hev hne).1, hc]

/-- **memory map edits are local**: overwriting `data` at position `p` of the mapped file
    changes no byte outside `[p, p + data.length)`, and inside it the file holds `data` -/
theorem C17_mmap_frame (file data : Bytes.Bytes) (p : Nat) (hp : p + data.length ≤ file.length) (j : Nat) :
    (j < p ∨ p + data.length ≤ j → (LasModel.Appender.writeAt file p data).getD j 0 = file.getD j 0) ∧
    (p ≤ j ∧ j < p + data.length → (LasModel.Appender.writeAt file p data).getD j 0 = data.getD (j - p) 0) ∧
    (LasModel.Appender.writeAt file p data).length = file.length := by
  unfold LasModel.Appender.writeAt
  have hlt : ¬ file.length < p := by omega
  simp only [hlt, if_false]
  have hlen : (file.take p ++ data ++ file.drop (p + data.length)).length = file.length := by
    simp only [List.length_append, List.length_take, List.length_drop]; omega
  refine ⟨?_, ?_, hlen⟩
  · intro hj
    simp only [List.getD_eq_getElem?_getD]
    rcases hj with hj | hj
    · rw [List.append_assoc, List.getElem?_append_left (by simp; omega), List.getElem?_take_of_lt hj]
    · rw [List.getElem?_append_right (by simp; omega)]
      simp only [List.length_append, List.length_take, List.getElem?_drop]
      congr 2
      omega
  · intro hj
    simp only [List.getD_eq_getElem?_getD]
    rw [List.getElem?_append_left (by simp; omega), List.getElem?_append_right (by simp; omega)]
    simp only [List.length_take]
    congr 2
    omega


/-- non-vacuity: a fresh non-seekable stream and a 1.4 file with points and EVLRs meet the hypotheses of `C17_no_seek`;
    opening succeeds on it -/
example : let s : Stream := ⟨false, false, 0, false, []⟩
    s.seekable = false ∧ s.log = [] ∧ ∃ r, openRead s ⟨true, true, true, true, true, 5, 2, 375, 30⟩ true true = .ok r :=
  ⟨rfl, rfl, _, rfl⟩

end LasModel.Props.C17
