/-
C13 — extra dimensions stay consistent across add/remove histories.
-/
import LasModel.Model.ExtraDims
import LasModel.Lemmas.HeaderRT

namespace LasModel.Props.C13
open LasModel.Bytes LasModel.Strings LasModel.Header LasModel.ExtraDims

/-- the generated type table: ids 1..30, one to three elements each -/
def rowOK (id : Nat) : Bool :=
  match typeRow id with
  | some (_, sz, n) => decide (1 ≤ n) && decide (n ≤ 3) && decide (1 ≤ sz)
  | none => false

theorem rowOK_all : ∀ i ∈ List.range 31, 1 ≤ i → rowOK i = true := by decide +kernel

theorem typeRow_spec : ∀ id, 1 ≤ id → id ≤ 30 → ∃ k sz n, typeRow id = some (k, sz, n) ∧ 1 ≤ n ∧ n ≤ 3 ∧ 1 ≤ sz := by
  intro id h1 h2
  have h := rowOK_all id (by simp; omega) h1
  unfold rowOK at h
  cases hr : typeRow id with
  | none => simp [hr] at h
  | some r =>
    obtain ⟨k, sz, n⟩ := r
    simp only [hr, Bool.and_eq_true, decide_eq_true_eq] at h
    exact ⟨k, sz, n, rfl, h.1.1, h.1.2, h.2⟩

theorem rstripNul_nulFree (s : Bytes) (h : NulFree s) : rstripNul s = s := by
  unfold rstripNul
  have : s.reverse.dropWhile (· == 0) = s.reverse := by
    cases hr : s.reverse with
    | nil => rfl
    | cons a l =>
      have ha : a ∈ s := by
        have : a ∈ s.reverse := by rw [hr]; simp
        exact List.mem_reverse.mp this
      have : a ≠ 0 := h a ha
      simp [List.dropWhile_cons, this]
  rw [this, List.reverse_reverse]

theorem field_roundtrip (s : Bytes) (h : NulFree s) (hl : s.length ≤ 32) :
    (writeString s 32).length = 32 ∧ rstripNul (cutNul (writeString s 32)) = s := by
  have hc := cutNul_of_nulFree s h
  have hfield : writeString s 32 = s ++ List.replicate (32 - s.length) 0 := by
    unfold writeString nullPad
    simp only [hc]
    have : ¬ (32 + 1 ≤ s.length) := by omega
    simp [this]
  refine ⟨by rw [hfield]; simp; omega, ?_⟩
  rw [hfield, cutNul_append_zeros s h, rstripNul_nulFree s h]

theorem encInts8_length (l : List Nat) : (encInts (l.map fun x => (8, x))).length = 8 * l.length := by
  rw [encInts_length, List.map_map]
  induction l with
  | nil => rfl
  | cons a l ih => simp only [List.map_cons, List.sum_cons, Function.comp, List.length_cons] at ih ⊢; omega

theorem pad3_length (l : List Nat) : (pad3 l).length = 3 := by simp [pad3]

theorem pad3_take (l : List Nat) (h : l.length ≤ 3) : (pad3 l).take l.length = l := by
  unfold pad3
  rw [List.take_take, Nat.min_eq_left h, List.take_left]

theorem pad3_lt (l : List Nat) (h : ∀ x ∈ l, x < 2 ^ 64) : ∀ x ∈ pad3 l, x < 2 ^ 64 := by
  intro x hx
  unfold pad3 at hx
  rcases List.mem_append.mp (List.mem_of_mem_take hx) with h1 | h1
  · exact h x h1
  · simp [List.mem_replicate] at h1; subst h1; decide

theorem dec3 (l : List Nat) (hl : l.length = 3) (h : ∀ x ∈ l, x < 2 ^ 64) (rest : Bytes) :
    (decInts [8, 8, 8] (encInts (l.map fun x => (8, x)) ++ rest)).1 = l := by
  obtain ⟨a, b, c, rfl⟩ : ∃ a b c, l = [a, b, c] := by
    match l, hl with
    | [a, b, c], _ => exact ⟨a, b, c, rfl⟩
  have := decInts_encInts [(8, a), (8, b), (8, c)] rest (by
    intro f hf
    simp at hf
    rcases hf with hf | hf | hf <;> subst hf <;> simp only
    · exact h a (by simp)
    · exact h b (by simp)
    · exact h c (by simp))
  simp only [List.map_cons, List.map_nil] at this ⊢
  rw [this]

/-- **descriptor round trip**: the 192-byte descriptor written for an extra dimension is read
    back as the same dimension — name, element type, element count of an opaque array (4..255,
    any value of the options byte), scales, offsets, description -/
theorem C13_descriptor (d : ExtraDim) (hw : d.WF) (rest : Bytes) :
    (descriptor d).length = 192 ∧ parseDescriptor (descriptor d ++ rest) = d := by
  obtain ⟨hn1, hn2⟩ := field_roundtrip d.name hw.name.1 hw.name.2
  obtain ⟨hd1, hd2⟩ := field_roundtrip d.description hw.desc.1 hw.desc.2
  -- the scale / offset blocks
  generalize hsc : scalesOf d = sc
  generalize hof : offsetsOf d = of
  have lsc : sc.length = 3 := by rw [← hsc]; unfold scalesOf; split <;> simp [pad3]
  have lof : of.length = 3 := by rw [← hof]; unfold offsetsOf; split <;> simp [pad3]
  have hS := encInts8_length sc
  have hO := encInts8_length of
  rw [lsc] at hS; rw [lof] at hO
  have hform : descriptor d = [0, 0] ++ [UInt8.ofNat d.typeId, UInt8.ofNat (optionsOf d)] ++ writeString d.name 32 ++
      List.replicate 4 0 ++ List.replicate 72 0 ++ encInts (sc.map fun x => (8, x)) ++ encInts (of.map fun x => (8, x)) ++
      writeString d.description 32 := by
    unfold descriptor; simp only [hsc, hof]
  have hlen : (descriptor d).length = 192 := by
    rw [hform]; simp only [List.length_append, List.length_cons, List.length_nil, List.length_replicate, hn1, hd1, hS, hO]
  refine ⟨hlen, ?_⟩
  -- positions
  generalize hA : ([0, 0] ++ [UInt8.ofNat d.typeId, UInt8.ofNat (optionsOf d)] : Bytes) = A at hform
  have lA : A.length = 4 := by rw [← hA]; rfl
  generalize hN : writeString d.name 32 = N at *
  generalize hD : writeString d.description 32 = D at *
  generalize hES : encInts (sc.map fun x => (8, x)) = ES at *
  generalize hEO : encInts (of.map fun x => (8, x)) = EO at *
  have hb2 : (descriptor d ++ rest).getD 2 0 = UInt8.ofNat d.typeId := by rw [hform, ← hA]; rfl
  have hb3 : (descriptor d ++ rest).getD 3 0 = UInt8.ofNat (optionsOf d) := by rw [hform, ← hA]; rfl
  have hname : ((descriptor d ++ rest).drop 4).take 32 = N := by
    rw [hform]; simp only [List.append_assoc]
    rw [List.drop_left' lA, List.take_left' hn1]
  have hdrop112 : (descriptor d ++ rest).drop 112 = ES ++ (EO ++ (D ++ rest)) := by
    rw [hform]; simp only [List.append_assoc]
    have : (A ++ (N ++ (List.replicate 4 (0 : UInt8) ++ (List.replicate 72 0 ++ (ES ++ (EO ++ (D ++ rest))))))) =
        (A ++ N ++ List.replicate 4 0 ++ List.replicate 72 0) ++ (ES ++ (EO ++ (D ++ rest))) := by simp [List.append_assoc]
    rw [this]; exact List.drop_left' (by simp [lA, hn1])
  have hdrop136 : (descriptor d ++ rest).drop 136 = EO ++ (D ++ rest) := by
    have : (descriptor d ++ rest).drop 136 = ((descriptor d ++ rest).drop 112).drop 24 := by rw [List.drop_drop]
    rw [this, hdrop112]; exact List.drop_left' hS
  have hdesc : ((descriptor d ++ rest).drop 160).take 32 = D := by
    have : (descriptor d ++ rest).drop 160 = ((descriptor d ++ rest).drop 136).drop 24 := by rw [List.drop_drop]
    rw [this, hdrop136, List.drop_left' hO, List.take_left' hd1]
  -- values
  have htid : d.typeId < 256 := by
    rcases hw.kind with h | h
    · omega
    · omega
  have hopt : optionsOf d < 256 := by
    unfold optionsOf
    rcases hw.kind with h | h
    · simp [h.1]; omega
    · have : ¬ d.typeId = 0 := by omega
      simp only [this, if_false]; split <;> decide
  have e2 : (UInt8.ofNat d.typeId).toNat = d.typeId := by simp [UInt8.toNat_ofNat']; omega
  have e3 : (UInt8.ofNat (optionsOf d)).toNat = optionsOf d := by simp [UInt8.toNat_ofNat']; omega
  unfold parseDescriptor
  simp only [hb2, hb3, e2, e3, hname, hdesc, hdrop112, hdrop136, hn2, hd2]
  rcases hw.kind with ⟨h0, hc1, hc2, hsn⟩ | ⟨h1, h30, hc0⟩
  · -- opaque array
    obtain ⟨nm, ds, ti, cn, sg⟩ := d
    simp only at h0 hsn
    subst h0 hsn
    simp [optionsOf]
  · -- typed
    have hne : ¬ d.typeId = 0 := by omega
    obtain ⟨k, sz, n, hrow, hn1', hn3, _⟩ := typeRow_spec d.typeId h1 h30
    cases hs : d.scaling with
    | none =>
      obtain ⟨nm, ds, ti, cn, sg⟩ := d
      simp only at hs hc0 hne
      subst hs hc0
      simp [optionsOf, hne, Gen.EB_SCALE_BIT_MASK, Gen.EB_OFFSET_BIT_MASK]
    | some so =>
      obtain ⟨s, o⟩ := so
      obtain ⟨ls, lo, bs, bo⟩ := hw.scal s o hs
      have hnel : nElems d = n := by unfold nElems; simp [hne, hrow]
      rw [hnel] at ls lo
      have hscv : sc = pad3 s := by rw [← hsc]; unfold scalesOf; rw [hs]
      have hofv : of = pad3 o := by rw [← hof]; unfold offsetsOf; rw [hs]
      have d1 : (decInts [8, 8, 8] (ES ++ (EO ++ (D ++ rest)))).1 = pad3 s := by
        rw [← hES, hscv]; exact dec3 _ (pad3_length s) (pad3_lt s bs) _
      have d2 : (decInts [8, 8, 8] (EO ++ (D ++ rest))).1 = pad3 o := by
        rw [← hEO, hofv]; exact dec3 _ (pad3_length o) (pad3_lt o bo) _
      have t1 : (pad3 s).take n = s := by rw [← ls]; exact pad3_take s (by omega)
      have t2 : (pad3 o).take n = o := by rw [← lo]; exact pad3_take o (by omega)
      obtain ⟨nm, ds, ti, cn, sg⟩ := d
      simp only at hs hc0 hne hrow
      subst hs hc0
      simp [optionsOf, hne, hrow, d1, d2, t1, t2, Gen.EB_SCALE_BIT_MASK, Gen.EB_OFFSET_BIT_MASK]

theorem chunks192_append (b : Bytes) (hb : b.length = 192) (n : Nat) (rest : Bytes) :
    chunks192 (n + 1) (b ++ rest) = b :: chunks192 n rest := by
  simp only [chunks192]
  rw [List.take_left' hb, List.drop_left' hb]

/-- the extra-bytes VLR payload describes exactly the current extra dimensions, in order -/
theorem C13_payload (ds : List ExtraDim) (hw : ∀ d ∈ ds, d.WF) :
    (payload ds).length = 192 * ds.length ∧ parsePayload (payload ds) = ds := by
  induction ds with
  | nil => exact ⟨rfl, rfl⟩
  | cons d ds ih =>
    obtain ⟨il, ip⟩ := ih (fun x hx => hw x (by simp [hx]))
    obtain ⟨dl, _⟩ := C13_descriptor d (hw d (by simp)) []
    have hl : (payload (d :: ds)).length = 192 * (ds.length + 1) := by
      simp only [payload, List.flatMap_cons, List.length_append] at il ⊢
      rw [dl, il]; omega
    refine ⟨by simpa using hl, ?_⟩
    unfold parsePayload at ip ⊢
    rw [hl]
    have hdiv : 192 * (ds.length + 1) / 192 = ds.length + 1 := Nat.mul_div_cancel_left _ (by decide)
    rw [hdiv]
    have hp : payload (d :: ds) = descriptor d ++ payload ds := by simp [payload]
    rw [hp, chunks192_append _ dl]
    simp only [List.map_cons]
    rw [il] at ip
    have hdiv2 : 192 * ds.length / 192 = ds.length := Nat.mul_div_cancel_left _ (by decide)
    rw [hdiv2] at ip
    rw [ip]
    have := (C13_descriptor d (hw d (by simp)) []).2
    simp only [List.append_nil] at this
    rw [this]

/-- well-shaped memory: every record has one value of the right size per extra dimension -/
def Shaped (m : LasMem) : Prop :=
  ∀ r ∈ m.recs, r.1.length = m.std ∧ r.2.map List.length = m.dims.map dimSize

theorem sum_map_length (l : List Bytes) : l.flatten.length = (l.map List.length).sum := by
  induction l with
  | nil => rfl
  | cons a l ih => simp [ih]

/-- record length = standard part + extra bytes -/
theorem C13_reclen (m : LasMem) (h : Shaped m) (r : Bytes × List Bytes) (hr : r ∈ m.recs) :
    (flatRec r).length = recLen m := by
  obtain ⟨h1, h2⟩ := h r hr
  unfold flatRec recLen
  rw [List.length_append, h1, sum_map_length, h2]

/-- adding dimensions keeps every existing value and appends zero-filled values of the new
    sizes; the shape invariant is kept -/
theorem C13_add (m : LasMem) (h : Shaped m) (ds : List ExtraDim) :
    Shaped (addDims m ds) ∧ (addDims m ds).dims = m.dims ++ ds ∧
    (addDims m ds).recs.map (·.1) = m.recs.map (·.1) ∧
    ∀ i (hi : i < m.recs.length), ∃ z, ((addDims m ds).recs.getD i ([], [])).2 = (m.recs.getD i ([], [])).2 ++ z := by
  refine ⟨?_, rfl, ?_, ?_⟩
  · intro r hr
    simp only [addDims, List.mem_map] at hr
    obtain ⟨r0, hr0, rfl⟩ := hr
    obtain ⟨h1, h2⟩ := h r0 hr0
    simp only [addDims]
    refine ⟨h1, ?_⟩
    rw [List.map_append, h2, List.map_append, List.map_map]
    congr 1
    apply List.map_congr_left
    intro d _
    simp
  · simp [addDims, List.map_map]
  · intro i hi
    refine ⟨ds.map fun d => List.replicate (dimSize d) 0, ?_⟩
    simp [addDims, List.getD_eq_getElem?_getD, hi]

/-- removing a standard or unknown dimension raises and changes nothing (no new state) -/
theorem C13_remove_bad (m : LasMem) (names : List Bytes) (h : ∃ n ∈ names, ∀ d ∈ m.dims, d.name ≠ n) :
    removeDims m names = .error .notExtra := by
  unfold removeDims
  obtain ⟨n, hn, hno⟩ := h
  have : (names.all fun n => m.dims.any (·.name == n)) = false := by
    rw [List.all_eq_false]
    refine ⟨n, hn, ?_⟩
    rw [Bool.not_eq_true, List.any_eq_false]
    intro d hd
    simpa using hno d hd
  simp [this]

theorem eraseIdx_aux {α β} (f : α → β) (is : List Nat) (l : List α) (k : Nat) :
    ((l.zipIdx k).filter fun p => !is.contains p.2).map (f ∘ (·.1)) =
      (((l.map f).zipIdx k).filter fun p => !is.contains p.2).map (·.1) := by
  induction l generalizing k with
  | nil => rfl
  | cons a l ih =>
    simp only [List.zipIdx_cons, List.map_cons, List.filter_cons]
    by_cases hk : (!is.contains k) = true
    · rw [if_pos hk, if_pos hk, List.map_cons, List.map_cons, ih (k + 1)]; rfl
    · rw [if_neg hk, if_neg hk, ih (k + 1)]

theorem eraseIdx_map {α β} (f : α → β) (l : List α) (is : List Nat) : (eraseIdx l is).map f = eraseIdx (l.map f) is := by
  unfold eraseIdx
  rw [List.map_map]
  exact eraseIdx_aux f is l 0

/-- removing extra dimensions keeps the shape: the values of every remaining dimension are the
    ones it had (the same positions are erased from the descriptors and from every record) -/
theorem C13_remove (m m' : LasMem) (h : Shaped m) (names : List Bytes) (hr : removeDims m names = .ok m') :
    Shaped m' ∧ ∃ is, m'.dims = eraseIdx m.dims is ∧
      m'.recs = m.recs.map fun r => (r.1, eraseIdx r.2 is) := by
  unfold removeDims at hr
  split at hr
  · injection hr with hr
    subst hr
    refine ⟨?_, _, rfl, rfl⟩
    intro r hrm
    simp only [List.mem_map] at hrm
    obtain ⟨r0, hr0, rfl⟩ := hrm
    obtain ⟨h1, h2⟩ := h r0 hr0
    refine ⟨h1, ?_⟩
    simp only
    rw [eraseIdx_map, eraseIdx_map, h2]
  · cases hr

/-- non-vacuity -/
example : parseDescriptor (descriptor ⟨[98, 108, 111, 98], [], 0, 8, none⟩) = ⟨[98, 108, 111, 98], [], 0, 8, none⟩ := by
  decide +kernel

end LasModel.Props.C13
