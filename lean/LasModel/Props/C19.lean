/-
C19 — interrupted writes and truncated files never yield points that were not written.
-/
import LasModel.Model.Crash
import LasModel.Lemmas.ReadBack

namespace LasModel.Props.C19
open LasModel.Bytes LasModel.Header LasModel.FileIO LasModel.Crash LasModel.Appender

/-- (ii) **torn counter**: a little-endian point counter being overwritten from `old` to
    `new ≥ old` and interrupted after any number of bytes decodes to at most `new` -/
theorem C19_torn_counter (w old new k : Nat) (hon : old ≤ new) (hn : new < 256 ^ w) :
    leNat ((leBytes w new).take k ++ (leBytes w old).drop k) ≤ new :=
  torn_counter w old new k hon hn

/-- a truncated little-endian counter decodes to at most the full value -/
theorem C19_truncated_counter (w n k : Nat) (hn : n < 256 ^ w) : leNat ((leBytes w n).take k) ≤ n := by
  have := torn_counter w 0 n k (Nat.zero_le _) hn
  have hz : ∀ w, leNat (leBytes w 0) = 0 := by intro w; rw [leNat_leBytes]; simp
  have hdrop : leNat ((leBytes w 0).drop k) = 0 := by
    have : ∀ (w k : Nat), leNat ((leBytes w 0).drop k) = 0 := by
      intro w
      induction w with
      | zero => intro k; simp [leBytes, leNat]
      | succ w ih =>
        intro k
        cases k with
        | zero => simp only [List.drop_zero]; exact hz _
        | succ k => simp only [leBytes, List.drop_succ_cons]; exact ih k
    exact this w k
  have happ : ∀ (a b : Bytes), leNat (a ++ b) = leNat a + 256 ^ a.length * leNat b := by
    intro a b
    induction a with
    | nil => simp [leNat]
    | cons x xs ih => simp only [List.cons_append, leNat, ih, List.length_cons, Nat.pow_succ]; rw [Nat.mul_add]; ac_rfl
  rw [happ, hdrop] at this
  simpa using this

theorem splitRecs_prefix (recLen n m : Nat) (bs : Bytes) (hnm : n ≤ m) :
    IsPrefix (splitRecs recLen n bs) (splitRecs recLen m bs) := by
  induction n generalizing m bs with
  | zero => exact ⟨_, rfl⟩
  | succ n ih =>
    cases m with
    | zero => omega
    | succ m =>
      obtain ⟨t, ht⟩ := ih m (bs.drop recLen) (by omega)
      exact ⟨t, by simp only [splitRecs, List.cons_append, ht]⟩

/-- (iv) **the points returned depend only on (count, offset, record length) and the bytes
    present**: whatever header was decoded, if it carries the intended record length, the
    reader is positioned at the start of the record area, the record area of the file is a
    prefix of the intended records followed by anything (`present` bytes of it), and the count
    does not exceed the number of intended records, then the records returned are a prefix of
    the intended sequence — or the read fails. -/
theorem C19_records_prefix (h : Hdr) (offset : Nat) (file : Bytes) (recs : List Rec) (tail : Bytes) (present : Nat)
    (hpos : 0 < h.recLen) (hrec : ∀ r ∈ recs, r.length = h.recLen)
    (harea : file.drop offset = (recs.flatten ++ tail).take present)
    (hcount : h.count ≤ recs.length) :
    (∃ e, readRecords h offset file = .error e) ∨
    (∃ rs, readRecords h offset file = .ok rs ∧ IsPrefix rs recs) := by
  unfold readRecords
  simp only
  by_cases hmod : h.recLen ≠ 0 ∧ ((file.drop offset).take (h.count * h.recLen)).length % h.recLen ≠ 0
  · left; exact ⟨.partialRecord, by rw [if_pos hmod]⟩
  · right
    rw [if_neg hmod]
    refine ⟨_, rfl, ?_⟩
    have hne : ¬ h.recLen = 0 := by omega
    simp only [hne, if_false]
    have hflat := flatten_length_uniform recs h.recLen hrec
    -- the available bytes are a prefix of the intended record bytes
    have hav : (file.drop offset).take (h.count * h.recLen) = recs.flatten.take (min present (h.count * h.recLen)) := by
      rw [harea, List.take_take]
      have hle : min (h.count * h.recLen) present ≤ recs.flatten.length := by
        rw [hflat]
        exact Nat.le_trans (Nat.min_le_left _ _) (Nat.mul_le_mul_right _ hcount)
      rw [List.take_append_of_le_length hle, Nat.min_comm]
    rw [hav]
    generalize hq : min present (h.count * h.recLen) = q at *
    have hqle : q ≤ recs.flatten.length := by
      rw [hflat, ← hq]; exact Nat.le_trans (Nat.min_le_right _ _) (Nat.mul_le_mul_right _ hcount)
    have hlen : (recs.flatten.take q).length = q := by rw [List.length_take]; omega
    rw [hlen]
    have hdvd : q % h.recLen = 0 := by
      have := hmod
      rw [hav, hlen] at this
      by_cases hz : q % h.recLen = 0
      · exact hz
      · exact absurd ⟨hne, hz⟩ this
    -- q = j * recLen with j ≤ recs.length
    have hj : q = (q / h.recLen) * h.recLen := by
      have := Nat.div_add_mod q h.recLen; rw [hdvd] at this; rw [Nat.mul_comm]; omega
    have hjle : q / h.recLen ≤ recs.length := by
      apply Nat.div_le_of_le_mul; rw [Nat.mul_comm, ← hflat]; exact hqle
    -- splitting the first j records' bytes gives the first j records
    have htake : recs.flatten.take q = (recs.take (q / h.recLen)).flatten := by
      have : ∀ (l : List Rec) (j : Nat), (∀ r ∈ l, r.length = h.recLen) → j ≤ l.length →
          l.flatten.take (j * h.recLen) = (l.take j).flatten := by
        intro l
        induction l with
        | nil => intro j _ hj; simp at hj; subst hj; simp
        | cons r rs ih =>
          intro j hl hj
          cases j with
          | zero => simp
          | succ j =>
            have hr : r.length = h.recLen := hl r (by simp)
            simp only [List.flatten_cons, List.take_succ_cons]
            have e : (j + 1) * h.recLen = r.length + j * h.recLen := by rw [Nat.succ_mul, hr, Nat.add_comm]
            rw [e, List.take_length_add_append]
            rw [ih j (fun x hx => hl x (by simp [hx])) (by simpa using hj)]
      rw [hj]
      have := this recs (q / h.recLen) hrec hjle
      rw [Nat.mul_div_cancel _ hpos]
      exact this
    rw [htake]
    have hsplit := splitRecs_flatten (recs.take (q / h.recLen)) h.recLen
      (fun r hr => hrec r (List.mem_of_mem_take hr)) []
    simp only [List.append_nil, List.length_take, Nat.min_eq_left hjle] at hsplit
    rw [hsplit]
    exact ⟨recs.drop (q / h.recLen), List.take_append_drop _ _⟩

/-- the image of a destination that received only a prefix of the initial sequential stream
    is a prefix of that stream -/
theorem image_single (data : Bytes) (k : Nat) : image [] [(0, data)] k = data.take k := by
  unfold image
  by_cases h0 : k = 0
  · simp [h0]
  · simp only [h0, if_false]
    by_cases hk : k < data.length
    · simp only [hk, if_true]
      unfold writeAt; simp
    · simp only [hk, if_false]
      unfold image writeAt
      simp
      rw [List.take_of_length_le (by omega)]

end LasModel.Props.C19
